"""Which functions / cases / clauses make up each container-level property check, plus their canaries."""
import z3

from pyvc import vc, spec
from pyvc.values import *   # noqa: F401,F403
from pyvc.symcoll import WS
from contracts import clib, container_transfer as CT, container_ops as CO, plate_ops as PO, solutions as SOL

FUNCTIONS = {
    'C01': ['Container._transfer', 'Container.transfer', 'Container._transfer_slice', 'PlateSlicer._transfer',
            'Plate.transfer', 'Slicer.apply', 'Slicer.set', 'Slicer.get', 'Slicer.__init__', 'Slicer.parse_single',
            'Slicer.parse_tuple', 'Slicer.parse_slice', 'Slicer.resolve_labels', 'Plate.__getitem__'],
    'C02': ['Container._transfer', 'Unit.parse_quantity', 'Unit.convert_to_storage', 'Container._transfer_slice',
            'PlateSlicer._transfer', 'Slicer.apply'],
    'C03': ['Container.__init__', 'Container._self_add', 'Container._add', 'Container._transfer', 'Container.remove',
            'Container.fill_to', 'PlateSlicer.fill_to', 'Plate.fill_to'],
    'C10': ['Container.__init__', 'Container._self_add', 'Container._add', 'Container._transfer', 'Container.remove',
            'Container.fill_to', 'Container.get_volume', 'Container.get_concentration', 'PlateSlicer.get_volumes',
            'PlateSlicer.get_moles', 'PlateSlicer.get_substances', 'Plate.get_volumes', 'Plate.get_moles',
            'Plate.get_substances', 'Plate.get_volume', 'Container.get_substances'],
    'C17': ['Container.remove', 'PlateSlicer.remove', 'Plate.remove', 'Slicer.apply'],
    'C07': ['Slicer.apply', 'Slicer.set', 'Slicer.get', 'Container._transfer_slice', 'PlateSlicer._transfer',
            'PlateSlicer.remove', 'PlateSlicer.fill_to', 'Plate.transfer', 'Plate.remove', 'Plate.fill_to',
            'Container.transfer', 'Plate.__getitem__', 'Slicer.__init__', 'Slicer.parse_single', 'Slicer.parse_tuple',
            'Slicer.parse_slice', 'Slicer.resolve_labels'],
    'C11': ['Container.fill_to', 'Container._add', 'Container._self_add', 'Container.dilute'],
    'C05': ['Container.create_solution', 'Unit.parse_concentration', 'Unit.parse_quantity', 'Unit.convert_from'],
    'C12': ['Container.create_solution_from', 'Unit.parse_concentration', 'Unit.parse_quantity'],
    'C04': ['Container.__init__', 'Container._self_add', 'Container._add', 'Container._transfer', 'Container.transfer',
            'Container._transfer_slice', 'Container.remove', 'Container.fill_to', 'Container.get_volume',
            'Container.get_concentration', 'PlateSlicer._transfer', 'PlateSlicer.remove', 'PlateSlicer.fill_to',
            'Plate.transfer', 'Plate.remove', 'Plate.fill_to', 'Slicer.apply', 'Slicer.set', 'Recipe.uses',
            'Recipe.transfer', 'Recipe.create_container', 'Recipe.create_solution', 'Recipe.create_solution_from',
            'Recipe.remove', 'Recipe.dilute', 'Recipe.fill_to', 'Recipe.start_stage', 'Recipe.end_stage'],
}


def tasks(tier, pid):
    t = []
    tcases = CT.cases(tier)
    if pid in ('C01', 'C03', 'C04', 'C12', 'C05'):
        # C12 / C05: the clauses of Container._transfer's and __init__'s contracts that the solution builders use modularly
        t += [('transfer',) + c for c in tcases]
    elif pid in ('C02', 'C10'):
        t += [('transfer',) + c for c in tcases if c[2] in ('range', 'empty0')]
    ops = {'C03': ['add', 'remove', 'fill_to', 'init'], 'C10': ['add', 'remove', 'fill_to', 'init', 'get_volume',
                                                               'get_concentration'],
           'C17': ['remove'], 'C11': ['fill_to', 'add'], 'C04': ['add', 'remove', 'fill_to', 'init', 'get_volume',
                                                              'get_concentration'],
           'C12': ['init'], 'C05': ['init']}.get(pid, [])
    for o in ops:
        for c in CO.OPS[o].cases(tier):
            if pid == 'C10' and o == 'add' and c[2] != 'pos':
                continue
            if pid == 'C11' and o == 'add' and c[2] != 'pos':
                continue
            t.append(('op', o, c))
    if pid in ('C01', 'C02', 'C07', 'C04'):
        t += [('plate_transfer',) + c for c in PO.transfer_cases(tier)]
    if pid in ('C07', 'C17', 'C04'):
        t += [('plate_unary',) + c for c in PO.unary_cases(tier)]
    if pid == 'C11':
        # Plate.fill_to / PlateSlicer.fill_to: every addressed well gets Container.fill_to's result (and only those)
        t += [('plate_unary',) + c for c in PO.unary_cases(tier) if c[0] == 'fill_to']
    if pid in ('C11', 'C03', 'C04', 'C10'):
        t += [('sol', 'dilute', c) for c in SOL.OPS['dilute'].cases(tier)]
    if pid in ('C12', 'C03', 'C04'):
        t += [('sol', 'create_from', c) for c in SOL.OPS['create_from'].cases(tier)]
    if pid in ('C05', 'C03', 'C04'):
        t += [('sol', 'create_solution', c) for c in SOL.OPS['create_solution'].cases(tier)]
    if pid == 'C03':
        t.append(('float_bounded', 300 if tier == 'quick' else 3000))
    if pid in ('C01', 'C02', 'C05', 'C10', 'C11', 'C12'):
        t.append(('float_targets', 40 if tier == 'quick' else 400))
    if pid == 'C10':
        t.append(('syntactic_cached',))
        from contracts import plate_observers as PB
        t += [('plate_observer',) + x for x in PB.tasks(tier)]
    if pid == 'C04':
        from contracts import plate_observers as PB
        t += [('plate_observer',) + x for x in PB.tasks(tier) if x[1] in ('plate', 'rect', 'list2')]
    if pid in ('C04', 'C07', 'C17', 'C03'):
        # C03 names recipe steps: a step refuses/accepts like the direct operation iff bake hands it the current states
        from contracts import bake as BK
        t += [('bake',) + x for x in BK.tasks(tier, pid) if x[0] == 'step' and (pid != 'C17' or x[1].startswith('remove'))]
    if pid == 'C17':
        from contracts import trackers as TR
        t += [('tracker',) + x for x in TR.tasks(tier, pid) if x[0] == 'used' and 'remove' in x[1]]
    if pid == 'C04':
        from contracts import c16_recipe as C16
        for m, variants in C16.METHODS.items():
            for v in variants:
                t.append(('recipe_method', m, v, False))
        t.append(('syntactic',))
    if pid == 'C03':
        # dispensing from / collecting into a container: every aliquot is a Container.transfer on the CURRENT stock (its
        # refusal and its non-negative results are then the plate operation's: `linear`)
        t += [('plate_transfer',) + c for c in PO.transfer_cases(tier) if c[0] in ('c2p', 'p2c')]
        # a refusal must survive the plate level: every addressed well of a plate fill_to goes through Container.fill_to
        # (a well skipped by the plate code is a well whose infeasible request is not refused)
        t += [('plate_unary',) + c for c in PO.unary_cases(tier) if c[0] == 'fill_to']
    t += unit_contract_tasks(tier, pid)
    t += selector_contract_tasks(tier, pid)
    from contracts import rounding_placement as RP
    t += [('rounding_placement',) + x for x in RP.tasks(tier, pid)]
    t.append(('canaries',))
    return t


# Properties whose contracts use Unit.convert_from / Unit.convert / the storage conversions through their specification
# (contracts/unit_summaries.py): their checks re-discharge that specification on the real conversion code, so that a
# change inside the conversions is reported under every property that is decided modulo them.
USES_UNIT_CONTRACTS = ('C02', 'C03', 'C05', 'C09', 'C10', 'C11', 'C12', 'C14', 'C15', 'C17', 'C19')


def unit_contract_tasks(tier, pid):
    if pid not in USES_UNIT_CONTRACTS:
        return []
    from contracts import c06_units as U6
    return [('unit_contract',) + x for x in U6.tasks(tier) if x[0] in ('prefix', 'convert_from', 'convert', 'storage',
                                                                      'cache_transparency')]


# Properties decided modulo "plate[selector] addresses the documented wells" (the plate-level contracts build their slices
# with the real Plate.__getitem__ on small plates): their checks re-discharge the selector contract of C13 (symbolic plate
# sizes, labelings and selector contents) under their own name.
USES_SELECTOR_CONTRACT = ('C01', 'C07')


def selector_contract_tasks(tier, pid):
    if pid not in USES_SELECTOR_CONTRACT:
        return []
    from contracts import c13_slicer as S13
    return [('selector_contract',) + x for x in S13.tasks(tier) if x[0] in ('templates', 'get')]


def run_selector_contract(pid, *args):
    from contracts import c13_slicer as S13
    out = []
    for r in S13.run(*args):
        if r['kind'] in ('property', 'aux') or r['verdict'] == 'unsupported':
            out.append(dict(r, name=r['name'].replace('C13/', f'{pid}/', 1)))
    return out


def run_unit_contract(pid, *args):
    from contracts import c06_units as U6
    out = []
    if args[0] == 'cache_transparency':
        return U6.run_cache_transparency(pid)
    for r in U6.run(*args):
        if r['kind'] in ('property', 'aux') or r['verdict'] == 'unsupported':
            out.append(dict(r, name=r['name'].replace('C06/', f'{pid}/', 1)))
    return out


def run(pid, kind, *args):
    if kind == 'unit_contract':
        return run_unit_contract(pid, *args)
    if kind == 'selector_contract':
        return run_selector_contract(pid, *args)
    if kind == 'rounding_placement':
        from contracts import rounding_placement as RP
        return RP.run(pid, *args)
    if kind == 'transfer':
        return CT.run_case(pid, *args)
    if kind == 'op':
        return CO.run(args[0], pid, args[1])
    if kind == 'plate_transfer':
        return PO.run_transfer(pid, *args)
    if kind == 'plate_unary':
        return PO.run_unary(pid, *args)
    if kind == 'bake':
        from contracts import bake as BK
        return BK.run(pid, *args)
    if kind == 'tracker':
        from contracts import trackers as TR
        return TR.run(pid, *args)
    if kind == 'recipe_method':
        from contracts import c16_recipe as C16
        out = []
        for r in C16.run_method(*args):
            if 'frame[arguments]' in r['name'] or r['kind'] in ('cover',) or r['verdict'] == 'unsupported':
                out.append(dict(r, name=r['name'].replace('C16/', 'C04/')))
        return out
    if kind == 'sol':
        return SOL.run(args[0], pid, args[1])
    if kind == 'float_bounded':
        from contracts import c03_float
        return c03_float.run(*args)
    if kind == 'plate_observer':
        from contracts import plate_observers as PB
        rs = PB.run(pid, *args)
        if pid == 'C04':       # observers write nothing and hand out new objects
            rs = [r for r in rs if r['kind'] != 'property' or any(k in r['name'] for k in ('/frame', '/fresh', 'unsupported'))]
        return rs
    if kind == 'float_targets':
        from contracts import float_targets
        return float_targets.run(pid, *args)
    if kind == 'syntactic_cached':
        from contracts import c04_syntactic
        return [dict(r, name=r['name'].replace('C04/', 'C10/')) for r in c04_syntactic.run() if 'cached-results' in r['name']]
    if kind == 'syntactic':
        from contracts import c04_syntactic
        return c04_syntactic.run()
    if kind == 'canaries':
        return canaries(pid)
    raise ValueError(kind)


def canaries(pid):
    """Deliberately false clauses that must be refuted on the real code, and true ones that must verify
    (finite instantiation with one substance: the verdicts are immediate and exact)."""
    res = []
    keys = [z3.Const('s0', Sub)]
    ctr = clib.contracts()
    if pid in ('C01', 'C02', 'C03', 'C10', 'C04'):
        case = (False, 'mL', 'range', 'inf')

        def body(I):
            st = CT.setup_case(I, *case, finite=(keys, [True], [True]))
            T, S, q, qbase, mS = st[0], st[1], st[2], st[3], st[4]
            I.assume(q > 0)
            I.assume(S.amt[keys[0]] > 0)
            out = vc.call(I, CT.FN, [T.obj, S.obj, SegStr([NumHole(q), ' ', 'mL'])])
            if out.kind != 'return':
                return out
            src, to = out.value
            s = keys[0]
            a_src = [v for k, v in src.fields['contents'].items()][0]
            a_to = [v for k, v in to.fields['contents'].items()][0]
            I.oblige('canary[conserve-wrong-sign]', a_src - a_to == S.amt[s] - T.amt[s], 'canary-false')
            I.oblige('canary[trivial]', (a_src + a_to) - a_to == a_src, 'canary-true')
            I.oblige('canary[moves-twice-the-request]', mS - clib.finite_measure(I, 'vol', keys, {s: a_src}) == 2 * qbase,
                     'canary-false')
            I.oblige('canary[volume-off-by-1000]', real(to.fields['volume']) * 1000 * spec.num(clib.vs_of(I)) ==
                     clib.finite_measure(I, 'vol', keys, {s: a_to}), 'canary-false')
            return out
        for I, out in vc.explore(body, contracts=ctr):
            res += [dict(r, name=f'{pid}/' + r['name']) for r in vc.discharge(I, 'Container._transfer/', 'canary', 10000)
                    if r['kind'].startswith('canary')]
    if pid in ('C17', 'C11', 'C07', 'C12', 'C05'):
        def body2(I):
            clib.assume_world(I)
            C = clib.mk_container(I, 'C', 'inf', keys, [True])
            I.assume(C.amt[keys[0]] > 0)
            out = vc.call(I, 'Container.remove', [C.obj, SubV(keys[0])])
            if out.kind != 'return':
                return out
            r = out.value
            I.oblige('canary[removed-substance-kept]', len(r.fields['contents']) == 1, 'canary-false')
            I.oblige('canary[trivial]', C.amt[keys[0]] + 1 > C.amt[keys[0]], 'canary-true')
            return out
        for I, out in vc.explore(body2, contracts=ctr):
            res += [dict(r, name=f'{pid}/' + r['name']) for r in vc.discharge(I, 'Container.remove/', 'canary', 10000)
                    if r['kind'].startswith('canary')]
    return clib.dedupe(res)
