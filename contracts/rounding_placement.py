"""Rounding placement under contract (relaxing A2 for the functions where it matters).

Everywhere else round(x, internal_precision) is the identity (A2).  Here the same real code is executed in the engine's
`round_mode='error'`: every internal rounding returns SOME number within half a unit of the 10th decimal of its argument.
The postconditions are accuracy bounds at plate scale: a result must be within the library's own absolute resolution
(1e-10 of its unit) plus a relative 1e-9 of the exact value whenever the container holds at least a nanolitre.  A rounding
applied in the wrong unit (10 decimals of a LITRE or of a MOLE instead of the storage unit) breaks the bound and is refuted
with a concrete container — these are discharged obligations, complementing the bounded float-targets sweep."""
import json

import z3

from pyvc import vc, spec
from pyvc.values import *   # noqa: F401,F403
from contracts import clib

FUNCTIONS = ['Container.get_concentration', 'Container.get_volume', 'Unit.parse_concentration', 'Unit.convert_from_storage']
ABS = z3.RealVal('1/10000000000')        # 1e-10: the library's resolution in the unit of the answer
REL = z3.RealVal('1/1000000000')         # 1e-9


def absz(t):
    return z3.If(t >= 0, t, -t)


def tasks(tier, pid):
    t = []
    if pid == 'C10':
        t += [('get_concentration', k, u) for k in (1, 2) for u in ('M', 'mM', 'mg/mL', 'g/L', '%w/w', 'mmol/g', '%v/v')]
    if pid == 'C14':
        t += [('parse_concentration', u) for u in ('nM', 'uM', 'mM', 'M', 'ng/mL', 'umol/L', 'nmol/uL', 'mg/g', 'nm', 'um')]
    if pid == 'C11':
        t += [('fill_to', u) for u in ('uL', 'mL', 'mg', 'g', 'mmol', 'umol')]
        t += [('dilute', u) for u in ('M', 'mM', 'nM', 'mg/mL', 'ug/g', 'nmol/g', 'mmol/mol')]
    if pid in ('C02', 'C01'):
        t += [('transfer', u) for u in ('uL', 'nL', 'mL', 'mg', 'ug', 'g', 'mmol', 'nmol', 'umol')]
    if pid in ('C01', 'C03'):
        t += [('transfer_all', u) for u in ('uL', 'mg', 'ng', 'mmol', 'nmol')]
    return t


SERVES = {'accuracy[get_concentration]': ['C10'], 'accuracy[parse_concentration]': ['C14'], 'accuracy[fill_to]': ['C11'],
          'accuracy[fill_to/others]': ['C11'], 'accuracy[size]': ['C02'], 'accuracy[conserve]': ['C01'], 'accuracy[conserve/all]': ['C01'], 'accuracy[nonneg/all]': ['C01', 'C03'], 'safe': ['C10', 'C14'],
          'accept': ['C11', 'C02', 'C01'],
          'accuracy[dilute]': ['C11'], 'accuracy[dilute/others]': ['C11'], 'refuse-higher': ['C11']}

REPLAY = r'''
import json
from fractions import Fraction as F
from pyplate import Substance, Container
from pyplate.pyplate import Unit, config
J = json.loads(%r)
def fr(x):
    x = str(x).rstrip('?')
    return F(x) if '/' in x or 'e' not in x.lower() else F(float(x))
def sub(name, d):
    k = int(d['kind'])
    if k == 1:
        s = Substance.solid(name, float(fr(d['mw'])))
    else:
        s = Substance.liquid(name, float(fr(d['mw'])), float(fr(d['dens'])))
    if k == 1:
        s.density = float(fr(d['dens']))       # the contract quantifies over the density of solids as well
    return s
def run():
    s, w = sub('s', J['s']), sub('w', J['w'])
    C = Container('C', initial_contents=[(s, '%%r %%s' %% (float(fr(J['a_s'])), config.moles_storage_unit)), (w, '%%r %%s' %% (float(fr(J['a_w'])), config.moles_storage_unit))])
    what = J['what']
    if what == 'get_concentration':
        from contracts.c14_grammar import concentration_denotation
        mult, nb, db = concentration_denotation('1 ' + J['units'])
        num = Unit.convert_from(s, C.contents[s], config.moles_storage_unit, nb)
        den = sum(Unit.convert_from(x, a, config.moles_storage_unit, db) for x, a in C.contents.items())
        want = num / den / float(mult)
        got = C.get_concentration(s, J['units'])
        ok = abs(got - want) <= 1.0001e-10 + 1.0001e-9 * want
        return {'ok': ok, 'observed': got, 'expected': want, 'contents': str(C.contents)}
    if what == 'transfer':
        D = Container('D', initial_contents=[(w, '%%r %%s' %% (float(fr(J['d_w'])), config.moles_storage_unit))])
        q = float(fr(J['q']))
        base = J['unit'][-1] if J['unit'][-1] in 'Lg' else 'mol'
        def measure(c):
            return sum(Unit.convert_from(x, a, config.moles_storage_unit, J['unit']) for x, a in c.contents.items())
        C2, D2 = Container.transfer(C, D, '%%r %%s' %% (q, J['unit']))
        moved = measure(D2) - measure(D)
        ok = abs(moved - q) <= 1e-7 * q + 1e-9
        return {'ok': ok, 'observed': moved, 'expected': q, 'unit': J['unit'], 'contents': str(C.contents)}
    if what == 'dilute':
        from contracts.c14_grammar import concentration_denotation
        mult, nb, db = concentration_denotation('1 ' + J['units'])
        def conc(c):
            num = Unit.convert_from(s, c.contents[s], config.moles_storage_unit, nb)
            den = sum(Unit.convert_from(x, a, config.moles_storage_unit, db) for x, a in c.contents.items())
            return num / den / float(mult)
        cur = conc(C)
        c = float(fr(J['c']))
        # the model's target relative to the model's current concentration, carried over to the container as built
        try:
            R = C.dilute(s, '%%r %%s' %% (c, J['units']), w)
        except ValueError as e:
            ok = c > cur * 1.000001
            return {'ok': ok, 'observed': 'ValueError: %%s' %% e, 'expected': 'refused iff the target is above the current concentration', 'current': cur, 'target': c}
        got = conc(R)
        ok = c <= cur * 1.000002 and abs(got - c) <= 3e-6 * c
        return {'ok': ok, 'observed': got, 'expected': c, 'current': cur, 'units': J['units'], 'contents': str(C.contents)}
    return {'ok': None, 'error': 'no replay for ' + what}
'''


def replay_job(what, mv, extra):
    try:
        d = {'what': what,
             's': {'kind': str(mv['kind_s']), 'mw': str(mv['mw_s']), 'dens': str(mv['dens_s'])},
             'w': {'kind': '2', 'mw': str(mv['mw_w']), 'dens': str(mv['dens_w'])},
             'a_s': str(mv['a_s']), 'a_w': str(mv['a_w'])}
        d.update({k_: (str(mv[k_]) if k_ in mv else v_) for k_, v_ in extra.items()})
    except (KeyError, TypeError):
        return []
    return [{'inputs': d, 'code': REPLAY % json.dumps(d)}]


def model_inputs(C, s, w):
    return {'kind_s': kind(s), 'mw_s': mw(s), 'dens_s': dens(s), 'mw_w': mw(w), 'dens_w': dens(w), 'a_s': C.amt[s], 'a_w': C.amt[w]}


def run(pid, what, *args):
    return globals()['run_' + what](pid, *args)


def run_get_concentration(pid, k, units):
    """|get_concentration(s, units) - definition| <= 1e-10 + 1e-9 * definition for every container of solute + solvent holding
    at least 1 nL and at least 1e-6 storage units of the solute"""
    from contracts.c14_grammar import concentration_denotation
    case = f"{k}|{units}"
    res = []

    def body(I):
        I.__dict__['round_mode'] = 'error'
        clib.assume_world(I)
        s, w = z3.Const('s', Sub), z3.Const('w', Sub)
        I.assume(s != w)
        I.assume(z3.And(kind(s) == k, kind(w) == 2))
        # realistic physical constants (the bound is about SCALE, not about exotic substances)
        for t in (s, w):
            I.assume(z3.And(mw(t) >= 10, mw(t) <= 1000, dens(t) >= z3.RealVal('1/2'), dens(t) <= 3))
        C = clib.mk_container(I, 'C', 'inf', [s, w], [True, True])
        ms, vs = spec.num(clib.ms_of(I)), spec.num(clib.vs_of(I))
        a_s, a_w = C.amt[s], C.amt[w]
        vol_L = sum((C.amt[t] * ms * spec.num(spec.factor(spec.SubSpec(kind(t), mw(t), dens(t), sa(t)), 'mol', 'L')) for t in (s, w)), z3.RealVal(0))
        I.assume(z3.And(a_s >= z3.RealVal('1/1000000'), a_w > 0, a_s <= 10 ** 7, a_w <= 10 ** 9))
        I.assume(vol_L >= z3.RealVal('1/1000000000'))                    # at least one nanolitre
        I.assume(C.volume * vs == vol_L)
        I.__dict__['_inputs'] = model_inputs(C, s, w)
        out = vc.call(I, 'Container.get_concentration', [C.obj, SubV(s), units])
        if out.kind != 'return':
            I.oblige('safe', False, 'property', note=f'{out.exc.cls} at line {out.exc.lineno}')
            return out
        mult, nb, db = concentration_denotation('1 ' + units, I.cfg.data['default_weight_volume_units'])
        S = spec.SubSpec(k, mw(s), dens(s), sa(s))
        numer = a_s * ms * spec.num(spec.factor(S, 'mol', nb))
        denom = sum((C.amt[t] * ms * spec.num(spec.factor(spec.SubSpec(kind(t), mw(t), dens(t), sa(t)), 'mol', db)) for t in (s, w)), z3.RealVal(0))
        want = numer / denom / spec.num(mult)
        got = real(out.value)
        I.oblige('accuracy[get_concentration]', absz(got - want) <= ABS + REL * want, 'property',
                 note=f'concentration in {units} is the definition up to the internal resolution (1e-10) and a relative 1e-9, '
                      f'for containers of at least 1 nL')
        return out
    for I, out in vc.explore(body, contracts=clib.contracts(), max_paths=50):
        if isinstance(out, vc.Outcome) and out.kind == 'unsupported':
            res.append(vc.unsupported_result('Container.get_concentration/unsupported', case, out.note))
            continue
        res += vc.discharge(I, 'Container.get_concentration/', case, 20000, inputs=I.__dict__.get('_inputs'),
                            replay_fn=lambda mv, ob: replay_job('get_concentration', mv, {'units': units}))
    return finish(pid, res)


def run_parse_concentration(pid, unit):
    """the parsed value is v * SI ratio up to a relative 1e-12 for every v whose denotation is at least 1e-12 in base units"""
    from contracts.c14_grammar import concentration_denotation
    res = []
    case = f"'v {unit}'"

    def body(I):
        I.__dict__['round_mode'] = 'error'
        v = z3.Real('v')
        I.assume(v > 0)
        mult, nb, db = concentration_denotation('1 ' + unit, I.cfg.data['default_weight_volume_units'])
        want = v * spec.num(mult)
        I.assume(want >= z3.RealVal('1/1000000000000'))
        out = vc.call(I, 'Unit.parse_concentration', [SegStr([NumHole(v), ' ', unit])])
        if out.kind != 'return':
            I.oblige('safe', False, 'property', note=f'{out.exc.cls}')
            return out
        got = real(out.value[0])
        I.oblige('accuracy[parse_concentration]', absz(got - want) <= z3.RealVal('1/1000000000000') * want, 'property',
                 note='the parsed value keeps the digits of small concentrations (relative 1e-12)')
        return out
    for I, out in vc.explore(body, max_paths=50):
        if isinstance(out, vc.Outcome) and out.kind == 'unsupported':
            res.append(vc.unsupported_result('Unit.parse_concentration/unsupported', case, out.note))
            continue
        res += vc.discharge(I, 'Unit.parse_concentration/', case, 20000)
    return finish(pid, res)


def two_component(I, k_s=1):
    """a container of a solid/liquid `s` and a liquid `w` with realistic constants, at least 1 uL of liquid"""
    clib.assume_world(I)
    s, w = z3.Const('s', Sub), z3.Const('w', Sub)
    I.assume(s != w)
    I.assume(z3.And(kind(s) == k_s, kind(w) == 2))
    for t in (s, w):
        I.assume(z3.And(mw(t) >= 10, mw(t) <= 1000, dens(t) >= z3.RealVal('1/2'), dens(t) <= 3))
    C = clib.mk_container(I, 'C', 'inf', [s, w], [True, True])
    ms, vs = spec.num(clib.ms_of(I)), spec.num(clib.vs_of(I))

    def measure(amts, base):
        return sum((amts[t] * ms * spec.num(spec.factor(spec.SubSpec(kind(t), mw(t), dens(t), sa(t)), 'mol', base)) for t in (s, w)),
                   z3.RealVal(0))
    vol_L = measure({s: C.amt[s], w: C.amt[w]}, 'L')
    I.assume(z3.And(C.amt[s] >= z3.RealVal('1/1000'), C.amt[w] >= 1, C.amt[s] <= 10 ** 7, C.amt[w] <= 10 ** 9))
    I.assume(vol_L >= z3.RealVal('1/1000000'))           # at least a microlitre
    I.assume(C.volume * vs == vol_L)
    return C, s, w, measure, ms, vs


def run_fill_to(pid, unit):
    """fill_to(w, 'T unit') holds T of `unit` up to a relative 1e-8, only the solvent changed"""
    res = []
    case = f"fill_to|{unit}"
    p_, b_ = spec.split_unit(unit)

    def body(I):
        I.__dict__['round_mode'] = 'error'
        C, s, w, measure, ms, vs = two_component(I)
        T = z3.Real('T')
        cur = measure({s: C.amt[s], w: C.amt[w]}, b_)
        Tb = T * spec.num(spec.SI[p_])
        I.assume(z3.And(Tb >= cur * z3.RealVal('101/100'), Tb <= cur * 1000))
        out = vc.call(I, 'Container.fill_to', [C.obj, SubV(w), SegStr([NumHole(T), ' ', unit])])
        if out.kind != 'return':
            I.oblige('accept', False, 'property', note=f'{out.exc.cls} at line {out.exc.lineno} for a target above the current quantity')
            return out
        r = out.value
        amts = {t: r.fields['contents'][k_] for t in (s, w) for k_ in r.fields['contents'] if str(k_.term) == str(t)}
        got = measure(amts, b_)
        I.oblige('accuracy[fill_to]', absz(got - Tb) <= z3.RealVal('1/100000000') * Tb, 'property',
                 note=f'the filled container holds the target {unit} up to a relative 1e-8')
        I.oblige('accuracy[fill_to/others]', absz(real(amts[s]) - C.amt[s]) <= ABS, 'property')
        return out
    for I, out in vc.explore(body, contracts=clib.contracts(), max_paths=60):
        if isinstance(out, vc.Outcome) and out.kind == 'unsupported':
            res.append(vc.unsupported_result('Container.fill_to/unsupported', case, out.note))
            continue
        res += vc.discharge(I, 'Container.fill_to/', case, 30000)
    return finish(pid, res)


def run_dilute(pid, cunit):
    """dilute(s, 'c cunit', w) with c between 1% and 50% of the current concentration — at EVERY scale of concentration
    the two-component domain reaches (down to ~1e-11 M): the result has the target within the library's own band, only
    the solvent changed; a target 1% above the current concentration is refused."""
    from contracts.c14_grammar import concentration_denotation
    res = []
    case = f"dilute|{cunit}"

    def body(I):
        I.__dict__['round_mode'] = 'error'
        C, s, w, measure, ms, vs = two_component(I)
        mult, nb, db = concentration_denotation('1 ' + cunit, I.cfg.data['default_weight_volume_units'])
        S = spec.SubSpec(1, mw(s), dens(s), sa(s))

        def conc(amts):
            return amts[s] * ms * spec.num(spec.factor(S, 'mol', nb)) / measure(amts, db) / spec.num(mult)
        cur = conc({s: C.amt[s], w: C.amt[w]})
        c = z3.Real('c')
        higher = I.choose(2, 'target above the current concentration?') == 1
        if higher:
            I.assume(z3.And(c >= cur * z3.RealVal('101/100'), c <= cur * 100))
        else:
            I.assume(z3.And(c >= cur / 100, c <= cur / 2))
        I.__dict__['_inputs'] = dict(model_inputs(C, s, w), c=c)
        out = vc.call(I, 'Container.dilute', [C.obj, SubV(s), SegStr([NumHole(c), ' ', cunit]), SubV(w)])
        if higher:
            I.oblige('refuse-higher', out.kind == 'raise' and out.exc.cls == 'ValueError', 'property',
                     note='a target above the current concentration is refused, however small both are')
            return out
        if out.kind != 'return':
            I.oblige('accept', False, 'property', note=f'{out.exc.cls} at line {out.exc.lineno} for a target below the current concentration')
            return out
        r = out.value
        amts = {}
        for t in (s, w):
            hit = [k_ for k_ in r.fields['contents'] if str(k_.term) == str(t)]
            amts[t] = real(r.fields['contents'][hit[0]]) if hit else z3.RealVal(0)
        band = z3.RealVal('3/1000000')
        I.oblige('accuracy[dilute]', absz(conc(amts) - c) <= band * c, 'property',
                 note=f'the diluted container has the target concentration ({cunit}) within the 1e-6 band')
        I.oblige('accuracy[dilute/others]', absz(amts[s] - C.amt[s]) <= ABS, 'property')
        return out
    for I, out in vc.explore(body, contracts=clib.contracts(), max_paths=80):
        if isinstance(out, vc.Outcome) and out.kind == 'unsupported':
            res.append(vc.unsupported_result('Container.dilute/unsupported', case, out.note))
            continue
        res += vc.discharge(I, 'Container.dilute/', case, 40000, inputs=I.__dict__.get('_inputs'),
                            replay_fn=lambda mv, ob: replay_job('dilute', mv, {'units': cunit, 'c': None}))
    return finish(pid, res)


def run_transfer_all(pid, unit):
    """a request for (about) everything the source holds — within the rounding of the availability check on either side:
    whatever the library decides, an accepted transfer creates or destroys nothing (per substance, up to the rounding of the
    stored amounts) and leaves no negative remainder"""
    res = []
    case = f"transfer-all|{unit}"
    p_, b_ = spec.split_unit(unit)

    def body(I):
        I.__dict__['round_mode'] = 'error'
        C, s, w, measure, ms, vs = two_component(I)
        D = clib.mk_container(I, 'D', 'inf', [w], [True])
        I.assume(z3.And(D.amt[w] >= 0, D.amt[w] <= 10 ** 9))
        I.assume(D.volume * vs == D.amt[w] * ms * spec.num(spec.factor(spec.SubSpec(2, mw(w), dens(w), sa(w)), 'mol', 'L')))
        q = z3.Real('q')
        cur = measure({s: C.amt[s], w: C.amt[w]}, b_)
        qb = q * spec.num(spec.SI[p_])
        I.assume(z3.And(qb >= cur * z3.RealVal('999999/1000000'), qb <= cur * z3.RealVal('1000001/1000000')))
        I.__dict__['_inputs'] = dict(model_inputs(C, s, w), q=q, d_w=D.amt[w])
        out = vc.call(I, 'Container._transfer', [D.obj, C.obj, SegStr([NumHole(q), ' ', unit])])
        if out.kind != 'return':
            return out                  # refusing a request above what is there is fine
        src2, dst2 = out.value

        def amts_of(o):
            d = {}
            for t in (s, w):
                hit = [k_ for k_ in o.fields['contents'] if str(k_.term) == str(t)]
                d[t] = real(o.fields['contents'][hit[0]]) if hit else z3.RealVal(0)
            return d
        a_src, a_dst = amts_of(src2), amts_of(dst2)
        slack = z3.RealVal('2/10000000000')
        I.oblige('accuracy[conserve/all]', z3.And(absz(a_src[s] + a_dst[s] - C.amt[s]) <= slack,
                                                  absz(a_src[w] + a_dst[w] - C.amt[w] - D.amt[w]) <= slack), 'property',
                 note='taking everything: source + destination hold what they held, up to the rounding of the stored amounts')
        I.oblige('accuracy[nonneg/all]', z3.And(a_src[s] >= 0, a_src[w] >= 0), 'property',
                 note='taking everything leaves no negative remainder')
        return out
    for I, out in vc.explore(body, contracts=clib.contracts(), max_paths=60):
        if isinstance(out, vc.Outcome) and out.kind == 'unsupported':
            res.append(vc.unsupported_result('Container._transfer/unsupported', case, out.note))
            continue
        res += vc.discharge(I, 'Container._transfer/', case, 30000, inputs=I.__dict__.get('_inputs'),
                            replay_fn=lambda mv, ob: replay_job('transfer', mv, {'unit': unit, 'q': None, 'd_w': None}))
    return finish(pid, res)


def run_transfer(pid, unit):
    """Container.transfer of q `unit` moves q up to a relative 1e-8 and conserves each substance up to 2e-10 storage units"""
    res = []
    case = f"transfer|{unit}"
    p_, b_ = spec.split_unit(unit)

    def body(I):
        I.__dict__['round_mode'] = 'error'
        C, s, w, measure, ms, vs = two_component(I)
        D = clib.mk_container(I, 'D', 'inf', [w], [True])
        I.assume(z3.And(D.amt[w] >= 0, D.amt[w] <= 10 ** 9))
        I.assume(D.volume * vs == D.amt[w] * ms * spec.num(spec.factor(spec.SubSpec(2, mw(w), dens(w), sa(w)), 'mol', 'L')))
        q = z3.Real('q')
        cur = measure({s: C.amt[s], w: C.amt[w]}, b_)
        qb = q * spec.num(spec.SI[p_])
        I.assume(z3.And(qb >= cur / 1000, qb <= cur * z3.RealVal('99/100')))
        I.assume(qb >= z3.RealVal('1/100000000'))            # at least 10 nL / 10 ng / 10 nmol: a hundred million internal units
        I.__dict__['_inputs'] = dict(model_inputs(C, s, w), q=q, d_w=D.amt[w])
        out = vc.call(I, 'Container._transfer', [D.obj, C.obj, SegStr([NumHole(q), ' ', unit])])
        if out.kind != 'return':
            I.oblige('accept', False, 'property', note=f'{out.exc.cls} at line {out.exc.lineno} for a request the source can serve')
            return out
        src2, dst2 = out.value

        def amts_of(o):
            d = {}
            for t in (s, w):
                hit = [k_ for k_ in o.fields['contents'] if str(k_.term) == str(t)]
                d[t] = real(o.fields['contents'][hit[0]]) if hit else z3.RealVal(0)
            return d
        a_src, a_dst = amts_of(src2), amts_of(dst2)
        moved = measure(a_dst, b_) - measure({s: z3.RealVal(0), w: D.amt[w]}, b_)
        # three stored amounts are rounded to 1e-10 storage units: converted to the request's base unit with the extreme
        # constants allowed above (1000 g/mol, 2 L/mol) that is at most 3e-13 g / 6e-16 L / 3e-16 mol
        slack_b = {'g': z3.RealVal('3/10000000000000'), 'L': z3.RealVal('6/10000000000000000'), 'mol': z3.RealVal('3/10000000000000000')}[b_]
        I.oblige('accuracy[size]', absz(moved - qb) <= z3.RealVal('1/100000000') * qb + slack_b, 'property',
                 note=f'the amount moved, measured in {unit}, is the request up to a relative 1e-8 plus the resolution of the stored amounts')
        slack = z3.RealVal('2/10000000000')
        I.oblige('accuracy[conserve]', z3.And(absz(a_src[s] + a_dst[s] - C.amt[s]) <= slack,
                                              absz(a_src[w] + a_dst[w] - C.amt[w] - D.amt[w]) <= slack), 'property',
                 note='source + destination hold what they held, up to the rounding of the two stored amounts')
        return out
    for I, out in vc.explore(body, contracts=clib.contracts(), max_paths=60):
        if isinstance(out, vc.Outcome) and out.kind == 'unsupported':
            res.append(vc.unsupported_result('Container._transfer/unsupported', case, out.note))
            continue
        res += vc.discharge(I, 'Container._transfer/', case, 30000, inputs=I.__dict__.get('_inputs'),
                            replay_fn=lambda mv, ob: replay_job('transfer', mv, {'unit': unit, 'q': None, 'd_w': None}))
    return finish(pid, res)


def finish(pid, res):
    out = []
    for r in clib.dedupe(res):
        cl = r['name'].split('/', 1)[1] if '/' in r['name'] else r['name']
        if r['kind'] == 'property' and r['verdict'] != 'unsupported':
            if cl not in SERVES:
                raise RuntimeError(f"clause {cl!r} is mapped to no property (SERVES)")
            if pid not in SERVES[cl]:
                continue
        out.append(dict(r, name=f'{pid}/rounding-placement/' + r['name']))
    return out


def finish(pid, res):
    out = []
    for r in clib.dedupe(res):
        cl = r['name'].split('/', 1)[1] if '/' in r['name'] else r['name']
        if r['kind'] == 'property' and r['verdict'] != 'unsupported':
            if cl not in SERVES:
                raise RuntimeError(f"clause {cl!r} is mapped to no property (SERVES)")
            if pid not in SERVES[cl]:
                continue
        out.append(dict(r, name=f'{pid}/rounding-placement/' + r['name']))
    return out


def run_create_solution_from(pid, cunit, qunit):
    """create_solution_from(stock of s in w, s, 'c cunit', w, 'T qunit'): concentration and total within the library's own
    1e-6 band although every internal rounding may err by half a unit of the 10th decimal (stocks of at least 1 uL)"""
    from contracts.c14_grammar import concentration_denotation
    res = []
    case = f"create_solution_from|{cunit}|{qunit}"
    pq, bq = spec.split_unit(qunit)

    def body(I):
        I.__dict__['round_mode'] = 'error'
        C, s, w, measure, ms, vs = two_component(I)
        mult, nb, db = concentration_denotation('1 ' + cunit, I.cfg.data['default_weight_volume_units'])
        S = spec.SubSpec(1, mw(s), dens(s), sa(s))
        cur = C.amt[s] * ms * spec.num(spec.factor(S, 'mol', nb)) / measure({s: C.amt[s], w: C.amt[w]}, db) / spec.num(mult)
        c, T = z3.Real('c'), z3.Real('T')
        I.assume(z3.And(c >= cur / 100, c <= cur / 2))
        Tb = T * spec.num(spec.SI[pq])
        curq = measure({s: C.amt[s], w: C.amt[w]}, bq)
        I.assume(z3.And(Tb >= curq / 100, Tb <= curq / 2, Tb >= z3.RealVal('1/100000000')))
        I.__dict__['_inputs'] = dict(model_inputs(C, s, w), c=c, T=T)
        out = vc.call(I, 'Container.create_solution_from', [C.obj, SubV(s), SegStr([NumHole(c), ' ', cunit]), SubV(w),
                                                             SegStr([NumHole(T), ' ', qunit]), NameV(z3.Const('nn', Name))])
        if out.kind != 'return':
            I.oblige('accept', False, 'property', note=f'{out.exc.cls} at line {out.exc.lineno} for a dilution the stock can serve')
            return out
        new = out.value[-1]
        amts = {}
        for t in (s, w):
            hit = [k_ for k_ in new.fields['contents'] if str(k_.term) == str(t)]
            amts[t] = real(new.fields['contents'][hit[0]]) if hit else z3.RealVal(0)
        got_c = amts[s] * ms * spec.num(spec.factor(S, 'mol', nb)) / measure(amts, db) / spec.num(mult)
        band = z3.RealVal('2/1000000')
        I.oblige('accuracy[conc]', absz(got_c - c) <= band * c, 'property',
                 note=f'the new solution has the requested concentration ({cunit}) within the 1e-6 band')
        I.oblige('accuracy[total]', absz(measure(amts, bq) - Tb) <= band * Tb, 'property',
                 note=f'the new solution has the requested total ({qunit}) within the 1e-6 band')
        return out
    for I, out in vc.explore(body, contracts=clib.contracts(), max_paths=80):
        if isinstance(out, vc.Outcome) and out.kind == 'unsupported':
            res.append(vc.unsupported_result('Container.create_solution_from/unsupported', case, out.note))
            continue
        res += vc.discharge(I, 'Container.create_solution_from/', case, 60000, inputs=I.__dict__.get('_inputs'))
    return finish(pid, res)
