"""Contract of Container._transfer (the core of C01, C02, C03, C04, C10 at container level).

Unbounded: source and destination contents are maps of arbitrary size (SymMap); the per-substance move loop is cut
by a quantified invariant; the accumulation loops / sums are summarised as canonical weighted sums (T2).
Refutation: the same AST is re-run with explicit key sets (1..2 substances, every membership pattern); a model found
there is concrete and is replayed on the real code.
"""
import json

import z3

from pyvc import vc, spec, solve
from pyvc.values import *   # noqa: F401,F403
from pyvc import symcoll
from pyvc.symcoll import SymMap, WS
from contracts import clib
from contracts.clib import X, BASE_WS

FN = 'Container._transfer'
TIMEOUT = 30000
QCASES = ('neg', 'empty0', 'range', 'over')
PROPS_OF = {   # clause -> properties it serves
    'conserve': ['C01'], 'uniform': ['C02'], 'size': ['C02'], 'nonneg': ['C03'], 'cap': ['C03'],
    'refuse': ['C03'], 'accept': ['C03'], 'safe': ['C03'], 'vol': ['C10'], 'frame': ['C04'], 'fresh': ['C04'],
    'identity': ['C01', 'C04'], 'nothing-moved': ['C02'],
}
MOVE_LOOP = ("for (substance, amount) in source_container.contents.items() -> "
             "source_container.contents[substance],to.contents[substance],to_transfer")


def units(tier):
    us = [p + 'L' for p in spec.PREFIXES]
    if tier == 'thorough':
        us += [p + 'g' for p in spec.PREFIXES] + [p + 'mol' for p in spec.PREFIXES]
    else:
        us += ['g', 'mg', 'kg', 'mol', 'mmol', 'umol']
    return us + ['U']


def cases(tier):
    out = []
    for alias in (False, True):
        for unit in units(tier):
            if alias and unit not in ('mL', 'g', 'mol', 'U'):
                continue
            for qc in QCASES:
                for cap in ('inf', 'finite'):
                    if alias and cap == 'inf':
                        continue
                    out.append((alias, unit, qc, cap))
    return out


def case_name(alias, unit, qc, cap):
    return f"{'alias' if alias else 'distinct'}|{unit}|{qc}|cap={cap}"


def move_roles(I, st):
    """Is `st` the per-substance move loop of Container._transfer?  `for (s, a) in <SRC>.contents.items():` whose body stores
    into <SRC>.contents[s] and into <DST>.contents[s] a value built from `a * <RATIO>`.  Returns the three names (read off
    the AST, so renaming the locals does not lose the invariant) or None."""
    import ast
    if not (I.call_stack and I.call_stack[-1] == FN and isinstance(st, ast.For)):
        return None
    it = st.iter
    if not (isinstance(it, ast.Call) and isinstance(it.func, ast.Attribute) and it.func.attr == 'items'
            and isinstance(it.func.value, ast.Attribute) and it.func.value.attr == 'contents'
            and isinstance(it.func.value.value, ast.Name)):
        return None
    if not (isinstance(st.target, ast.Tuple) and len(st.target.elts) == 2 and all(isinstance(e, ast.Name) for e in st.target.elts)):
        return None
    src = it.func.value.value.id
    amount = st.target.elts[1].id
    stored = set()
    ratio = None
    for n in ast.walk(st):
        if isinstance(n, ast.Assign):
            for t in n.targets:
                if isinstance(t, ast.Subscript) and isinstance(t.value, ast.Attribute) and t.value.attr == 'contents' \
                        and isinstance(t.value.value, ast.Name):
                    stored.add(t.value.value.id)
        if isinstance(n, ast.BinOp) and isinstance(n.op, ast.Mult):
            names = [x.id for x in (n.left, n.right) if isinstance(x, ast.Name)]
            if amount in names and len(names) == 2:
                ratio = [x for x in names if x != amount][0]
    others = stored - {src}
    if src not in stored or len(others) != 1 or ratio is None:
        return None
    return {'src': src, 'dst': others.pop(), 'ratio': ratio}


def inv_move(ctx, k, roles=None):
    env = ctx.env
    roles = roles or {'src': 'source_container', 'dst': 'to', 'ratio': 'ratio'}
    src, to = env.lookup(roles['src']), env.lookup(roles['dst'])
    r = real(env.lookup(roles['ratio']))
    S0a, S0m = ctx.amt0, ctx.mem0
    T0a, T0m = ctx.pre_field(to, 'contents')
    sa_, sm_ = src.fields['contents'].amt, src.fields['contents'].mem
    ta_, tm_ = to.fields['contents'].amt, to.fields['contents'].mem
    done = z3.And(S0m[X], ctx.idx(X) < k)
    return z3.ForAll([X], z3.And(
        sm_[X] == S0m[X],
        z3.Implies(done, z3.And(sa_[X] == S0a[X] - S0a[X] * r, ta_[X] == T0a[X] + S0a[X] * r, tm_[X])),
        z3.Implies(z3.Not(done), z3.And(sa_[X] == S0a[X], ta_[X] == T0a[X], tm_[X] == T0m[X]))))


def post_move(ctx, roles=None):
    """After the move loop: the Sigma-lin consequences for the two result maps (antecedents obliged as aux)."""
    I, env = ctx.I, ctx.env
    roles = roles or {'src': 'source_container', 'dst': 'to', 'ratio': 'ratio'}
    src, to = env.lookup(roles['src']), env.lookup(roles['dst'])
    r = real(env.lookup(roles['ratio']))
    S0a = ctx.amt0
    T0a, _ = ctx.pre_field(to, 'contents')
    sa_, ta_ = src.fields['contents'].amt, to.fields['contents'].amt
    I.oblige('sigma-lin.antecedent', z3.ForAll([X], z3.And(sa_[X] == (1 - r) * S0a[X], ta_[X] == T0a[X] + r * S0a[X])),
             'aux')
    old = I.cur_tag
    I.cur_tag = 'sigma'
    for k in WS:
        I.assume(WS[k](sa_) == (1 - r) * WS[k](S0a))
        I.assume(WS[k](ta_) == WS[k](T0a) + r * WS[k](S0a))
    I.cur_tag = old


def setup_case(I, alias, unit, qc, cap, finite=None):
    """Symbolic inputs and case assumptions.  finite = (keys, presS, presT) for the finite instantiation."""
    clib.assume_world(I)
    if finite is None:
        T = clib.mk_container(I, 'T', cap)
        S = T if alias else clib.mk_container(I, 'S', 'inf')
    else:
        keys, pS, pT = finite
        if len(keys) > 1:
            I.assume(z3.Distinct(*keys))
        T = clib.mk_container(I, 'T', cap, keys, pT)
        S = T if alias else clib.mk_container(I, 'S', 'inf', keys, pS)
    q = z3.Real('q')
    p, b = spec.split_unit(unit)
    qbase = q * spec.num(spec.SI[p])
    k = BASE_WS[b]
    if finite is None:
        mS = WS[k](S.amt)
        volS, volT = WS['vol'](S.amt), WS['vol'](T.amt)
    else:
        mS = clib.finite_measure(I, k, keys, S.amt)
        volS, volT = clib.finite_measure(I, 'vol', keys, S.amt), clib.finite_measure(I, 'vol', keys, T.amt)
        I.assume(mS >= 0)
    if qc == 'neg':
        I.assume(q < 0)
    elif qc == 'empty0':
        I.assume(z3.And(mS == 0, q == 0))
    elif qc == 'range':
        I.assume(z3.And(mS > 0, qbase >= 0, qbase <= mS))
    else:
        I.assume(z3.And(q >= 0, qbase > mS))
    I.__dict__.setdefault('loop_invariant_matchers', []).append((move_roles, inv_move, post_move if finite is None else None))
    return T, S, q, qbase, mS, volS, volT


def emit(I, out, alias, unit, qc, cap, T, S, q, qbase, mS, volS, volT, finite=None):
    """Obligations at the outcome `out` of one path."""
    vs = spec.num(clib.vs_of(I))
    p, b = spec.split_unit(unit)
    k = BASE_WS[b]
    capL = None if cap == 'inf' else T.cap * vs          # capacity in litres
    r = qbase / mS
    fits = True if capL is None else (volT + r * volS <= capL)

    def amt_of(c, s):
        m = c.fields['contents']
        if isinstance(m, SymMap):
            return m.amt[s], m.mem[s]
        for kk, v in m.items():
            if kk.term.eq(s):
                return v, True
        return z3.RealVal(0), False

    def forall(f):
        if finite is None:
            return z3.ForAll([X], f(X))
        return z3.And(*[f(s) for s in finite[0]]) if finite[0] else True

    def meas(c, kk):
        m = c.fields['contents']
        if isinstance(m, SymMap):
            return WS[kk](m.amt)
        return clib.finite_measure(I, kk, finite[0], {s: amt_of(c, s)[0] for s in finite[0]})

    if out.kind == 'return':
        src, to = out.value
        if qc in ('neg', 'over'):
            I.oblige('raises[refuse]', False, 'property',
                     note={'neg': 'a negative quantity must be refused',
                           'over': 'taking more than the source holds (in the unit of the request) must be refused'}[qc])
        # C04 frame: no write to a non-fresh object, results are new objects
        I.oblige('frame', len(I.writes) == 0, 'property',
                 note=f"writes to argument objects: {[(str(w[0]), w[1], w[2]) for w in I.writes][:4]}")
        I.oblige('fresh', bool(src.fresh and to.fresh and src is not to and src is not S.obj and to is not T.obj),
                 'property', note='results must be new objects')
        I.oblige('identity', z3.And(boolz(I.equals(src.fields['name'], S.name)), boolz(I.equals(to.fields['name'], T.name)),
                                    boolz(I.equals(to.fields['max_volume'], T.cap)),
                                    boolz(I.equals(src.fields['max_volume'], S.cap))), 'property',
                 note='names and capacities are carried over')
        # C03 nonneg / cap, C10 vol — demanded of every returned container
        I.oblige('ensures[nonneg]', z3.And(forall(lambda s: z3.And(amt_of(src, s)[0] >= 0, amt_of(to, s)[0] >= 0)),
                                           real(src.fields['volume']) >= 0, real(to.fields['volume']) >= 0), 'property')
        if capL is not None:
            I.oblige('ensures[cap]', real(to.fields['volume']) <= T.cap, 'property')
        I.oblige('ensures[vol]', z3.And(real(src.fields['volume']) * vs == meas(src, 'vol'),
                                        real(to.fields['volume']) * vs == meas(to, 'vol')), 'property')
        if qc == 'range' and not alias:
            hints = []
            I.oblige('ensures[conserve]', forall(
                lambda s: amt_of(src, s)[0] + amt_of(to, s)[0] == S.amt[s] + T.amt[s]), 'property')
            if finite is None:
                I.oblige('ensures[conserve-keys]', forall(
                    lambda s: z3.And(amt_of(src, s)[1] == S.mem[s], amt_of(to, s)[1] == z3.Or(T.mem[s], S.mem[s]))),
                    'property')
            I.oblige('ensures[uniform]', forall(
                lambda s: z3.And(amt_of(src, s)[0] == (1 - r) * S.amt[s],
                                 amt_of(to, s)[0] == T.amt[s] + r * S.amt[s])), 'property')
            I.oblige('ensures[size]', z3.And(mS - meas(src, k) == qbase, meas(to, k) - (
                WS[k](T.amt) if finite is None else clib.finite_measure(I, k, finite[0], T.amt)) == qbase),
                'property', extra=hints)
            I.oblige('raises[refuse-overflow]', fits, 'property',
                     note='a transfer that does not fit the destination must be refused')
        if qc == 'empty0' and not alias:
            I.oblige('ensures[nothing-moved]', forall(
                lambda s: z3.And(amt_of(src, s)[0] == S.amt[s], amt_of(to, s)[0] == T.amt[s])), 'property')
        if alias and qc in ('range', 'empty0'):
            # source and destination are one object: the only conserving answer is that nothing changes
            I.oblige('ensures[conserve/alias]', forall(
                lambda s: z3.And(amt_of(src, s)[0] == S.amt[s], amt_of(to, s)[0] == S.amt[s])), 'property',
                note='self-transfer must leave the contents unchanged (or be refused)')
    else:
        ex = out.exc
        I.oblige('frame', len(I.writes) == 0, 'property',
                 note=f"writes to argument objects before raising: {[(str(w[0]), w[1], w[2]) for w in I.writes][:4]}")
        if ex.cls == 'ValueError' and not ex.implicit:
            if qc == 'range':
                if alias:
                    I.oblige('raises[accept]', True, 'property')
                else:
                    I.oblige('raises[accept]', z3.Not(fits) if fits is not True else False, 'property',
                             note=f'ValueError at line {ex.lineno} for a request that fits')
            elif qc == 'empty0' and alias:
                I.oblige('raises[accept]', True, 'property')
            elif qc == 'empty0':
                I.oblige('raises[accept]', False, 'property',
                         note=f'ValueError at line {ex.lineno}: transferring nothing out of an empty source is feasible')
            else:
                I.oblige('raises[refuse]', True, 'property')
        else:
            I.oblige(f'safe[{ex.cls}]', False, 'property', note=f'{ex.cls} at line {ex.lineno}')


class TransferOp(clib.Op):
    FN = FN
    PROPS_OF = {'observers': ['C10'], 'conserve': ['C01'], 'uniform': ['C02'], 'size': ['C02'], 'nothing-moved': ['C02'],
                'nonneg': ['C03'], 'cap': ['C03'], 'refuse': ['C03'], 'accept': ['C03'], 'safe': ['C03'],
                'vol': ['C10'], 'frame': ['C04'], 'fresh': ['C04'], 'identity': ['C04']}

    def case_name(self, case):
        return case_name(*case)

    def setup(self, I, case, finite=None):
        return setup_case(I, *case, finite=finite)

    def invoke(self, I, st, case):
        T, S, q = st[0], st[1], st[2]
        clib.prequery(I, S.obj, T.obj)
        I.writes.clear()
        return vc.call(I, FN, [T.obj, S.obj, SegStr([NumHole(q), ' ', case[1]])])

    def emit(self, I, out, st, case, finite=None):
        emit(I, out, *case, *st, finite=finite)
        if out.kind == 'return' and isinstance(out.value, tuple) and len(out.value) == 2:
            nw = len(I.writes)
            clib.oblige_observers(I, 'source', out.value[0])
            clib.oblige_observers(I, 'destination', out.value[1])
            del I.writes[nw:]

    def finite_configs(self, case, nmax):
        alias, unit, qc, cap = case
        for n in range(1, nmax + 1):
            keys = [z3.Const(f's{i}', Sub) for i in range(n)]
            for rows in clib.presence_patterns(n, 1 if alias else 2):
                pS = rows[0]
                pT = rows[0] if alias else rows[1]
                if not any(pS) and qc == 'range':
                    continue
                yield (keys, pS, pT)

    def inputs(self, I, st, case, fin):
        T, S, q = st[0], st[1], st[2]
        keys = fin[0]
        inputs = {'q': q}
        inputs.update(clib.sub_inputs(keys))
        for s in keys:
            inputs[f'S_{s}'] = S.amt[s]
            inputs[f'T_{s}'] = T.amt[s]
        if case[3] != 'inf':
            inputs['capT'] = T.cap
        return inputs

    def prefs(self, I, st, case, fin):
        T, S, q = st[0], st[1], st[2]
        keys = fin[0]
        return clib.nice_model_prefs(keys, [S.amt[s] for s in keys] + [T.amt[s] for s in keys],
                                     [q] + ([T.cap] if case[3] != 'inf' else []))

    def replay(self, mv, st, case, fin, clause):
        keys, pS, pT = fin
        return make_replay(mv, keys, pS, pT, case[0], case[1], case[3], clause)


OP = TransferOp()


def run_case(pid, alias, unit, qc, cap, finite_max=2):
    return clib.run_op(OP, pid, (alias, unit, qc, cap), finite_max)


REPLAY_CODE = clib.REPLAY_HEAD + clib.MK_CONTAINERS + r'''
def run():
    subs = {k: mk_sub(d, 'sub_' + k) for k, d in J['subs'].items()}
    S = mk_container(J['S'], subs, 'S')
    T = S if J['alias'] else mk_container(J['T'], subs, 'T')
    q = float(F(J['q']))
    text = '%r %s' % (q, J['unit'])
    from contracts.container_oracle import judge_transfer
    return judge_transfer(S, T, text, J)
'''


def make_replay(mv, keys, pS, pT, alias, unit, cap, clause):
    try:
        subs = clib.model_subs(mv, keys)
        Sd = {'contents': {str(s): str(mv[f'S_{s}']) for s, p in zip(keys, pS) if p}, 'cap': None}
        Td = {'contents': {str(s): str(mv[f'T_{s}']) for s, p in zip(keys, pT) if p},
              'cap': None if cap == 'inf' else str(mv['capT'])}
        inputs = {'subs': subs, 'S': Sd, 'T': Td, 'alias': alias, 'unit': unit, 'q': str(mv['q']), 'clause': clause}
    except (KeyError, TypeError, ValueError):
        return []
    return [{'inputs': inputs, 'code': REPLAY_CODE.replace('{inputs!r}', repr(json.dumps(inputs)))}]
