"""Plate-level observers under contract (C10: "per-substance volumes and moles of a plate, the set of substances ... equal
the value computed from the contents by definition, rounded to the configured precision").

The real PlateSlicer.get_volumes / get_moles / get_substances (and the Plate methods that delegate to them) are executed
on a plate of concrete shape (2 x 3) whose wells are symbolic containers with contents maps of arbitrary size; the result
arrays are compared cell by cell with the definition over that well's contents.  Observers write nothing (frame) and hand
out new objects.  Bounded in the plate shape and selector geometry; unbounded in contents, substances and units."""
from fractions import Fraction

import z3

from pyvc import vc, spec
from pyvc import builtins_ as B
from pyvc.values import *   # noqa: F401,F403
from pyvc.npmodel import NpArr
from pyvc.symcoll import SymSubSet
from contracts import clib, plate_ops as PO

FUNCTIONS = ['PlateSlicer.get_volumes', 'PlateSlicer.get_moles', 'PlateSlicer.get_substances', 'Plate.get_volumes',
             'Plate.get_moles', 'Plate.get_substances', 'Plate.get_volume', 'Container.get_substances']
GEOMS = ('plate', 'all', 'row1', 'rect', 'col2', 'list2')
VUNITS = (None, 'uL', 'mL', 'L', 'nL')
MUNITS = ('mol', 'umol', 'mmol')


def tasks(tier):
    t = []
    for g in GEOMS:
        for u in VUNITS:
            t.append(('volumes', g, u, 'total'))
        for u in ('uL', 'mL'):
            for k in (1, 2, 3):
                t.append(('volumes', g, u, k))
        for u in MUNITS:
            for k in (1, 3):
                t.append(('moles', g, u, k))
        if g in ('plate', 'list2'):
            # a list of two substances of fixed kinds (the kinds only select the conversion branch)
            t.append(('volumes', g, 'uL', 'pair12'))
            t.append(('volumes', g, 'mL', 'pair23'))
            t.append(('moles', g, 'umol', 'pair12'))
            t.append(('moles', g, 'mmol', 'pair13'))
        t.append(('substances', g))
    # Plate.get_volume: the total of the plate, in every unit spelling (the default unit included)
    for u in ('DEFAULT', 'uL', 'mL', 'L', 'nL'):
        t.append(('total_volume', 'plate', u))
    # Container.get_substances: the set of the container's own substances, a new set
    t.append(('container_substances', 'plate'))
    # observers with a history: the plate has been asked before an operation; the plate the operation returns answers
    # for its own wells (a memo carried over by the copy must not answer)
    for op in ('fill_to', 'remove', 'transfer'):
        t.append(('substances_history', 'plate', op))
    return t


def prec_of(I, unit):
    p = I.cfg.data['precisions'] if hasattr(I.cfg, 'data') else {}
    return p[unit] if unit in p else p['default']


def cells(I, P, g):
    item = PO.GEOMS[g]
    cs = PO.cells_of(P, item)
    return cs


def arr_cells(v):
    """flatten a result array (NpArr 1-D or 2-D) to a list in C order"""
    if not isinstance(v, NpArr):
        return None
    if v.ndim == 2:
        return [x for r in v.data for x in r]
    return list(v.data)


def run(pid, what, g, *args):
    case = '|'.join(str(a) for a in (what, g) + args)
    res = []

    def body(I):
        clib.assume_world(I)
        P = PO.mk_plate(I, 'P1')
        target = PO.slicer(I, P, PO.GEOMS[g])
        on_plate = target is P
        cs = cells(I, P, g)
        wells = [P.__dict__['cells0'][r][c] for r, c in cs]
        ms, vs = spec.num(clib.ms_of(I)), spec.num(clib.vs_of(I))
        for p0 in range(0, 11):
            I.assume(B.rnd(z3.IntVal(p0), z3.RealVal(0)) == 0)        # rounding zero gives zero (fact about round())
        I.writes.clear()
        if what == 'volumes':
            unit, sel = args
            dunit = unit or I.cfg.data['volume_display_unit']
            p_, b_ = spec.split_unit(dunit)
            prec = prec_of(I, dunit)
            subs = None
            if sel != 'total':
                s0 = z3.Const('s0', Sub)
                I.assume(vc.sub_wf(s0))
                subs = [s0]
                if isinstance(sel, str) and sel.startswith('pair'):
                    s1 = z3.Const('s1', Sub)
                    I.assume(vc.sub_wf(s1))
                    I.assume(s0 != s1)
                    I.assume(kind(s0) == int(sel[4]))
                    I.assume(kind(s1) == int(sel[5]))
                    subs.append(s1)
                else:
                    I.assume(kind(s0) == sel)
            arg = None if subs is None else (SubV(subs[0]) if len(subs) == 1 else [SubV(s) for s in subs])
            out = vc.call(I, 'Plate.get_volumes' if on_plate else 'PlateSlicer.get_volumes', [target, arg, unit])
            I.oblige('frame', len(I.writes) == 0, 'property', note=f'writes: {[(PO.describe(w[0]), w[1]) for w in I.writes[:3]]}')
            if out.kind != 'return':
                I.oblige('safe', False, 'property', note=f'{out.exc.cls} at line {out.exc.lineno}')
                return out
            got = arr_cells(out.value)
            if got is None or len(got) != len(wells):
                I.oblige('def[shape]', False, 'property', note=f'result {out.value!r} for {len(wells)} selected wells')
                return out
            for (r, c), w, x in zip(cs, wells, got):
                if subs is None:
                    want = real(w.fields['volume']) * vs / spec.num(spec.SI[p_])
                else:
                    want = z3.RealVal(0)
                    amt = w.fields['contents']
                    for s in subs:
                        S = spec.SubSpec(kind(s), mw(s), dens(s), sa(s))
                        a = z3.If(amt.mem[s], amt.amt[s], 0)
                        f_liq = ms * spec.num(spec.factor(spec.SubSpec(1, mw(s), dens(s), sa(s)), 'mol', 'L'))
                        f_enz = spec.num(spec.factor(spec.SubSpec(3, mw(s), dens(s), sa(s)), 'U', 'L'))
                        want = want + a * z3.If(kind(s) == 3, f_enz, f_liq) / spec.num(spec.SI[p_])
                I.oblige(f'def[volume {r},{c}]', real(x) == B.rnd(z3.IntVal(prec), want), 'property',
                         note=f'cell of well {r},{c} is the rounded definition')
            return out
        if what == 'moles':
            unit, sel = args
            p_, b_ = spec.split_unit(unit)
            prec = prec_of(I, unit)
            s0 = z3.Const('s0', Sub)
            I.assume(vc.sub_wf(s0))
            subs = [s0]
            if isinstance(sel, str) and sel.startswith('pair'):
                s1 = z3.Const('s1', Sub)
                I.assume(vc.sub_wf(s1))
                I.assume(s0 != s1)
                I.assume(kind(s0) == int(sel[4]))
                I.assume(kind(s1) == int(sel[5]))
                subs.append(s1)
            else:
                I.assume(kind(s0) == sel)
            arg = SubV(subs[0]) if len(subs) == 1 else [SubV(s) for s in subs]
            out = vc.call(I, 'Plate.get_moles' if on_plate else 'PlateSlicer.get_moles', [target, arg, unit])
            I.oblige('frame', len(I.writes) == 0, 'property', note=f'writes: {[(PO.describe(w[0]), w[1]) for w in I.writes[:3]]}')
            if out.kind != 'return':
                I.oblige('safe', False, 'property', note=f'{out.exc.cls} at line {out.exc.lineno}')
                return out
            got = arr_cells(out.value)
            if got is None or len(got) != len(wells):
                I.oblige('def[shape]', False, 'property', note=f'result {out.value!r} for {len(wells)} selected wells')
                return out
            for (r, c), w, x in zip(cs, wells, got):
                amt = w.fields['contents']
                want = z3.RealVal(0)
                for s in subs:
                    a = z3.If(amt.mem[s], amt.amt[s], 0)
                    want = want + z3.If(kind(s) == 3, 0, a * ms / spec.num(spec.SI[p_]))
                I.oblige(f'def[moles {r},{c}]', real(x) == B.rnd(z3.IntVal(prec), want), 'property',
                         note=f'cell of well {r},{c} is the rounded definition')
            return out
        if what == 'total_volume':
            (unit,) = args
            dunit = 'uL' if unit == 'DEFAULT' else unit          # documented default of Plate.get_volume
            p_, b_ = spec.split_unit(dunit)
            prec = prec_of(I, dunit)
            out = vc.call(I, 'Plate.get_volume', [P] if unit == 'DEFAULT' else [P, unit])
            I.oblige('frame', len(I.writes) == 0, 'property', note=f'writes: {[(PO.describe(w[0]), w[1]) for w in I.writes[:3]]}')
            if out.kind != 'return':
                I.oblige('safe', False, 'property', note=f'{out.exc.cls} at line {out.exc.lineno}')
                return out
            if not is_num(out.value):
                I.oblige('def[total]', False, 'property', note=f'result {out.value!r}')
                return out
            total = z3.RealVal(0)
            for w in wells:
                total = total + real(w.fields['volume']) * vs / spec.num(spec.SI[p_])
            half = Q(Fraction(len(wells), 2) / Fraction(10) ** prec)
            got = real(out.value)
            # by definition: the sum of the wells' volumes, to the displayed precision of each well
            I.oblige('def[total volume]', z3.And(got - total <= half, total - got <= half), 'property',
                     note='total volume of the plate = sum over its wells of the volume of the well, each to the displayed precision')
            return out
        if what == 'substances_history':
            (op,) = args
            vc.call(I, 'Plate.get_substances', [P])            # the caller has asked before
            vc.call(I, 'Plate.get_volumes', [P])
            I.contracts.update(PO.contracts())                   # container operations as events with fresh abstract results
            I.__dict__['event_failures'] = False
            w = SubV(z3.Const('water', Sub))
            q = SegStr([NumHole(z3.Real('q')), ' ', 'uL'])
            if op == 'fill_to':
                out0 = vc.call(I, 'Plate.fill_to', [P, w, q])
                R = out0.value if out0.kind == 'return' else None
            elif op == 'remove':
                out0 = vc.call(I, 'Plate.remove', [P, w])
                R = out0.value if out0.kind == 'return' else None
            else:
                src = clib.mk_container(I, 'src', 'inf', wf=False).obj
                out0 = vc.call(I, 'Plate.transfer', [src, P, q])
                R = out0.value[1] if out0.kind == 'return' else None
            if R is None:
                return out0                                      # refusals are the business of C03/C07
            out = vc.call(I, 'Plate.get_substances', [R])
            if out.kind != 'return':
                I.oblige('observers[get_substances/plate]', False, 'property', note=f'get_substances of the result raised {out.exc.cls}')
                return out
            v = out.value
            x = z3.Const('x!obs', Sub)
            rcells = [c for row in R.fields['wells'].cells for c in row]
            if isinstance(v, SymSubSet):
                I.oblige('observers[get_substances/plate]', v.mem[x] == z3.Or(*[c.fields['contents'].mem[x] for c in rcells]), 'property',
                         note=f'get_substances() of the plate returned by {op} does not list the substances of its own wells')
            else:
                I.oblige('observers[get_substances/plate]', False, 'property', note=f'result {v!r}')
            return out
        if what == 'container_substances':
            w0 = wells[0]
            out = vc.call(I, 'Container.get_substances', [w0])
            I.oblige('frame', len(I.writes) == 0, 'property', note=f'writes: {[(PO.describe(w[0]), w[1]) for w in I.writes[:3]]}')
            if out.kind != 'return':
                I.oblige('safe', False, 'property', note=f'{out.exc.cls} at line {out.exc.lineno}')
                return out
            v = out.value
            x = z3.Const('x!obs', Sub)
            if isinstance(v, SymSubSet):
                I.oblige('def[substances]', v.mem[x] == w0.fields['contents'].mem[x], 'property',
                         note='a substance is listed iff the container holds it')
                I.oblige('fresh[result]', v is not w0.fields['contents'], 'property')
            else:
                I.oblige('def[substances]', False, 'property', note=f'result {v!r}')
            return out
        # substances
        out = vc.call(I, 'Plate.get_substances' if on_plate else 'PlateSlicer.get_substances', [target])
        I.oblige('frame', len(I.writes) == 0, 'property', note=f'writes: {[(PO.describe(w[0]), w[1]) for w in I.writes[:3]]}')
        if out.kind != 'return':
            I.oblige('safe', False, 'property', note=f'{out.exc.cls} at line {out.exc.lineno}')
            return out
        v = out.value
        x = z3.Const('x!obs', Sub)
        if isinstance(v, SymSubSet):
            want = z3.Or(*[w.fields['contents'].mem[x] for w in wells])
            I.oblige('def[substances]', v.mem[x] == want, 'property', note='a substance is listed iff some selected well holds it')
            # the set handed out is a new object: not the key view / cached set of any well
            I.oblige('fresh[result]', all(v is not w.fields['contents'] for w in wells), 'property')
        else:
            I.oblige('def[substances]', False, 'property', note=f'result {v!r}')
        return out

    for I, out in vc.explore(body, contracts=clib.contracts(), max_paths=200):
        if isinstance(out, vc.Outcome) and out.kind == 'unsupported':
            res.append(vc.unsupported_result(f'plate.{what}/unsupported', case, out.note))
            continue
        res += vc.discharge(I, {'total_volume': 'Plate.get_volume/', 'container_substances': 'Container.get_substances/', 'substances_history': 'plate.history/'}.get(what, f'plate.get_{what}/'), case, 15000, ladder=clib.ladder)
    return [dict(r, name=f'{pid}/' + r['name']) for r in clib.dedupe(res)]
