"""What each check covers and what it leaves unchecked, per property — written into the evidence file on every run
(`coverage.explanation`, `assumptions`).  The global trusted base (A1..A6, T1, T6, the VC generator itself) is added by
the harness to every record."""

ROUNDING = ("A2 is relaxed for get_concentration / parse_concentration / fill_to / dilute / _transfer in the rounding-placement "
            "obligations (every internal rounding returns some number within half a unit of the 10th decimal; accuracy bounds "
            "under a stated scale precondition: containers of at least 1 nL .. 1 uL, physical constants in 10..1000 g/mol and "
            "0.5..3 g/mL); everywhere else A2 stands")
SIGMA = ("Sigma-axioms: the weighted sums over a contents map (volume, mass, moles, activity) are uninterpreted functions "
         "WS_k(map) with the axioms WS_lin, WS_ext, WS_pos, WS_mono, WS_point; these are assumed in the SMT queries and "
         "proved separately for finitely supported maps in lemmas/Sigma.lean (Lean 4 + Mathlib)")
CONVERT = ("modular: callers see Unit.convert_from through its contract (the specification function of C06), which is "
           "proved for every cell of the conversion table by the C06 check, not re-proved here")
FINITE = ("refutation only: counterexamples are searched on explicit key sets of 1..2 (solutions: 1..4) substances; the "
          "proofs themselves are over maps of arbitrary size")
PLATE = ("plate shapes are concrete (2x3; 3x3 for same-plate cases) and the selector geometries are the fixed list of "
         "contracts/plate_oracle.GEOMS; the proof ranges over all well contents, quantities and units but not over all "
         "shapes (arbitrary shapes and selector forms are the subject of C13)")
PLATE_MOD = ("modular: inside plate operations every Container._transfer / remove / fill_to call is an event constrained "
             "only by that function's own contract (proved by the container-level tasks of C01/C02/C03/C10/C11/C17)")
BAKE = ("bake: induction over the step loop, one case per step kind (24 kinds) from an arbitrary symbolic recipe state; "
        "the direct operations are events (callee contracts); plates inside the recipe are 2x2 with one slice form per kind")
TRACK = ("trackers: executed on abstract step records satisfying the bookkeeping invariant BOOK that the bake "
         "obligations establish; the concrete cases have 1..3 step records; get_substance_used is ALSO proved for a step "
         "list of arbitrary length by induction over its step loop (obligations inv[step-loop@...].init/.step for one "
         "arbitrary record per step shape, every variable the body assigns havocked; the code after the loop against "
         "TOTAL = sum of the specified per-step contributions, which telescopes to the net gain along the BOOK chain: "
         "paper lemma); unbounded in snapshot contents")
SOLVE = ("numpy.linalg.solve is axiomatised: if det(A) != 0 it returns the x with A.x = b, otherwise it raises "
         "LinAlgError; the determinant is expanded symbolically for the concrete matrix sizes (<= 4x4)")
MIX = ("solutions: mixtures are explicit key sets (solute(s), solvent, optionally one other substance / one enzyme): "
       "each configuration is a complete proof over all amounts and physical constants; bounded in the number of substances")
TOL = ("the library's own 'equal within a relative 1e-6' band on concentrations is part of the contract "
       "(clauses carry a relative tolerance of 2e-6 for dilute and 1e-6 elsewhere)")
NUMPY = "T3 numpy arrays of objects: indexing, views, flatten, vectorize, frompyfunc as modelled in pyvc/npmodel.py"
TEXT = ("instruction text is a structured term (literal pieces and numeric holes); display rounding is the uninterpreted "
        "rnd(precision, x): the checks compare the argument of rnd with the true amount, not the printed digits")

PER_PROPERTY = {
    'C01': {
        'explanation': "container level: Container._transfer against the conservation contract on maps of arbitrary size "
                       "(loop invariants, weighted sums); plate level: dataflow obligations (linear, pairing) lifting "
                       "per-event conservation to Plate.transfer; aliasing cases (same container / same plate) included",
        'assumptions': [ROUNDING, SIGMA, CONVERT, FINITE, PLATE, PLATE_MOD, NUMPY],
    },
    'C02': {
        'explanation': "Container._transfer: the amount moved, measured in the unit of the request, equals the request and "
                       "every substance moves in the same ratio; plate level: one event per addressed pair (count)",
        'assumptions': [ROUNDING, SIGMA, CONVERT, FINITE, PLATE, PLATE_MOD, NUMPY],
    },
    'C03': {
        'explanation': "every state-producing container operation: non-negative amounts, volume within capacity, refusal of "
                       "each infeasible request and acceptance of each feasible one (raises[refuse]/raises[accept] per "
                       "feasibility boundary); IEEE-only boundary behaviour by a bounded native run (labelled bounded)",
        'assumptions': [SIGMA, CONVERT, FINITE, SOLVE, MIX, TOL,
                        "requests exactly on a feasibility boundary are decided in real arithmetic (A1/A2); their IEEE "
                        "behaviour is only covered by bounded[float-boundaries]"],
    },
    'C04': {
        'explanation': "frame obligations on every executed contract (no write to anything reachable from an argument, on "
                       "returning and on raising paths; results are fresh objects), recipe methods and bake steps "
                       "included; histories: slices already queried by the caller, results reused as inputs at plate "
                       "level; rendering/observer functions by a syntactic frame scan (weaker, labelled syntactic)",
        'assumptions': [PLATE, PLATE_MOD, BAKE, NUMPY, FINITE,
                        "A6 deepcopy/copy produce structurally equal objects sharing nothing / only the first level",
                        "syntactic part: over-approximating scan (no attribute/subscript store, no mutator call on "
                        "non-locals) for functions the interpreter does not execute"],
    },
    'C05': {
        'explanation': "Container.create_solution for each combination of given values (c+q, c+t, q+t), unit pair, quantity "
                       "unit and solvent form: only-named, positive, each concentration / quantity / total met, "
                       "refusal exactly when no positive mixture exists, aliquot of a solvent container",
        'assumptions': [SOLVE, MIX, TOL, CONVERT, FINITE,
                        "modular: Container._transfer (aliquot) and Container.__init__ are used through the contracts "
                        "proved for C01/C02/C03"],
    },
    'C07': {
        'explanation': "dataflow obligations of the real Slicer.apply/set/get, _transfer_slice, PlateSlicer._transfer / remove "
                       "/ fill_to on plates with abstract wells: dispatch, pairing, linear, locality, per-well, same-args; "
                       "recipe half: the resolve/store obligations of the bake step kinds that act on plates",
        'assumptions': [PLATE, PLATE_MOD, BAKE, NUMPY],
    },
    'C08': {
        'explanation': "simulation invariant of Recipe.bake: per step kind, the operands handed to the direct operation are "
                       "the current results, the operation and remaining operands are the step's own, outcomes are stored "
                       "under the operand names; no effect before bake; refused step-adding calls add nothing",
        'assumptions': [BAKE, NUMPY, "equality of results with the eager fold follows from determinism of the direct "
                                     "operations (pure functions of their arguments: C04) by induction over the steps (paper lemma, DESIGN Appendix D)"],
    },
    'C09': {
        'explanation': "bookkeeping obligations of bake (substances-used, trash, snapshots) + Recipe.get_substance_used "
                       "against its specification (net gain over the stage, per destination filter) + stage additivity lemma",
        'assumptions': [BAKE, TRACK, SIGMA, CONVERT],
    },
    'C10': {
        'explanation': "representation invariant volume = sum of per-substance volumes after every container operation; "
                       "get_volume / get_concentration against the abstraction; plate observers cell by cell; observers with a "
                       "history (has_liquid, get_substances asked before an operation: every result answers for its own "
                       "contents); cached substance sets not corrupted (syntactic)",
        'assumptions': [ROUNDING, SIGMA, CONVERT, FINITE, MIX, SOLVE, PLATE,
                        "stores into private attributes (`_x`, memo fields) are not counted as changes of observable state; "
                        "a store into class-level mutable state makes the case UNDECIDED (state carried from call to call is "
                        "not modelled)"],
    },
    'C11': {
        'explanation': "fill_to: total quantity in the requested unit equals the target, only the solvent grows; dilute: "
                       "target concentration met by adding solvent only, refused when above the current concentration",
        'assumptions': [ROUNDING, SIGMA, CONVERT, FINITE, MIX, TOL],
    },
    'C12': {
        'explanation': "Container.create_solution_from: the new solution has the requested concentration and total, material "
                       "comes only from the stock and the solvent, the stock is depleted by exactly what was taken",
        'assumptions': [SOLVE, MIX, TOL, CONVERT, FINITE,
                        "modular: the withdrawal from the stock and the construction of the result use the contracts of "
                        "Container._transfer / __init__ (mod_transfer / mod_init), proved under C01/C02/C03"],
    },
    'C17': {
        'explanation': "Container.remove removes exactly the named substance (or kind) and nothing else, volume updated; "
                       "plate level: per-well application; recipe level: trash records what was discarded",
        'assumptions': [SIGMA, CONVERT, FINITE, PLATE, PLATE_MOD, BAKE, TRACK],
    },
    'C15': {
        'explanation': "bake snapshots/objects-used + get_container_flows (in/out per container) and get_amount_remaining "
                       "against their specifications over abstract step records; flows-balance lemma",
        'assumptions': [BAKE, TRACK, SIGMA, CONVERT, NUMPY],
    },
    'C18': {
        'assumptions': ["Config.__init__ (pyplate/__init__.py) is executed by the engine on the yaml data of each setting; the "
                        "extraction drops its prologue (search for pyplate.yaml along PYPLATE_CONFIG / home / package "
                        "directory and yaml.safe_load), which is trusted",
                        "configurations: the obligations are re-proved under each setting of a finite sweep (quick: every SI "
                        "prefix of moles_storage_unit with the shipped volume unit and vice versa; thorough: the full "
                        "prefix x prefix grid), not for an arbitrary unit string", SIGMA, CONVERT, MIX, SOLVE, TRACK],
    },
    'C19': {
        'assumptions': [TEXT, CONVERT, BAKE,
                        "out of reach: literal characters of the text, collapse()'s well-range wording, HTML/pandas output"],
    },
    'C16': {'assumptions': [NUMPY]},
    'C06': {
        'explanation': "Unit.convert_from / convert / convert_to_storage / convert_from_storage against the specification "
                       "function factor(kind, mw, dens, sa, from, to) * SI prefixes: one obligation per substance kind x "
                       "ordered unit pair x prefix pair with symbolic amount and physical constants; linearity, "
                       "composition and round-trip lemmas over the specification; functools.cache transparency",
        'assumptions': ["T7 functools.cache: the same object is handed out again within a run (arguments keyed by value for plain "
                        "values and texts, by identity for objects); equal-but-distinct objects sharing an entry is "
                        "checked separately by the cache-transparent obligation", "default densities: symbolic positive configuration values"],
    },
    'C13': {},
    'C14': {
        'assumptions': [ROUNDING, "strings: obligations are split per grammar shape / per path; z3 seq theory first, cvc5 --strings-exp "
                        "on unknowns", "float(text) is the uninterpreted floatval(text) constrained by A3 on numerals "
                                       "of the grammar"],
    },
}


def for_property(pid):
    d = PER_PROPERTY.get(pid, {})
    return d.get('explanation', ''), list(d.get('assumptions', []))
