"""Replay-side oracles for dilute / create_solution_from / create_solution (property clauses of C11, C12, C05 on the
real objects).  Runs under the repository's interpreter."""
import math
from fractions import Fraction as F

from pyvc import spec
from contracts.c14_grammar import concentration_denotation, quantity_denotation
from contracts.container_oracle import measure, base_amount, subspec, close, fingerprint, check_container, vs, ms, REL


def conc(c, solute, nb, db):
    fb, amt = base_amount(solute, c.contents.get(solute, 0))
    num = amt * float(spec.factor(subspec(solute), fb, nb))
    den = measure(c, db)
    return num / den if den else float('inf')


def judge_dilute(C, solute, text, solvent):
    val, nb, db = concentration_denotation(text)
    target = float(val)
    fp = fingerprint(C)
    cur = conc(C, solute, nb, db)
    feasible = 0 < target <= cur * (1 + 1e-9)
    fails = []
    try:
        r = C.dilute(solute, text, solvent)
    except ValueError as e:
        if fingerprint(C) != fp:
            fails.append('argument modified by a refused call')
        if feasible and not close(target, cur, 1e-6) and math.isinf(C.max_volume):
            fails.append(f'refused although the target {target} {nb}/{db} is below the current {cur}: {e}')
        return {'ok': not fails, 'observed': f'ValueError: {e}', 'expected': 'accepted' if feasible else 'ValueError', 'failed': fails}
    except Exception as e:
        return {'ok': False, 'observed': repr(e), 'expected': 'a result or ValueError', 'failed': [type(e).__name__]}
    if fingerprint(C) != fp:
        fails.append('argument modified')
    if not feasible and not close(target, cur, 1e-6):
        fails.append(f'accepted a target {target} above the current concentration {cur}')
    check_container(r, 'result', fails)
    got = conc(r, solute, nb, db)
    if feasible and not close(got, target, 1e-6):
        fails.append(f'concentration is {got} {nb}/{db}, target {target}')
    for s in set(C.contents) | set(r.contents):
        if s != solvent and not close(r.contents.get(s, 0), C.contents.get(s, 0)):
            fails.append(f'bystander {s.name} changed')
    if r.contents.get(solvent, 0) < C.contents.get(solvent, 0) - 1e-9:
        fails.append('solvent decreased')
    return {'ok': not fails, 'observed': {'concentration': got, 'contents': {s.name: v for s, v in r.contents.items()}},
            'expected': f'{target} {nb}/{db}', 'failed': fails[:5]}


def judge_create_from(S, solute, ctext, Y, qtext):
    from pyplate import Container
    val, nb, db = concentration_denotation(ctext)
    target = float(val)
    qd = quantity_denotation(qtext)
    q, qb = float(qd[0]), qd[1]
    fpS = fingerprint(S)
    ycont = isinstance(Y, Container)
    fpY = fingerprint(Y) if ycont else None
    fails = []
    try:
        rs = Container.create_solution_from(S, solute, ctext, Y, qtext)
    except ValueError as e:
        if fingerprint(S) != fpS or (ycont and fingerprint(Y) != fpY):
            fails.append('argument modified by a refused call')
        # feasibility: target between the solvent's and the stock's concentration and the stock suffices — decided
        # only coarsely here: a target at most the stock's concentration with a tiny demand must be accepted
        cur = conc(S, solute, nb, db)
        tiny = q <= 1e-3 * measure(S, qb) if measure(S, qb) > 0 else False
        if 0 < target <= cur * (1 - 1e-6) and tiny and not ycont:
            fails.append(f'refused a reachable request (target {target} <= stock {cur}, demand {q} {qb} of {measure(S, qb)}): {e}')
        return {'ok': not fails, 'observed': f'ValueError: {e}', 'expected': 'see clauses', 'failed': fails}
    except Exception as e:
        return {'ok': False, 'observed': repr(e), 'expected': 'a result or ValueError', 'failed': [type(e).__name__]}
    src2, sol = rs[0], rs[-1]
    y2 = rs[1] if len(rs) == 3 else None
    if fingerprint(S) != fpS or (ycont and fingerprint(Y) != fpY):
        fails.append('argument modified')
    for o, nm in ((src2, 'residual source'), (sol, 'solution')) + (((y2, 'residual solvent'),) if y2 is not None else ()):
        check_container(o, nm, fails)
    if not close(measure(sol, qb), q, 1e-6):
        fails.append(f'total is {measure(sol, qb)} {qb}, requested {q}')
    got = conc(sol, solute, nb, db)
    if not close(got, target, 1e-6):
        fails.append(f'concentration is {got} {nb}/{db}, target {target}')
    subs = set(S.contents) | set(sol.contents) | (set(Y.contents) if ycont else {Y})
    for s in subs:
        before = S.contents.get(s, 0) + (Y.contents.get(s, 0) if ycont else 0)
        after = src2.contents.get(s, 0) + sol.contents.get(s, 0) + (y2.contents.get(s, 0) if y2 is not None else 0)
        if (not ycont and s == Y):
            if after < before - 1e-6:
                fails.append(f'{s.name} lost')
        elif not close(before, after, 1e-7, 1e-6):
            fails.append(f'{s.name} not conserved: {before} -> {after}')
    return {'ok': not fails, 'observed': {'solution': {s.name: v for s, v in sol.contents.items()}, 'concentration': got,
                                          'total': measure(sol, qb)}, 'expected': f'{q} {qb} at {target} {nb}/{db}',
            'failed': fails[:5]}
