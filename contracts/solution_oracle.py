"""Replay-side oracles for dilute / create_solution_from / create_solution (property clauses of C11, C12, C05 on the
real objects).  Runs under the repository's interpreter."""
import math
from fractions import Fraction as F

from pyvc import spec
from contracts.c14_grammar import concentration_denotation, quantity_denotation
from contracts.container_oracle import measure, base_amount, subspec, close, fingerprint, check_container, vs, ms, REL


def conc(c, solute, nb, db):
    fb, amt = base_amount(solute, c.contents.get(solute, 0))
    num = amt * float(spec.factor(subspec(solute), fb, nb))
    den = measure(c, db)
    return num / den if den else float('inf')


def judge_dilute(C, solute, text, solvent):
    val, nb, db = concentration_denotation(text)
    target = float(val)
    fp = fingerprint(C)
    cur = conc(C, solute, nb, db)
    feasible = 0 < target <= cur * (1 + 1e-9)
    fails = []
    try:
        r = C.dilute(solute, text, solvent)
    except ValueError as e:
        if fingerprint(C) != fp:
            fails.append('argument modified by a refused call')
        if feasible and not close(target, cur, 1e-6) and math.isinf(C.max_volume):
            fails.append(f'refused although the target {target} {nb}/{db} is below the current {cur}: {e}')
        return {'ok': not fails, 'observed': f'ValueError: {e}', 'expected': 'accepted' if feasible else 'ValueError', 'failed': fails}
    except Exception as e:
        return {'ok': False, 'observed': repr(e), 'expected': 'a result or ValueError', 'failed': [type(e).__name__]}
    if fingerprint(C) != fp:
        fails.append('argument modified')
    if not feasible and not close(target, cur, 1e-6):
        fails.append(f'accepted a target {target} above the current concentration {cur}')
    check_container(r, 'result', fails)
    got = conc(r, solute, nb, db)
    if feasible and not close(got, target, 1e-6):
        fails.append(f'concentration is {got} {nb}/{db}, target {target}')
    for s in set(C.contents) | set(r.contents):
        if s != solvent and not close(r.contents.get(s, 0), C.contents.get(s, 0)):
            fails.append(f'bystander {s.name} changed')
    if r.contents.get(solvent, 0) < C.contents.get(solvent, 0) - 1e-9:
        fails.append('solvent decreased')
    return {'ok': not fails, 'observed': {'concentration': got, 'contents': {s.name: v for s, v in r.contents.items()}},
            'expected': f'{target} {nb}/{db}', 'failed': fails[:5]}
