"""Replay-side oracles for dilute / create_solution_from / create_solution (property clauses of C11, C12, C05 on the
real objects).  Runs under the repository's interpreter."""
import math
from fractions import Fraction as F

from pyvc import spec
from contracts.c14_grammar import concentration_denotation, quantity_denotation
from contracts.container_oracle import measure, base_amount, subspec, close, fingerprint, check_container, vs, ms, REL


def conc(c, solute, nb, db):
    fb, amt = base_amount(solute, c.contents.get(solute, 0))
    num = amt * float(spec.factor(subspec(solute), fb, nb))
    den = measure(c, db)
    return num / den if den else float('inf')


def judge_dilute(C, solute, text, solvent):
    val, nb, db = concentration_denotation(text)
    target = float(val)
    fp = fingerprint(C)
    cur = conc(C, solute, nb, db)
    feasible = 0 < target <= cur * (1 + 1e-9)
    fails = []
    try:
        r = C.dilute(solute, text, solvent)
    except ValueError as e:
        if fingerprint(C) != fp:
            fails.append('argument modified by a refused call')
        if feasible and not close(target, cur, 1e-6) and math.isinf(C.max_volume):
            fails.append(f'refused although the target {target} {nb}/{db} is below the current {cur}: {e}')
        return {'ok': not fails, 'observed': f'ValueError: {e}', 'expected': 'accepted' if feasible else 'ValueError', 'failed': fails}
    except Exception as e:
        return {'ok': False, 'observed': repr(e), 'expected': 'a result or ValueError', 'failed': [type(e).__name__]}
    if fingerprint(C) != fp:
        fails.append('argument modified')
    if not feasible and not close(target, cur, 1e-6):
        fails.append(f'accepted a target {target} above the current concentration {cur}')
    check_container(r, 'result', fails)
    got = conc(r, solute, nb, db)
    if feasible and not close(got, target, 1e-6):
        fails.append(f'concentration is {got} {nb}/{db}, target {target}')
    for s in set(C.contents) | set(r.contents):
        if s != solvent and not close(r.contents.get(s, 0), C.contents.get(s, 0)):
            fails.append(f'bystander {s.name} changed')
    if r.contents.get(solvent, 0) < C.contents.get(solvent, 0) - 1e-9:
        fails.append('solvent decreased')
    return {'ok': not fails, 'observed': {'concentration': got, 'contents': {s.name: v for s, v in r.contents.items()}},
            'expected': f'{target} {nb}/{db}', 'failed': fails[:5]}


def judge_create_from(S, solute, ctext, Y, qtext):
    from pyplate import Container
    val, nb, db = concentration_denotation(ctext)
    target = float(val)
    qd = quantity_denotation(qtext)
    q, qb = float(qd[0]), qd[1]
    fpS = fingerprint(S)
    ycont = isinstance(Y, Container)
    fpY = fingerprint(Y) if ycont else None
    fails = []
    try:
        rs = Container.create_solution_from(S, solute, ctext, Y, qtext)
    except ValueError as e:
        if fingerprint(S) != fpS or (ycont and fingerprint(Y) != fpY):
            fails.append('argument modified by a refused call')
        # feasibility: target between the solvent's and the stock's concentration and the stock suffices — decided
        # only coarsely here: a target at most the stock's concentration with a tiny demand must be accepted
        cur = conc(S, solute, nb, db)
        tiny = q <= 1e-3 * measure(S, qb) if measure(S, qb) > 0 else False
        if 0 < target <= cur * (1 - 1e-6) and tiny and not ycont:
            fails.append(f'refused a reachable request (target {target} <= stock {cur}, demand {q} {qb} of {measure(S, qb)}): {e}')
        return {'ok': not fails, 'observed': f'ValueError: {e}', 'expected': 'see clauses', 'failed': fails}
    except Exception as e:
        return {'ok': False, 'observed': repr(e), 'expected': 'a result or ValueError', 'failed': [type(e).__name__]}
    src2, sol = rs[0], rs[-1]
    y2 = rs[1] if len(rs) == 3 else None
    if fingerprint(S) != fpS or (ycont and fingerprint(Y) != fpY):
        fails.append('argument modified')
    for o, nm in ((src2, 'residual source'), (sol, 'solution')) + (((y2, 'residual solvent'),) if y2 is not None else ()):
        check_container(o, nm, fails)
    if not close(measure(sol, qb), q, 1e-6):
        fails.append(f'total is {measure(sol, qb)} {qb}, requested {q}')
    got = conc(sol, solute, nb, db)
    if not close(got, target, 1e-6):
        fails.append(f'concentration is {got} {nb}/{db}, target {target}')
    subs = set(S.contents) | set(sol.contents) | (set(Y.contents) if ycont else {Y})
    for s in subs:
        before = S.contents.get(s, 0) + (Y.contents.get(s, 0) if ycont else 0)
        after = src2.contents.get(s, 0) + sol.contents.get(s, 0) + (y2.contents.get(s, 0) if y2 is not None else 0)
        if (not ycont and s == Y):
            if after < before - 1e-6:
                fails.append(f'{s.name} lost')
        elif not close(before, after, 1e-7, 1e-6):
            fails.append(f'{s.name} not conserved: {before} -> {after}')
    return {'ok': not fails, 'observed': {'solution': {s.name: v for s, v in sol.contents.items()}, 'concentration': got,
                                          'total': measure(sol, qb)}, 'expected': f'{q} {qb} at {target} {nb}/{db}',
            'failed': fails[:5]}


def judge_create_solution(J, subs, mk_container):
    from pyplate import Container
    n = J['n']
    solutes = [subs[f'solute{i}'] for i in range(n)]
    solvent = mk_container(J['Y'], subs, 'Y') if J['Y'] else subs['solvent']
    ycont = J['Y'] is not None
    kwargs = {}
    cvals = [float(F(x)) for x in J['c']]
    qvals = [float(F(x)) for x in J['q']]
    Tval = float(F(J['T']))
    qunits = ['U' if s.is_enzyme() else (J['qunit'] if J['qunit'] != 'U' else 'g') for s in solutes]
    if 'c' in J['given']:
        cunits = J.get('cunits') or [J['cunit']] * n
        v = ['%r %s' % (c, u) for c, u in zip(cvals, cunits)]
        kwargs['concentration'] = v[0] if n == 1 else v
    if 'q' in J['given']:
        v = ['%r %s' % (q, u) for q, u in zip(qvals, qunits)]
        kwargs['quantity'] = v[0] if n == 1 else v
    if 't' in J['given']:
        kwargs['total_quantity'] = '%r %s' % (Tval, J['tunit'])
    fpY = fingerprint(solvent) if ycont else None
    fails = []
    try:
        out = Container.create_solution(solutes[0] if n == 1 else solutes, solvent, 'sol', **kwargs)
    except ValueError as e:
        return {'ok': True, 'observed': f'ValueError: {e}', 'expected': 'a solution or ValueError', 'failed': []}
    except Exception as e:
        return {'ok': False, 'observed': repr(e), 'expected': 'a solution or ValueError', 'failed': [type(e).__name__]}
    resid, R = (out if ycont else (None, out))
    if ycont and fingerprint(solvent) != fpY:
        fails.append('solvent container modified')
    named = set(solutes) | (set(solvent.contents) if ycont else {solvent})
    if set(R.contents) != named:
        fails.append(f'contents {[s.name for s in R.contents]} differ from the named substances')
    if any(v <= 0 for v in R.contents.values()):
        fails.append(f'non-positive amount: { {s.name: v for s, v in R.contents.items()} }')
    check_container(R, 'solution', fails)
    nb, db = J['cunit'].split('/')
    if 'c' in J['given']:
        for s, c, cu in zip(solutes, cvals, J.get('cunits') or [J['cunit']] * n):
            den = concentration_denotation('%r %s' % (c, cu))
            got = conc(R, s, den[1], den[2])
            if not close(got, float(den[0]), 1e-6):
                fails.append(f'concentration of {s.name} is {got}, requested {float(den[0])} {den[1]}/{den[2]}')
    if 'q' in J['given']:
        for s, q, u in zip(solutes, qvals, qunits):
            qd = quantity_denotation('%r %s' % (q, u))
            fb, amt = base_amount(s, R.contents.get(s, 0))
            have = amt * float(spec.factor(subspec(s), fb, qd[1]))
            if not close(have, float(qd[0]), 1e-6, 2e-6):
                fails.append(f'quantity of {s.name} is {have} {qd[1]}, requested {float(qd[0])}')
    if 't' in J['given']:
        qd = quantity_denotation('%r %s' % (Tval, J['tunit']))
        if not close(measure(R, qd[1]), float(qd[0]), 1e-6):
            fails.append(f'total is {measure(R, qd[1])} {qd[1]}, requested {float(qd[0])}')
    if ycont:
        for s in solvent.contents:
            if not close(resid.contents.get(s, 0) + R.contents.get(s, 0), solvent.contents[s], 1e-7, 1e-6):
                fails.append(f'{s.name} of the solvent container lost or created')
    return {'ok': not fails, 'observed': {s.name: v for s, v in R.contents.items()}, 'expected': 'all stated constraints',
            'failed': fails[:5]}
