"""B-C03-float — bounded stand-in for the clauses of C03 that exist only in IEEE arithmetic (A1/A2 make them invisible
to the real-arithmetic proofs): requests exactly ON a feasibility boundary must be accepted.
Executes the real package natively for v in 1..N x units x three liquids/solids; labelled bounded."""
import json

from pyvc import harness

PID = 'C03'

CODE = r'''
from pyplate import Substance, Container
N = %d
def run():
    subs = [Substance.liquid('water', 18.0153, 1), Substance.liquid('dmso', 78.13, 1.1004), Substance.liquid('etoh', 46.069, 0.7893)]
    salt = Substance.solid('NaCl', 58.4428)
    fails = {}
    count = 0
    def note(cls, what):
        fails.setdefault(cls, [])
        if len(fails[cls]) < 3:
            fails[cls].append(what)
    for s in subs:
        for unit in ('uL', 'mL', 'L'):
            for v in range(1, N + 1):
                q = f'{v} {unit}'
                # 1. a container filled exactly to its capacity at construction
                count += 1
                try:
                    c = Container('c', q, [(s, q)])
                except ValueError as e:
                    note('construct-to-capacity', f'Container(cap={q}, [{s.name} {q}]): {e}')
                    continue
                # 2. transferring the whole content (by volume) into a vessel of exactly that capacity
                count += 1
                try:
                    src, dst = Container.transfer(c, Container('d', q), q)
                    if any(x < 0 for x in src.contents.values()):
                        note('transfer-all-negative', f'{q} of {s.name}: source {src.contents}')
                except ValueError as e:
                    note('transfer-all-volume', f'transfer {q} of {q} {s.name} into cap {q}: {e}')
                # 3. fill_to exactly the current quantity, in each unit
                for fu, val in (('mL', c.get_volume('mL')),):
                    count += 1
                    try:
                        c.fill_to(s, f'{val} {fu}')
                    except ValueError as e:
                        note('fill-to-current', f'{c.contents} fill_to {val} {fu}: {e}')
    # 4. transferring everything by mass / moles
    for v in range(1, N + 1):
        for s in subs + [salt]:
            c = Container('c', initial_contents=[(s, f'{v} mmol')])
            count += 1
            try:
                src, dst = Container.transfer(c, Container('d'), f'{v} mmol')
                if any(x < 0 for x in src.contents.values()):
                    note('transfer-all-negative', f'{v} mmol of {s.name}: source {src.contents}')
            except ValueError as e:
                note('transfer-all-moles', f'{v} mmol of {v} mmol {s.name}: {e}')
            c = Container('c', initial_contents=[(s, f'{v} mg')])
            count += 1
            try:
                src, dst = Container.transfer(c, Container('d'), f'{v} mg')
                if any(x < 0 for x in src.contents.values()):
                    note('transfer-all-negative', f'{v} mg of {s.name}: source {src.contents}')
            except ValueError as e:
                note('transfer-all-mass', f'{v} mg of {v} mg {s.name}: {e}')
            count += 1
            c2 = Container('c', initial_contents=[(s, f'{v} mmol')])
            try:
                c2.fill_to(s, f'{v} mmol')
            except ValueError as e:
                note('fill-to-current', f'{v} mmol {s.name} fill_to {v} mmol: {e}')
    return {'ok': True, 'count': count, 'failures': fails}
'''


def run(n):
    out = harness.run_replay({'inputs': {'n': n}, 'code': CODE % n}, timeout=3000)
    bound = f"v in 1..{n} x (uL, mL, L) x 3 liquids (+ NaCl for mass/moles): requests exactly on a feasibility boundary"
    name = f'{PID}/bounded[float-boundaries]'
    if out.get('ok') is None:
        return [{'name': name, 'case': f'n<={n}', 'kind': 'bounded', 'verdict': 'unknown',
                 'note': str(out.get('error'))[-400:], 'count': 0, 'bound': bound, 'secs': 0.0}]
    res = [{'name': name, 'case': f'n<={n}', 'kind': 'bounded', 'verdict': 'proved', 'count': out['count'],
            'bound': bound, 'secs': 0.0}]
    for cls, examples in out['failures'].items():
        code = ("def run():\n    return {'ok': False, 'observed': %r, 'expected': 'accepted'}\n" % examples[0])
        res.append({'name': name, 'case': cls, 'kind': 'bounded', 'verdict': 'refuted', 'count': len(examples),
                    'bound': bound, 'secs': 0.0, 'note': '; '.join(examples)[:500],
                    'replays': [{'inputs': {'example': examples[0]}, 'code': CODE % n + "\n_r = run\ndef run():\n    out = _r()\n    f = out['failures'].get(%r)\n    return {'ok': not f, 'observed': f and f[0], 'expected': 'accepted'}\n" % cls}]})
    return res
