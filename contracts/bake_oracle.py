"""Replay side of the bake obligations: for a step kind, a short recipe in which earlier steps have already changed the
operands (so that declaration-time and current states differ) is baked on the real package and compared with the eager
fold through the direct operations (C08); the per-step bookkeeping is compared with an independent ledger (C09/C15)."""
from pyplate import Substance, Container, Plate, Recipe

from contracts.container_oracle import close

water = Substance.liquid('water', 18.0153, 1)
salt = Substance.solid('salt', 58.44)
dmso = Substance.liquid('dmso', 78.13, 1.1)
zinc = Substance.solid('zinc sulfate', 161)
amm = Substance.solid('ammonium chloride', 53)      # deliberately not in alphabetical order in the solute list


def contents(o):
    if isinstance(o, Container):
        return {s.name: v for s, v in o.contents.items()}
    return [[{s.name: v for s, v in w.contents.items()} for w in row] for row in o.wells]


def same(a, b):
    if isinstance(a, dict):
        return set(a) == set(b) and all(close(a[k], b[k], 1e-7, 1e-6) for k in a)
    return all(same(x, y) for ra, rb in zip(a, b) for x, y in zip(ra, rb))


def scenario(kind):
    """returns (recipe builder, eager function) for the step kind; both start from the same declared objects"""
    op, _, var = kind.partition(':')
    A = Container('A', '50 mL', [(water, '20 mL'), (salt, '10 mmol')])
    Bc = Container('B', '50 mL', [(water, '1 mL'), (dmso, '0.5 mL')])     # two liquids: a remove by KIND must take both
    P = Plate('P', '2 mL', rows=2, columns=2)
    Q = Plate('Q', '2 mL', rows=2, columns=2)
    r = Recipe()
    env = {'A': A, 'B': Bc, 'P': P, 'Q': Q}
    used = set()
    prog = []

    def step(name, *args):
        prog.append((name,) + args)
    # earlier steps that change the operands
    step('transfer', 'A', 'B', '2 mL')
    step('transfer', 'A', 'P', '100 uL')
    step('transfer', 'B', 'Q', '50 uL')
    sl = lambda p: (p, (1, 1))        # noqa: E731
    sub = lambda p: (p, (slice(1, 2), slice(1, 2)), (slice(0, 1), slice(1, 2)))      # noqa: E731  a slice of a slice: well A,2
    if var == 'sub-slice':
        if op == 'transfer':
            step('transfer', sub('P'), 'B', '10 uL')
        else:
            step('remove', sub('P'))
    elif op == 'solution' and var == 'two-solutes':
        step('solution2', 'N')
    elif op == 'dilute' and var == 'rename':
        step('dilute', 'A', 'R')
    elif op == 'transfer':
        pairs = {'cc': ('A', 'B'), 'cp': ('A', 'P'), 'cs': ('A', sl('P')), 'pc': ('P', 'B'), 'sc': (sl('P'), 'B'),
                 'ss': (sl('P'), ('Q', (1, 2))), 'ps': ('P', ('Q', (slice(None), slice(None)))),
                 'same-plate': (sl('P'), ('P', (1, 2)))}[var]
        step('transfer', pairs[0], pairs[1], '10 uL')
    elif op == 'create_container':
        step('create_container', 'N', '10 mL', [(water, '3 mL')] if var == 'contents' else None)
        step('transfer', 'A', 'N', '1 mL')
    elif op == 'solution':
        step('solution', 'N', 'B' if var == 'container-solvent' else None)
    elif op == 'solution_from':
        step('solution_from', 'A', 'N')
    elif op == 'remove':
        tgt = {'c': 'B', 'class': 'B', 'p': 'P', 's': sl('P')}[var]
        if var == 'class':
            step('remove', tgt, Substance.LIQUID)
        else:
            step('remove', tgt)
    elif op == 'dilute':
        step('dilute', 'B2' if False else 'A')
    elif op == 'fill_to':
        tgt = {'c': 'B', 'p': 'P', 's': sl('P')}[var]
        step('fill_to', tgt, '1.5 mL' if var != 'c' else '30 mL')
    return env, prog


def resolve(env, ref):
    if isinstance(ref, tuple):
        o = env[ref[0]]
        for item in ref[1:]:
            o = o[item]
        return o
    return env[ref]


def name_of(ref):
    return ref[0] if isinstance(ref, tuple) else ref


def noop_dilute():
    """a dilute step whose target is the current concentration, with a solvent the container does not hold: the direct
    operation returns the container as it is; the recipe step must do the same"""
    dmso = Substance.liquid('dmso', 78.13, 1.1)
    c = Container('c', '50 mL', [(water, '5 mL'), (salt, '100 mg')])
    cur = c.get_concentration(salt, 'M')
    r = Recipe().uses(c)
    r.dilute(c, salt, f'{cur} M', dmso)
    want = contents(c.dilute(salt, f'{cur} M', dmso))
    try:
        got = contents(r.bake()['c'])
    except Exception as e:
        return [f"a dilute step to the current concentration with a solvent that is not in the container: bake raised {e!r}, "
                f"the direct operation returns {want}"]
    return [] if same(got, want) else [f"no-op dilute step: bake gives {got}, the direct operation {want}"]


def renamed_dilute_trackers():
    """a dilute step with new_name, then a transfer out of the same container: the trackers must still see the transfer"""
    out = {}
    for new_name in (None, 'a_dil'):
        a = Container('a', '50 mL', [(water, '5 mL'), (salt, '100 mg')])
        b = Container('b', '50 mL')
        r = Recipe().uses(a, b)
        r.dilute(a, salt, '0.1 M', water, new_name)
        r.transfer(a, b, '1 mL')
        r.bake()
        out[new_name] = (float(r.get_container_flows(a, unit='mL')['out']), r.get_substance_used(water, unit='mL', destinations=[a]))
    if out[None] != out['a_dil']:
        return [f"after dilute(..., new_name='a_dil') the later 1 mL transfer out of the container is invisible to the trackers: "
                f"(outflow, water gained) = {out['a_dil']} instead of {out[None]} (the renamed object stays filed under 'a')"]
    return []


def replay(kind, clause):
    if 'filed-under-own-name' in clause:
        f = renamed_dilute_trackers()
        return {'ok': not f, 'observed': f or 'trackers see every step', 'expected': 'the same answers with and without new_name'}
    if kind.startswith('dilute') and 'safe[' in clause:
        f = noop_dilute()
        return {'ok': not f, 'observed': f or 'bake = eager fold', 'expected': 'bake = eager fold'}
    env, prog = scenario(kind)
    # ---- recipe
    r = Recipe()
    renv = dict(env)
    names = set()
    for st in prog:
        for a in st[1:]:
            n = name_of(a) if isinstance(a, (str, tuple)) and name_of(a) in env else None
            if n and n not in names and n in ('A', 'B', 'P', 'Q'):
                names.add(n)
    r.uses(*[env[n] for n in sorted(names)])
    declared0 = {n: contents(env[n]) for n in names}
    held = []

    def rresolve(en, ref):       # recipe side: remember the slice objects the caller hands in
        o = resolve(en, ref)
        if hasattr(o, 'plate'):
            held.append((o, o.plate, None))
        return o
    for st in prog:
        if st[0] == 'transfer':
            r.transfer(rresolve(renv, st[1]), rresolve(renv, st[2]), st[3])
        elif st[0] == 'create_container':
            renv['N'] = r.create_container('N', st[2], st[3])
        elif st[0] == 'solution2':
            renv['N'] = r.create_solution([zinc, amm], water, 'N', concentration=['1 M', '2 M'], total_quantity='10 mL')
        elif st[0] == 'solution':
            renv['N'] = r.create_solution(salt, renv[st[2]] if st[2] else water, 'N', concentration='0.5 M', total_quantity='0.5 mL')
        elif st[0] == 'solution_from':
            renv['N'] = r.create_solution_from(renv['A'], salt, '0.1 M', water, '5 mL', 'N')
        elif st[0] == 'remove':
            r.remove(rresolve(renv, st[1]), *st[2:] or (water,))
        elif st[0] == 'dilute':
            r.dilute(renv['A'], salt, '0.25 M', water, *st[2:])
        elif st[0] == 'fill_to':
            r.fill_to(rresolve(renv, st[1]), water, st[2])
    try:
        baked = r.bake()
    except Exception as e:
        return {'ok': False, 'observed': f'bake raised {e!r}', 'expected': 'bake = eager fold'}
    # ---- C04: what the caller handed in is untouched by declaring, adding steps and baking
    frame_fails = []
    for n in names:
        if contents(env[n]) != declared0[n]:
            frame_fails.append(f"declared object {n} was modified by the recipe")
    for sl_, pl_, well_ in held:
        if sl_.plate is not pl_:
            frame_fails.append("a slice object handed to the recipe was re-pointed at another plate")
    # ---- eager fold
    e = dict(env)
    ledger = []
    for st in prog:
        before = {k: contents(v) for k, v in e.items() if k in names or k == 'N'}
        if st[0] == 'transfer':
            src, dst = resolve(e, st[1]), resolve(e, st[2])
            a, b = (Container.transfer(src, dst, st[3]) if isinstance(e[name_of(st[2])], Container) else Plate.transfer(src, dst, st[3]))
            e[name_of(st[1])] = a
            e[name_of(st[2])] = b
        elif st[0] == 'create_container':
            e['N'] = Container('N', st[2], st[3])
        elif st[0] == 'solution2':
            e['N'] = Container.create_solution([zinc, amm], water, 'N', concentration=['1 M', '2 M'], total_quantity='10 mL')
        elif st[0] == 'solution':
            if st[2]:
                e[st[2]], e['N'] = Container.create_solution(salt, e[st[2]], 'N', concentration='0.5 M', total_quantity='0.5 mL')
            else:
                e['N'] = Container.create_solution(salt, water, 'N', concentration='0.5 M', total_quantity='0.5 mL')
        elif st[0] == 'solution_from':
            e['A'], e['N'] = Container.create_solution_from(e['A'], salt, '0.1 M', water, '5 mL', 'N')
        elif st[0] == 'remove':
            e[name_of(st[1])] = resolve(e, st[1]).remove(*st[2:] or (water,))
        elif st[0] == 'dilute':
            e['A'] = e['A'].dilute(salt, '0.25 M', water, *st[2:])     # a renamed result stays filed under the operand's name
        elif st[0] == 'fill_to':
            e[name_of(st[1])] = resolve(e, st[1]).fill_to(water, st[2])
        ledger.append((before, {k: contents(v) for k, v in e.items() if k in names or k == 'N'}))
    fails = list(frame_fails) if 'frame' in clause else []
    want_names = {k for k in e if k in names or (k == 'N' and 'N' in renv)}
    if set(baked) != want_names:
        fails.append(f"bake returned the names {sorted(baked)}, expected {sorted(want_names)}")
    for k in want_names & set(baked):
        if not same(contents(baked[k]), contents(e[k])):
            fails.append(f"{k}: bake gives {contents(baked[k])}, the eager fold gives {contents(e[k])}")
    # ---- bookkeeping of the last step (what the trackers read)
    last = r.steps[-1]
    (before, after) = ledger[-1]
    for k in want_names:
        changed = before.get(k) != after.get(k) if k in before else True
        if changed and k not in last.objects_used and 'objects-used' in clause:
            fails.append(f"{k} is changed by the last step but missing from objects_used {sorted(last.objects_used)}")
    if 'trash' in clause or 'substances-used' in clause:
        if prog[-1][0] == 'remove':
            k = name_of(prog[-1][1])
            def tot(c, s):
                if isinstance(c, dict):
                    return c.get(s, 0)
                return sum(w.get(s, 0) for row in c for w in row)
            lost = tot(before[k], 'water') - tot(after[k], 'water')
            got = sum(v for s, v in last.trash.items() if s.name == 'water')
            if not close(lost, got, 1e-7, 1e-6):
                fails.append(f"the step discarded {lost} of water but trash records {got}")
    return {'ok': not fails, 'observed': fails[:3] or 'bake = eager fold', 'expected': 'bake = eager fold, bookkeeping = ledger'}


def plate_fill_text(n=6):
    """bounded: the instruction of a recipe fill_to step on a whole plate lists, per group of wells, the volume added; every
    stated number must be the amount that well really received, to the precision configured for the STATED unit, and
    every well that received something must be listed"""
    import re
    import pyplate.pyplate as pp
    fails, count = [], 0
    si = {'': 1.0, 'm': 1e-3, 'u': 1e-6, 'n': 1e-9}
    for k in range(1, n + 1):
        for cap, target, fills in (('5 mL', '2 mL', ['750 uL', '600 uL', '1.7 mL']), ('500 uL', '100 uL', ['33.3 uL', '12.5 uL', '80 uL']),
                                   ('20 mL', '3.3 mL', ['1.25 mL', '450 uL', '2.95 mL']),
                                   # targets and fillings that are not whole display units (rounding before vs after the subtraction)
                                   ('500 uL', '100.4 uL', ['33.7 uL', '12.6 uL', '80.2 uL']), ('20 uL', '2.6 uL', ['0.7 uL', '1.3 uL', '0.9 uL']),
                                   ('5 mL', '2.0004 mL', ['750.3 uL', '600.7 uL', '1.7002 mL'])):
            p = Plate('P', cap, rows=2, columns=2)
            src = Container('src', initial_contents=[(water, '100 mL')])
            for (r_, c_), q in zip(((1, 1), (1, 2), (2, 1)), fills):
                v, u = q.split()
                src, p = Plate.transfer(src, p[r_, c_], f'{float(v) * (1 + (k - 1) / 90):.6g} {u}')
            r = Recipe().uses(p)
            r.fill_to(p, water, target)
            res = r.bake()
            text = r.steps[0].instructions
            count += 1
            added = {}
            for i in range(2):
                for j in range(2):
                    added['AB'[i] + str(j + 1)] = (res['P'].wells[i, j].volume - p.wells[i, j].volume) * 1e-6      # litres
            stated = {}
            for num, pre, wells in re.findall(r'(-?\d+\.?\d*(?:e-?\d+)?) (m|u|n|)L to \[([^\]]+)\]', text):
                for part in wells.split(','):
                    part = part.strip()
                    a, _, b = part.partition(':')
                    b = b or a
                    for rr in 'AB'['AB'.index(a[0]):'AB'.index(b[0]) + 1]:
                        for cc in range(int(a[1:]), int(b[1:]) + 1):
                            stated[rr + str(cc)] = (float(num), pre)
            for well, vol in added.items():
                if well not in stated:
                    if vol > 1e-12:
                        fails.append(f"{text!r}: well {well} received {vol * 1e6:.6g} uL but is not mentioned")
                    continue
                num, pre = stated[well]
                unit = pre + 'L'
                prec = pp.config.precisions.get(unit, pp.config.precisions['default'])
                if abs(num * si[pre] - vol) > (0.5 * 10 ** (-prec) + 1e-9) * si[pre]:
                    fails.append(f"{text!r}: well {well} received {vol / si[pre]:.6g} {unit}, stated {num} {unit} (precision {prec})")
    return {'ok': not fails, 'count': count, 'observed': fails[:3] or 'every stated amount is the amount added', 'failures': fails[:6]}
