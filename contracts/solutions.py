"""Contracts of the operations built on the linear systems: Container.dilute (C11), Container.create_solution_from
(C12) and Container.create_solution (C05).  Mixtures are explicit key sets (1..3 substances): each configuration is a
complete proof over all amounts and physical constants (QF_NRA); bounded in the number of substances."""
import itertools
import json

import z3

from pyvc import vc, spec
from pyvc.values import *   # noqa: F401,F403
from pyvc import symcoll
from contracts import clib
from contracts.clib import BASE_WS
from contracts.container_ops import amt_of, frame_ob, wf_clauses, assume_distinct, KINDS

PAIRS = [('mol', 'L'), ('mol', 'g'), ('mol', 'mol'), ('g', 'L'), ('g', 'g'), ('g', 'mol'), ('L', 'L'), ('L', 'g'),
         ('L', 'mol')]


def conc_of(I, amounts, keys, solute, nb, db):
    """concentration of `solute` (numerator unit nb per denominator unit db) in a mixture {key: stored amount}."""
    ms = spec.num(clib.ms_of(I))
    S = spec.SubSpec(kind(solute), mw(solute), dens(solute), sa(solute))
    numer = amounts[solute] * z3.If(kind(solute) == 3, spec.num(spec.factor(spec.SubSpec(3, mw(solute), dens(solute), sa(solute)), 'U', nb)),
                                    ms * spec.num(spec.factor(spec.SubSpec(1, mw(solute), dens(solute), sa(solute)), 'mol', nb)))
    denom = clib.finite_measure(I, BASE_WS[db], keys, amounts)
    return numer, denom


class DiluteOp(clib.Op):
    """Container.dilute(solute, 'c num/den', solvent).  case = (solute kind, (num, den), mixture, cap)"""
    FN = 'Container.dilute'
    PROPS_OF = {'target': ['C11'], 'only-solvent': ['C11'], 'cap': ['C11', 'C03'], 'refuse': ['C11', 'C03'],
                'accept': ['C11', 'C03'], 'nonneg': ['C03'], 'vol': ['C10'], 'frame': ['C04'], 'fresh': ['C04'],
                'safe': ['C03', 'C11']}
    MIXTURES = {'binary': ('solute', 'solvent'), 'solute-only': ('solute',), 'ternary': ('solute', 'solvent', 'other'),
                'with-enzyme': ('solute', 'solvent', 'enzyme'), 'binary-named': ('solute', 'solvent')}     # -named: dilute(..., name=<new name>)
    TIMEOUT = 40000

    def cases(self, tier):
        out = []
        if tier != 'thorough':
            # quick: representative unit pairs; the full 2 x 9 x 5 table is the thorough tier
            for pair in (('mol', 'L'), ('g', 'g'), ('mol', 'mol'), ('L', 'g')):
                for mix in ('binary', 'ternary', 'with-enzyme'):
                    out.append((1, pair, mix, 'inf'))
                out.append((2, pair, 'binary', 'inf'))
            out.append((1, ('g', 'L'), 'solute-only', 'inf'))
            out.append((1, ('mol', 'L'), 'binary', 'finite'))
            out.append((1, ('mol', 'L'), 'binary-named', 'inf'))
            out.append((2, ('g', 'g'), 'binary-named', 'finite'))
            return out
        for k in (1, 2):
            for pair in PAIRS:
                for mix in self.MIXTURES:
                    out.append((k, pair, mix, 'inf'))
                out.append((k, pair, 'binary', 'finite'))
        return out

    def setup(self, I, case, finite=None):
        k, (nb, db), mix, cap = case
        clib.assume_world(I)
        names = self.MIXTURES[mix]
        terms = {n: z3.Const(n, Sub) for n in ('solute', 'solvent', 'other', 'enzyme')}
        keys = [terms[n] for n in names]
        assume_distinct(I, [terms['solute'], terms['solvent']] + [terms[n] for n in names if n not in ('solute', 'solvent')])
        I.assume(kind(terms['solute']) == k)
        I.assume(z3.Or(kind(terms['solvent']) == 1, kind(terms['solvent']) == 2))
        if 'other' in names:
            I.assume(z3.Or(kind(terms['other']) == 1, kind(terms['other']) == 2))
        if 'enzyme' in names:
            I.assume(kind(terms['enzyme']) == 3)
        C = clib.mk_container(I, 'C', cap, keys, [True] * len(keys))
        for s in keys:
            I.assume(C.amt[s] > 0)
        allkeys = keys if terms['solvent'] in keys else keys + [terms['solvent']]
        amounts = {s: C.amt.get(s, z3.RealVal(0)) for s in allkeys}
        c = z3.Real('c')
        I.assume(c > 0)
        return C, terms, keys, allkeys, amounts, c

    def invoke(self, I, st, case):
        C, terms, keys, allkeys, amounts, c = st
        nb, db = case[1]
        args = [C.obj, SubV(terms['solute']), SegStr([NumHole(c), ' ', f'{nb}/{db}']), SubV(terms['solvent'])]
        if case[2].endswith('-named'):
            args.append(NameV(z3.Const('newname', Name)))
        return vc.call(I, self.FN, args)

    def emit(self, I, out, st, case, finite=None):
        k, (nb, db), mix, cap = case
        C, terms, keys, allkeys, amounts, c = st
        solute, solvent = terms['solute'], terms['solvent']
        vs = spec.num(clib.vs_of(I))
        fin = {'keys': allkeys}
        frame_ob(I)
        n0, d0 = conc_of(I, amounts, allkeys, solute, nb, db)
        cur_gt = n0 > c * d0            # current concentration above the target (dilution possible)
        cur_eq = n0 == c * d0
        if out.kind == 'return':
            r = out.value
            I.oblige('fresh', bool(r.fresh and r is not C.obj), 'property')
            res_amt = {s: amt_of(r, s)[0] for s in allkeys}
            n1, d1 = conc_of(I, res_amt, allkeys, solute, nb, db)
            tol = z3.RealVal('2/1000000')
            # the library treats concentrations within a relative 1e-6 as equal (and then returns the container as is)
            I.oblige('raises[refuse-higher]', n0 * (1 + tol) >= c * d0, 'property',
                     note='a target concentration above the current one must be refused')
            I.oblige('ensures[target]', z3.And(n1 <= c * d1 * (1 + tol), n1 >= c * d1 * (1 - tol)), 'property',
                     note=f"concentration of the solute in {nb}/{db} equals the target")
            I.oblige('ensures[only-solvent]', z3.And(*[res_amt[s] == amounts[s] for s in allkeys if not s.eq(solvent)],
                                                     res_amt[solvent] >= amounts[solvent]), 'property')
            for name, g in wf_clauses(I, r, fin, None if cap == 'inf' else C.cap).items():
                I.oblige(name, g, 'property')
        else:
            ex = out.exc
            if ex.cls == 'ValueError' and not ex.implicit:
                if cap == 'inf':
                    I.oblige('raises[accept]', z3.Not(n0 >= c * d0), 'property',
                             note=f'ValueError at line {ex.lineno} although the target is at or below the current concentration')
                else:
                    I.oblige('raises[accept]', True, 'aux')    # capacity-dependent: decided by `target`/`cap` on the returning side
            else:
                # an unreachable target must surface as ValueError, nothing else
                I.oblige(f'safe[{ex.cls}]', False, 'property', note=f'{ex.cls} at line {ex.lineno}')

    def finite_configs(self, case, nmax):
        yield {'keys': None}

    def inputs(self, I, st, case, fin):
        C, terms, keys, allkeys, amounts, c = st
        d = {'c': c}
        d.update(clib.sub_inputs(allkeys))
        for s in keys:
            d[f'C_{s}'] = C.amt[s]
        if case[3] != 'inf':
            d['capC'] = C.cap
        return d

    def prefs(self, I, st, case, fin):
        C, terms, keys, allkeys, amounts, c = st
        return clib.nice_model_prefs(allkeys, [C.amt[s] for s in keys], [c] + ([C.cap] if case[3] != 'inf' else []))

    def replay(self, mv, st, case, fin, clause):
        C, terms, keys, allkeys, amounts, c = st
        try:
            inputs = {'subs': clib.model_subs(mv, allkeys),
                      'C': {'contents': {str(s): str(mv[f'C_{s}']) for s in keys},
                            'cap': None if case[3] == 'inf' else str(mv['capC'])},
                      'c': str(mv['c']), 'unit': f'{case[1][0]}/{case[1][1]}', 'clause': clause}
        except (KeyError, TypeError, ValueError):
            return []
        code = (clib.REPLAY_HEAD.replace('{inputs!r}', repr(json.dumps(inputs))) + clib.MK_CONTAINERS +
                "def run():\n"
                "    subs = {k: mk_sub(d, 'sub_' + k) for k, d in J['subs'].items()}\n"
                "    C = mk_container(J['C'], subs, 'C')\n"
                "    from contracts.solution_oracle import judge_dilute\n"
                "    return judge_dilute(C, subs['solute'], '%r %s' % (float(F(J['c'])), J['unit']), subs['solvent'])\n")
        return [{'inputs': inputs, 'code': code}]


OPS = {'dilute': DiluteOp()}


def run(opname, pid, case):
    """For these operations the main run already uses explicit key sets: it is exact, so refutations found there are
    concrete (no separate finite search needed)."""
    op = OPS[opname]
    case = tuple(tuple(x) if isinstance(x, list) else x for x in case)
    return run_exact(op, pid, case)


def run_exact(op, pid, case):
    cname = op.case_name(case)
    ctr = exact_contracts() if getattr(op, 'MODULAR_CALLEES', False) else clib.contracts()
    pre = f'{op.FN}/'
    res = []

    def body(I):
        st = op.setup(I, case)
        I.oblige('cover', True, 'cover')
        out = op.invoke(I, st, case)
        op.emit(I, out, st, case)
        I.obls = op.keep(I, pid)
        I.__dict__['_st'] = st
        return out
    settled = {}      # obligation name -> 'refuted' | number of unknowns: no need to re-ask on every further path
    returned = 0
    for I, out in vc.explore(body, contracts=ctr, max_paths=op.MAX_PATHS):
        if isinstance(out, vc.Outcome) and out.kind == 'unsupported':
            flagged = [ob for ob in I.obls if ob.name == 'display-value-feeds-state']
            if flagged:
                I.obls = flagged
                for r in vc.discharge(I, pre, cname, op.TIMEOUT):
                    r['independent'] = True
                    res.append(r)
                continue
            res.append(vc.unsupported_result(f'{pre}unsupported', cname, out.note))
            res += [r for r in vc.definite_results(I, pre, cname) if op.serves(r['name'], pid)]
            continue
        if isinstance(out, vc.Outcome) and out.kind == 'return':
            returned += 1
        st = I.__dict__.get('_st')
        if st is None:
            continue
        inputs = op.inputs(I, st, case, None)

        def replay(mv, ob, st=st):
            return op.replay(mv, st, case, None, ob.name)
        only = {pre + ob.name for ob in I.obls
                if settled.get(pre + ob.name) != 'refuted' and not (isinstance(settled.get(pre + ob.name), int)
                                                                     and settled[pre + ob.name] >= 2)}
        rs = vc.discharge(I, pre, cname, op.TIMEOUT, inputs, replay, prefer=op.prefs(I, st, case, None), only=only)
        for r in rs:
            if r['verdict'] == 'refuted':
                r['independent'] = True
                settled[r['name']] = 'refuted'
            elif r['verdict'] == 'unknown' and settled.get(r['name']) != 'refuted':
                settled[r['name']] = settled.get(r['name'], 0) + 1
        res += rs
    res = clib.dedupe(res)
    if hasattr(op, 'must_accept') and returned == 0 and not any(r['verdict'] == 'unsupported' for r in res):
        w = op.must_accept(case)
        res.append({'name': f'{pre}raises[accept]', 'case': cname, 'kind': 'property', 'verdict': 'refuted', 'secs': 0.0,
                    'independent': True, 'backend': 'path enumeration',
                    'note': 'no input of this request class is ever accepted: every path raises', 'replays': w})
    if pid is not None:
        res = [dict(r, name=f'{pid}/' + r['name']) for r in res]
    return res


# ================================================================================================ create_solution_from (C12)
class CreateFromOp(clib.Op):
    """Container.create_solution_from(source, solute, 'c num/den', solvent, 'q unit').
    case = (solvent form, (num, den), quantity unit, source mixture)"""
    FN = 'Container.create_solution_from'
    PROPS_OF = {'total': ['C12'], 'conc': ['C12'], 'conservation': ['C12'], 'composition': ['C12'], 'refuse': ['C12', 'C03'],
                'nonneg': ['C03', 'C12'], 'cap': ['C03'], 'vol': ['C10'], 'frame': ['C04'], 'fresh': ['C04'],
                'safe': ['C03', 'C12']}
    SOURCES = {'binary': ('solute', 'solvent'), 'binary-other': ('solute', 'other'), 'with-enzyme': ('solute', 'solvent', 'enzyme'),
               'ternary': ('solute', 'solvent', 'other')}
    TIMEOUT = 20000
    MAX_PATHS = 1500
    MODULAR_CALLEES = True

    def cases(self, tier):
        out = []
        pairs = PAIRS if tier == 'thorough' else [('mol', 'L'), ('g', 'g'), ('g', 'L'), ('mol', 'mol'), ('L', 'L')]
        qunits = ['mL', 'g', 'mol'] if tier != 'thorough' else ['L', 'mL', 'g', 'mg', 'mol', 'mmol']
        for pair in pairs:
            for qu in qunits:
                out.append(('substance', pair, qu, 'binary'))
        for src in ('binary-other', 'with-enzyme', 'ternary'):
            out.append(('substance', ('mol', 'L'), 'mL', src))
            out.append(('substance', ('g', 'g'), 'g', src))
        # an enzyme rides along in the stock and the request is mole-based (enzymes are stored in U and carry no moles)
        out.append(('substance', ('mol', 'mol'), 'mol', 'with-enzyme'))
        out.append(('substance', ('mol', 'L'), 'mol', 'with-enzyme'))
        out.append(('container', ('mol', 'L'), 'mL', 'binary'))
        out.append(('container-with-solute', ('mol', 'L'), 'mL', 'binary'))
        out.append(('container-with-solute', ('L', 'L'), 'mL', 'binary'))      # volume numerator + a solvent container holding the solute
        return out

    def setup(self, I, case, finite=None):
        form, (nb, db), qu, srcmix = case
        clib.assume_world(I)
        terms = {n: z3.Const(n, Sub) for n in ('solute', 'solvent', 'other', 'enzyme')}
        names = self.SOURCES[srcmix]
        keys = [terms[n] for n in names]
        assume_distinct(I, list(terms.values()))
        I.assume(kind(terms['solute']) == 1)
        I.assume(kind(terms['solvent']) == 2)
        I.assume(kind(terms['other']) == 2)
        I.assume(kind(terms['enzyme']) == 3)
        S = clib.mk_container(I, 'S', 'inf', keys, [True] * len(keys))
        for s in keys:
            I.assume(S.amt[s] > 0)
        Y = None
        if form != 'substance':
            ykeys = [terms['solvent']] + ([terms['solute']] if form == 'container-with-solute' else [])
            Y = clib.mk_container(I, 'Y', 'inf', ykeys, [True] * len(ykeys))
            for s in ykeys:
                I.assume(Y.amt[s] > 0)
        c, q = z3.Real('c'), z3.Real('q')
        I.assume(c > 0)
        allkeys = list(dict.fromkeys(keys + [terms['solvent']]))
        return S, Y, terms, keys, allkeys, c, q

    def invoke(self, I, st, case):
        S, Y, terms, keys, allkeys, c, q = st
        form, (nb, db), qu, srcmix = case
        solvent = SubV(terms['solvent']) if Y is None else Y.obj
        return vc.call(I, self.FN, [S.obj, SubV(terms['solute']), SegStr([NumHole(c), ' ', f'{nb}/{db}']), solvent,
                                    SegStr([NumHole(q), ' ', qu]), NameV(z3.Const('newname', Name))])

    def emit(self, I, out, st, case, finite=None):
        S, Y, terms, keys, allkeys, c, q = st
        form, (nb, db), qu, srcmix = case
        solute, solvent = terms['solute'], terms['solvent']
        fin = {'keys': allkeys}
        p, qb = spec.split_unit(qu)
        qbase = q * spec.num(spec.SI[p])
        frame_ob(I)
        if out.kind == 'return':
            rs = out.value
            src2, sol = rs[0], rs[-1]
            y2 = rs[1] if len(rs) == 3 else None
            # (an argument handed back untouched when nothing is drawn from it is fine: `frame` forbids any write)
            I.oblige('fresh', bool(sol.fresh), 'property', note='the new solution is a new object')
            sol_amt = {s: amt_of(sol, s)[0] for s in allkeys}
            src_amt = {s: amt_of(src2, s)[0] for s in allkeys}
            tol = z3.RealVal('1/1000000')
            tot = clib.finite_measure(I, BASE_WS[qb], allkeys, sol_amt)
            I.oblige('ensures[total]', z3.And(tot <= qbase * (1 + tol), tot >= qbase * (1 - tol)), 'property',
                     note=f'total {qb} of the new solution equals the requested quantity')
            n1, d1 = conc_of(I, sol_amt, allkeys, solute, nb, db)
            I.oblige('ensures[conc]', z3.And(n1 <= c * d1 * (1 + tol), n1 >= c * d1 * (1 - tol)), 'property',
                     note=f'concentration of the solute in {nb}/{db} equals the target')
            # a result is only returned for a REACHABLE target: between the concentration of the diluent (0 for a pure
            # solvent) and that of the stock — anything else must have been refused (C03)
            nS, dS = conc_of(I, {s: S.amt.get(s, z3.RealVal(0)) for s in allkeys}, allkeys, solute, nb, db)
            le_S, ge_S = c * dS <= nS * (1 + tol), c * dS * (1 + tol) >= nS
            if Y is None:
                reach = [le_S]
            else:
                nY, dY = conc_of(I, {s: Y.amt.get(s, z3.RealVal(0)) for s in allkeys}, allkeys, solute, nb, db)
                le_Y, ge_Y = c * dY <= nY * (1 + tol), c * dY * (1 + tol) >= nY
                # between the two concentrations, whichever is the larger
                reach = [z3.Or(z3.And(le_S, ge_Y), z3.And(le_Y, ge_S))]
            I.oblige('raises[refuse-unreachable]', z3.And(*reach), 'property',
                     note='a target above the stock\'s concentration (or below the diluent\'s) returned a result instead of ValueError')
            # conservation: residuals + solution = inputs + added pure solvent
            cons = []
            for s in allkeys:
                before = S.amt.get(s, z3.RealVal(0)) + (Y.amt.get(s, z3.RealVal(0)) if Y is not None else 0)
                after = src_amt[s] + sol_amt[s] + (amt_of(y2, s)[0] if y2 is not None else 0)
                if s.eq(solvent) and Y is None:
                    cons.append(after >= before)        # pure solvent is added
                else:
                    cons.append(after == before)
            I.oblige('ensures[conservation]', z3.And(*cons), 'property',
                     note='residuals + solution = inputs (+ added pure solvent)')
            # composition: the part taken from the source is a uniform aliquot of it
            # uniform remainder, quantifier-free: cross-multiplied proportions and no increase
            comp = z3.And(*[src_amt[a] * S.amt[b] == src_amt[b] * S.amt[a] for a, b in itertools.combinations(keys, 2)],
                          *[z3.And(src_amt[a] >= 0, src_amt[a] <= S.amt[a]) for a in keys])
            I.oblige('ensures[composition]', comp, 'property', note='the residual source is a uniform remainder of the source')
            for obj_, nm in ((src2, 'source'), (sol, 'solution')):
                for name, g in wf_clauses(I, obj_, fin, None).items():
                    I.oblige(name.replace(']', f'/{nm}]'), g, 'property')
        else:
            ex = out.exc
            if exc_is(ex.cls, 'ValueError') and (not ex.implicit or ex.cls == 'LinAlgError'):
                I.oblige('raises[refuse]', True, 'aux')
            else:
                I.oblige(f'safe[{ex.cls}]', False, 'property', note=f'{ex.cls} at line {ex.lineno}')

    def inputs(self, I, st, case, fin):
        S, Y, terms, keys, allkeys, c, q = st
        d = {'c': c, 'q': q}
        d.update(clib.sub_inputs(allkeys))
        for s in keys:
            d[f'S_{s}'] = S.amt[s]
        if Y is not None:
            for s in Y.amt:
                d[f'Y_{s}'] = Y.amt[s]
        return d

    def prefs(self, I, st, case, fin):
        S, Y, terms, keys, allkeys, c, q = st
        amts = [S.amt[s] for s in keys] + ([Y.amt[s] for s in Y.amt] if Y is not None else [])
        return clib.nice_model_prefs(allkeys, amts, [c, q])

    def replay(self, mv, st, case, fin, clause):
        S, Y, terms, keys, allkeys, c, q = st
        try:
            inputs = {'subs': clib.model_subs(mv, allkeys),
                      'S': {'contents': {str(s): str(mv[f'S_{s}']) for s in keys}, 'cap': None},
                      'Y': None if Y is None else {'contents': {str(s): str(mv[f'Y_{s}']) for s in Y.amt}, 'cap': None},
                      'c': str(mv['c']), 'q': str(mv['q']), 'cunit': f'{case[1][0]}/{case[1][1]}', 'qunit': case[2],
                      'clause': clause}
        except (KeyError, TypeError, ValueError):
            return []
        code = (clib.REPLAY_HEAD.replace('{inputs!r}', repr(json.dumps(inputs))) + clib.MK_CONTAINERS +
                "def run():\n"
                "    subs = {k: mk_sub(d, 'sub_' + k) for k, d in J['subs'].items()}\n"
                "    S = mk_container(J['S'], subs, 'S')\n"
                "    Y = mk_container(J['Y'], subs, 'Y') if J['Y'] else subs['solvent']\n"
                "    from contracts.solution_oracle import judge_create_from\n"
                "    return judge_create_from(S, subs['solute'], '%r %s' % (float(F(J['c'])), J['cunit']), Y, '%r %s' % (float(F(J['q'])), J['qunit']))\n")
        return [{'inputs': inputs, 'code': code}]


def _cf_must_accept(self, case):
    form, (nb, db), qu, srcmix = case
    if srcmix != 'binary' or form != 'substance':
        return []
    code = ("from pyplate import Substance, Container\n"
            "from contracts.solution_oracle import judge_create_from\n"
            "def run():\n"
            "    w = Substance.liquid('water', 18.0153, 1); salt = Substance.solid('NaCl', 58.4428)\n"
            "    stock = Container.create_solution(salt, w, concentration='1 M', total_quantity='100 mL')\n"
            f"    half = '%r {nb}/{db}' % (0.5 * __import__('contracts.solution_oracle', fromlist=['conc']).conc(stock, salt, {nb!r}, {db!r}))\n"
            f"    q = {{'L': '0.005 L', 'mL': '5 mL', 'g': '5 g', 'mg': '5000 mg', 'mol': '0.2 mol', 'mmol': '200 mmol'}}[{qu!r}]\n"
            "    r = judge_create_from(stock, salt, half, w, q)\n"
            "    if r['observed'] and str(r['observed']).startswith('ValueError'):\n"
            "        r['ok'] = False; r['failed'] = ['a plainly feasible request is refused: ' + str(r['observed'])]\n"
            "    return r\n")
    return [{'inputs': {'scenario': f'half the concentration of a 1 M NaCl stock, {qu} quantity'}, 'code': code}]


CreateFromOp.must_accept = _cf_must_accept
OPS['create_from'] = CreateFromOp()


# ================================================================================================ modular callee contracts
# In the exact (explicit key set) runs of create_solution_from / create_solution the container operations underneath are
# used through their verified contracts instead of being inlined: Container._transfer by its `uniform` / `refuse` /
# `cap` / `vol` clauses (container_transfer.py, proved for contents of arbitrary size) and Container.__init__ by its
# `contents` / `vol` / `refuse` clauses (container_ops.InitOp).  This removes the instruction-text forks and keeps the
# terms small.
def _parse_q(I, quantity):
    if isinstance(quantity, SegStr) and len(quantity.parts) == 3 and isinstance(quantity.parts[0], NumHole) \
            and quantity.parts[1] == ' ' and isinstance(quantity.parts[2], str):
        return real(quantity.parts[0].value), quantity.parts[2]
    if isinstance(quantity, SegStr) and len(quantity.parts) == 2 and isinstance(quantity.parts[0], NumHole) \
            and isinstance(quantity.parts[1], str) and quantity.parts[1].startswith(' ') and ' ' not in quantity.parts[1][1:]:
        return real(quantity.parts[0].value), quantity.parts[1][1:]
    if isinstance(quantity, str):
        v, u = quantity.split(' ')
        from pyvc.strings import parse_float_text
        return parse_float_text(v), u
    # a quantity built from a *displayed* value (rounded to a display precision / rescaled to a human-readable unit)
    # must never drive a state-changing operation: the amounts would depend on the display precision
    def displayish(x):
        if isinstance(x, OpaqueHole) and 'alternative' in str(x.what):
            return True
        if isinstance(x, NumHole) and is_sym(x.value) and any(str(c).startswith(('hr!', 'sf!', 'rnd!', 'rnd('))
                                                                for c in _consts(x.value)):
            return True
        return False
    parts = quantity.parts if isinstance(quantity, SegStr) else ([quantity.a, quantity.b] if isinstance(quantity, IteV) else [])
    flat = []
    for p_ in parts:
        flat += p_.parts if isinstance(p_, SegStr) else [p_]
    if any(displayish(x) for x in flat):
        I.oblige('display-value-feeds-state', False, 'property',
                 note='a quantity rounded/rescaled for display is handed to a state-changing container operation')
    raise Unsupported(f"quantity {quantity!r} for a modular container call")


def _consts(term):
    from pyvc.loops import consts_of
    out = list(consts_of(term))
    stack = [term]
    while stack:
        t = stack.pop()
        if z3.is_app(t) and t.decl().name() == 'rnd':
            out.append(z3.Const('rnd(', RS))
        stack.extend(t.children())
    return out


def _dict_amounts(c):
    m = c.fields['contents']
    if not isinstance(m, dict):
        raise Unsupported("modular exact contract on a symbolic map")
    return m


def _vol_L(I, contents):
    ms = clib.ms_of(I)
    t = z3.RealVal(0)
    for k, a in contents.items():
        t = t + symcoll.weight('vol', k.term, ms) * real(a)
    return t


def _measure(I, contents, base):
    ms = clib.ms_of(I)
    t = z3.RealVal(0)
    for k, a in contents.items():
        t = t + symcoll.weight(BASE_WS[base], k.term, ms) * real(a)
    return t


def mod_transfer(I, args, kwargs, node):
    dest, source, quantity = args
    ln = getattr(node, 'lineno', None)
    if not (isinstance(source, Obj) and source.cls.name == 'Container'):
        raise Raised('TypeError', ln, 'Invalid source type.')
    if source is dest:
        raise Raised('ValueError', ln, 'self transfer')
    q, unit = _parse_q(I, quantity)
    p, b = spec.split_unit(unit)
    qbase = real(q) * spec.num(spec.SI[p])
    S, T = _dict_amounts(source), _dict_amounts(dest)
    mS = _measure(I, S, b)
    vs = spec.num(clib.vs_of(I))
    if I.decide(z3.Or(qbase < 0, qbase > mS), 'transfer refused (negative / more than the source holds)'):
        raise Raised('ValueError', ln, 'refused by Container._transfer contract')
    if I.decide(mS == 0, 'empty source'):
        r = z3.RealVal(0)
    else:
        r = qbase / mS
    new_T = dict(T)
    for k, a in S.items():
        from pyvc.builtins_ import dict_find
        kk = dict_find(I, new_T, k)
        new_T[kk if kk is not None else k] = real(new_T[kk]) + r * real(a) if kk is not None else r * real(a)
    new_S = {k: (1 - r) * real(a) for k, a in S.items()}
    volT = _vol_L(I, new_T)
    cap = dest.fields['max_volume']
    if not (isinstance(cap, float)):
        if I.decide(volT > real(cap) * vs, 'destination overflows'):
            raise Raised('ValueError', ln, 'refused by Container._transfer contract (capacity)')
    s2, t2 = I.new_obj('Container', tag=(source.tag or '') + "'"), I.new_obj('Container', tag=(dest.tag or '') + "'")
    for o, like, cont, vol in ((s2, source, new_S, _vol_L(I, new_S)), (t2, dest, new_T, volT)):
        o.fields.update(name=like.fields['name'], contents=cont, volume=vol / vs, max_volume=like.fields['max_volume'],
                        instructions=SegStr([OpaqueHole('instructions')]), experimental_conditions={})
    return (s2, t2)


def mod_init(I, args, kwargs, node):
    self = args[0]
    ln = getattr(node, 'lineno', None)
    name = args[1] if len(args) > 1 else kwargs.get('name')
    maxv = args[2] if len(args) > 2 else kwargs.get('max_volume', 'inf L')
    ic = args[3] if len(args) > 3 else kwargs.get('initial_contents')
    vs, ms = spec.num(clib.vs_of(I)), spec.num(clib.ms_of(I))
    if isinstance(maxv, str) and maxv == 'inf L':
        cap = INF
    else:
        v, u = _parse_q(I, maxv)
        p, b = spec.split_unit(u)
        if I.decide(real(v) <= 0, 'non-positive capacity'):
            raise Raised('ValueError', ln, 'Maximum volume must be positive.')
        cap = real(v) * spec.num(spec.SI[p]) / vs
    contents = {}
    for entry in (ic or []):
        sub, qty = entry
        v, u = _parse_q(I, qty)
        t = sub.term
        Ssp = spec.SubSpec(kind(t), mw(t), dens(t), sa(t))
        p, b = spec.split_unit(u)
        if I.decide(real(v) < 0, 'negative initial quantity'):
            raise Raised('ValueError', ln, 'Quantity must not be negative.')
        add = z3.If(kind(t) == 3, spec.convert_spec(spec.SubSpec(3, mw(t), dens(t), sa(t)), real(v), u, 'U'),
                    spec.convert_spec(spec.SubSpec(1, mw(t), dens(t), sa(t)), real(v), u, 'mol') / ms)
        from pyvc.builtins_ import dict_find
        kk = dict_find(I, contents, sub)
        contents[kk if kk is not None else sub] = (real(contents[kk]) + add) if kk is not None else add
        if not isinstance(cap, float):
            if I.decide(_vol_L(I, contents) > cap * vs, 'initial contents overflow'):
                raise Raised('ValueError', ln, 'Exceeded maximum volume')
    self.fields.update(name=name, contents=contents, volume=_vol_L(I, contents) / vs, max_volume=cap,
                       instructions=SegStr([OpaqueHole('instructions')]), experimental_conditions={})
    return None


def exact_contracts():
    c = clib.contracts()
    c['Container._transfer'] = mod_transfer
    c['Container.__init__'] = mod_init
    return c


# ================================================================================================ create_solution (C05)
class CreateSolutionOp(clib.Op):
    """Container.create_solution(solute(s), solvent, name, two of concentration / quantity / total_quantity).
    case = (kinds of the solutes, given, (num, den), quantity unit, total unit, solvent form)"""
    FN = 'Container.create_solution'
    PROPS_OF = {'display-value-feeds-state': ['C05', 'C19', 'C03'], 'only-named': ['C05'], 'positive': ['C05'], 'conc': ['C05'], 'qty': ['C05'], 'total': ['C05'],
                'refuse': ['C05', 'C03'], 'accept': ['C05', 'C03'], 'aliquot': ['C05'], 'nothing-lost': ['C05'],
                'nonneg': ['C03'], 'vol': ['C10'], 'frame': ['C04'], 'fresh': ['C04'], 'safe': ['C03', 'C05']}
    TIMEOUT = 20000
    MAX_PATHS = 600
    MODULAR_CALLEES = True

    def cases(self, tier):
        out = []
        givens = [('c', 't'), ('c', 'q'), ('q', 't')]
        for k in (1, 2, 3):
            cpairs = [('U', 'L'), ('U', 'g')] if k == 3 else [('mol', 'L'), ('g', 'g'), ('g', 'L'), ('mol', 'mol'), ('mol', 'g')]
            if tier == 'thorough' and k != 3:
                cpairs = PAIRS
            qunit = 'U' if k == 3 else ('mL' if k == 2 else 'g')
            for given in givens:
                for pair in (cpairs if 'c' in given else [cpairs[0]]):
                    for tunit in (('mL', 'g', 'mol') if 't' in given else ('-',)):
                        if tier != 'thorough' and tunit == 'mol' and pair != cpairs[0]:
                            continue
                        out.append(((k,), given, pair, qunit, tunit, 'substance'))
        # two solutes (bounded: n <= 2 in quick, one 3-solute case in thorough)
        out.append(((1, 2), ('c', 't'), ('mol', 'L'), 'g', 'mL', 'substance'))
        out.append(((1, 1), ('q', 't'), ('mol', 'L'), 'g', 'g', 'substance'))
        out.append(((1, 3), ('c', 't'), ('g', 'L'), 'g', 'mL', 'substance'))
        # one concentration unit PER solute, with different denominators (each solute is measured against its own)
        out.append(((1, 2), ('c', 't'), (('mol', 'L'), ('g', 'g')), 'g', 'mL', 'substance'))
        out.append(((1, 1), ('c', 't'), (('g', 'g'), ('mol', 'L')), 'g', 'g', 'substance'))
        out.append(((1, 3), ('c', 't'), (('mol', 'g'), ('U', 'L')), 'g', 'mL', 'substance'))
        if tier == 'thorough':
            out.append(((1, 2), ('c', 'q'), ('g', 'L'), 'g', '-', 'substance'))
            out.append(((1, 2, 1), ('q', 't'), ('mol', 'L'), 'g', 'mL', 'substance'))
        # a container as solvent
        out.append(((1,), ('c', 't'), ('mol', 'L'), 'g', 'mL', 'container'))
        out.append(((1,), ('c', 't'), ('g', 'g'), 'g', 'g', 'container'))
        out.append(((1,), ('q', 't'), ('mol', 'L'), 'g', 'mL', 'container2'))
        out.append(((1,), ('c', 't'), ('g', 'g'), 'g', 'g', 'container2e'))
        out.append(((1,), ('c', 't'), ('mol', 'L'), 'g', 'mL', 'container2e'))
        # concentration AND quantity for every solute (the quantity rows outside the solve are checked by the residual test)
        out.append(((1, 1), ('c', 'q'), ('mol', 'L'), 'g', '-', 'substance'))
        out.append(((1, 1, 1), ('c', 'q'), ('mol', 'L'), 'g', '-', 'substance'))     # two redundant rows: residuals must not cancel
        return out

    def setup(self, I, case, finite=None):
        kinds, given, pair_, qunit, tunit, form = case
        cps = pairs_of(pair_, len(kinds))
        clib.assume_world(I)
        n = len(kinds)
        solutes = [z3.Const(f'solute{i}', Sub) for i in range(n)]
        solvent = z3.Const('solvent', Sub)
        other = z3.Const('other', Sub)
        assume_distinct(I, solutes + [solvent, other])
        for s, k in zip(solutes, kinds):
            I.assume(kind(s) == k)
        I.assume(kind(solvent) == 2)
        I.assume(kind(other) == (3 if form == 'container2e' else 2))      # container2e: an enzyme rides along in the solvent container
        Y = None
        if form.startswith('container'):
            ykeys = [solvent] + ([other] if form in ('container2', 'container2e') else [])
            Y = clib.mk_container(I, 'Y', 'inf', ykeys, [True] * len(ykeys))
            for s in ykeys:
                I.assume(Y.amt[s] > 0)
        cs = [z3.Real(f'c{i}') for i in range(n)]
        qs = [z3.Real(f'q{i}') for i in range(n)]
        T = z3.Real('T')
        for v in cs + qs + [T]:
            I.assume(v > 0)
        return solutes, solvent, other, Y, cs, qs, T

    def invoke(self, I, st, case):
        kinds, given, pair_, qunit, tunit, form = case
        cps = pairs_of(pair_, len(kinds))
        solutes, solvent, other, Y, cs, qs, T = st
        n = len(kinds)
        kwargs = {}
        if 'c' in given:
            vals = [SegStr([NumHole(c), ' ', f'{nb}/{db}']) for c, (nb, db) in zip(cs, cps)]
            kwargs['concentration'] = vals[0] if n == 1 else vals
        if 'q' in given:
            vals = []
            for q, k in zip(qs, kinds):
                u = 'U' if k == 3 else qunit if qunit != 'U' else 'g'
                vals.append(SegStr([NumHole(q), ' ', u]))
            kwargs['quantity'] = vals[0] if n == 1 else vals
        if 't' in given:
            kwargs['total_quantity'] = SegStr([NumHole(T), ' ', tunit])
        sol_arg = SubV(solutes[0]) if n == 1 else [SubV(s) for s in solutes]
        solv_arg = SubV(solvent) if Y is None else Y.obj
        return vc.call(I, self.FN, [sol_arg, solv_arg, NameV(z3.Const('newname', Name))], kwargs)

    def emit(self, I, out, st, case, finite=None):
        kinds, given, pair_, qunit, tunit, form = case
        cps = pairs_of(pair_, len(kinds))
        solutes, solvent, other, Y, cs, qs, T = st
        n = len(kinds)
        allkeys = solutes + [solvent] + ([other] if form in ('container2', 'container2e') else [])
        fin = {'keys': allkeys}
        ms = spec.num(clib.ms_of(I))
        frame_ob(I)
        tol = z3.RealVal('1/1000000')
        if out.kind == 'return':
            if Y is None:
                R, resid = out.value, None
            else:
                resid, R = out.value
            I.oblige('fresh', bool(R.fresh), 'property')
            cont = R.fields['contents']
            keys_ok = isinstance(cont, dict) and {str(k.term) for k in cont} == {str(s) for s in allkeys}
            I.oblige('ensures[only-named]', bool(keys_ok), 'property',
                     note=f"contents keys {[str(k.term) for k in cont] if isinstance(cont, dict) else cont}")
            amt = {s: amt_of(R, s)[0] for s in allkeys}
            I.oblige('ensures[positive]', z3.And(*[amt[s] > 0 for s in solutes + [solvent]]), 'property',
                     note='every named solute and the solvent are present in positive amounts')
            if 'c' in given:
                for i, s in enumerate(solutes):
                    nb, db = cps[i]
                    n1, d1 = conc_of(I, amt, allkeys, s, nb, db)
                    I.oblige(f'ensures[conc/{i}]', z3.And(n1 <= cs[i] * d1 * (1 + tol), n1 >= cs[i] * d1 * (1 - tol)),
                             'property', note=f'concentration of solute {i} in {nb}/{db}')
            if 'q' in given:
                for i, (s, k) in enumerate(zip(solutes, kinds)):
                    u = 'U' if k == 3 else qunit if qunit != 'U' else 'g'
                    p, b = spec.split_unit(u)
                    S_ = spec.SubSpec(k, mw(s), dens(s), sa(s))
                    have = amt[s] * (1 if k == 3 else ms) * spec.num(spec.factor(S_, 'U' if k == 3 else 'mol', b))
                    want = qs[i] * spec.num(spec.SI[p])
                    slack = tol * want + (z3.RealVal('1/1000000') if (n > 1 and given == ('c', 'q')) else 0)
                    I.oblige(f'ensures[qty/{i}]', z3.And(have <= want + slack, have >= want - slack), 'property',
                             note=f'quantity of solute {i} in {u}')
            if 't' in given:
                p, b = spec.split_unit(tunit)
                tot = clib.finite_measure(I, BASE_WS[b], allkeys, amt)
                want = T * spec.num(spec.SI[p])
                I.oblige('ensures[total]', z3.And(tot <= want * (1 + tol), tot >= want * (1 - tol)), 'property',
                         note=f'total {b} of the solution')
            for name, g in wf_clauses(I, R, fin, None).items():
                I.oblige(name, g, 'property')
            if Y is not None:
                ykeys = list(Y.amt)
                ramt = {s: amt_of(resid, s)[0] for s in allkeys}
                # the solvent portion is a uniform aliquot of the solvent container and nothing is lost
                I.oblige('ensures[nothing-lost]', z3.And(*[ramt[s] + amt[s] == Y.amt.get(s, z3.RealVal(0)) for s in ykeys]),
                         'property', note='residual solvent container + solution = solvent container (per substance)')
                I.oblige('ensures[aliquot]', z3.And(*[ramt[a] * Y.amt[b] == ramt[b] * Y.amt[a]
                                                      for a, b in itertools.combinations(ykeys, 2)],
                                                    *[z3.And(ramt[a] >= 0, ramt[a] <= Y.amt[a]) for a in ykeys]), 'property',
                         note='the depleted container is a uniform remainder')
        else:
            ex = out.exc
            if exc_is(ex.cls, 'ValueError') and (not ex.implicit or ex.cls == 'LinAlgError'):
                I.oblige('raises[refuse]', True, 'aux')
            else:
                I.oblige(f'safe[{ex.cls}]', False, 'property', note=f'{ex.cls} at line {ex.lineno}')

    def inputs(self, I, st, case, fin):
        solutes, solvent, other, Y, cs, qs, T = st
        d = {'T': T}
        for i, (c, q) in enumerate(zip(cs, qs)):
            d[f'c{i}'] = c
            d[f'q{i}'] = q
        d.update(clib.sub_inputs(solutes + [solvent, other]))
        if Y is not None:
            for s in Y.amt:
                d[f'Y_{s}'] = Y.amt[s]
        return d

    def prefs(self, I, st, case, fin):
        solutes, solvent, other, Y, cs, qs, T = st
        return clib.nice_model_prefs(solutes + [solvent, other], ([Y.amt[s] for s in Y.amt] if Y is not None else []),
                                     cs + qs + [T])

    def replay(self, mv, st, case, fin, clause):
        kinds, given, pair_, qunit, tunit, form = case
        cps = pairs_of(pair_, len(kinds))
        solutes, solvent, other, Y, cs, qs, T = st
        try:
            inputs = {'subs': clib.model_subs(mv, solutes + [solvent, other]), 'n': len(kinds), 'kinds': list(kinds),
                      'given': list(given), 'cunit': f'{cps[0][0]}/{cps[0][1]}', 'cunits': [f'{a}/{b}' for a, b in cps], 'qunit': qunit, 'tunit': tunit,
                      'c': [str(mv[f'c{i}']) for i in range(len(kinds))], 'q': [str(mv[f'q{i}']) for i in range(len(kinds))],
                      'T': str(mv['T']), 'Y': None if Y is None else {'contents': {str(s): str(mv[f'Y_{s}']) for s in Y.amt}, 'cap': None},
                      'clause': clause}
        except (KeyError, TypeError, ValueError):
            return []
        code = (clib.REPLAY_HEAD.replace('{inputs!r}', repr(json.dumps(inputs))) + clib.MK_CONTAINERS +
                "def run():\n"
                "    subs = {k: mk_sub(d, 'sub_' + k) for k, d in J['subs'].items()}\n"
                "    from contracts.solution_oracle import judge_create_solution\n"
                "    return judge_create_solution(J, subs, mk_container)\n")
        return [{'inputs': inputs, 'code': code}]

    def must_accept(self, case):
        return []


def pairs_of(pair, n):
    """concentration unit (numerator, denominator) of every solute: one pair for all, or one pair per solute"""
    if pair and isinstance(pair[0], tuple):
        assert len(pair) == n
        return list(pair)
    return [tuple(pair)] * n


OPS['create_solution'] = CreateSolutionOp()
