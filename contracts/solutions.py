"""Contracts of the operations built on the linear systems: Container.dilute (C11), Container.create_solution_from
(C12) and Container.create_solution (C05).  Mixtures are explicit key sets (1..3 substances): each configuration is a
complete proof over all amounts and physical constants (QF_NRA); bounded in the number of substances."""
import itertools
import json

import z3

from pyvc import vc, spec
from pyvc.values import *   # noqa: F401,F403
from pyvc import symcoll
from contracts import clib
from contracts.clib import BASE_WS
from contracts.container_ops import amt_of, frame_ob, wf_clauses, assume_distinct, KINDS

PAIRS = [('mol', 'L'), ('mol', 'g'), ('mol', 'mol'), ('g', 'L'), ('g', 'g'), ('g', 'mol'), ('L', 'L'), ('L', 'g'),
         ('L', 'mol')]


def conc_of(I, amounts, keys, solute, nb, db):
    """concentration of `solute` (numerator unit nb per denominator unit db) in a mixture {key: stored amount}."""
    ms = spec.num(clib.ms_of(I))
    S = spec.SubSpec(kind(solute), mw(solute), dens(solute), sa(solute))
    numer = amounts[solute] * z3.If(kind(solute) == 3, spec.num(spec.factor(spec.SubSpec(3, mw(solute), dens(solute), sa(solute)), 'U', nb)),
                                    ms * spec.num(spec.factor(spec.SubSpec(1, mw(solute), dens(solute), sa(solute)), 'mol', nb)))
    denom = clib.finite_measure(I, BASE_WS[db], keys, amounts)
    return numer, denom


class DiluteOp(clib.Op):
    """Container.dilute(solute, 'c num/den', solvent).  case = (solute kind, (num, den), mixture, cap)"""
    FN = 'Container.dilute'
    PROPS_OF = {'target': ['C11'], 'only-solvent': ['C11'], 'cap': ['C11', 'C03'], 'refuse': ['C11', 'C03'],
                'accept': ['C11', 'C03'], 'nonneg': ['C03'], 'vol': ['C10'], 'frame': ['C04'], 'fresh': ['C04'],
                'safe': ['C03', 'C11']}
    MIXTURES = {'binary': ('solute', 'solvent'), 'solute-only': ('solute',), 'ternary': ('solute', 'solvent', 'other'),
                'with-enzyme': ('solute', 'solvent', 'enzyme')}
    TIMEOUT = 40000

    def cases(self, tier):
        out = []
        if tier != 'thorough':
            # quick: representative unit pairs; the full 2 x 9 x 5 table is the thorough tier
            for pair in (('mol', 'L'), ('g', 'g'), ('mol', 'mol'), ('L', 'g')):
                for mix in ('binary', 'ternary', 'with-enzyme'):
                    out.append((1, pair, mix, 'inf'))
                out.append((2, pair, 'binary', 'inf'))
            out.append((1, ('g', 'L'), 'solute-only', 'inf'))
            out.append((1, ('mol', 'L'), 'binary', 'finite'))
            return out
        for k in (1, 2):
            for pair in PAIRS:
                for mix in self.MIXTURES:
                    out.append((k, pair, mix, 'inf'))
                out.append((k, pair, 'binary', 'finite'))
        return out

    def setup(self, I, case, finite=None):
        k, (nb, db), mix, cap = case
        clib.assume_world(I)
        names = self.MIXTURES[mix]
        terms = {n: z3.Const(n, Sub) for n in ('solute', 'solvent', 'other', 'enzyme')}
        keys = [terms[n] for n in names]
        assume_distinct(I, [terms['solute'], terms['solvent']] + [terms[n] for n in names if n not in ('solute', 'solvent')])
        I.assume(kind(terms['solute']) == k)
        I.assume(z3.Or(kind(terms['solvent']) == 1, kind(terms['solvent']) == 2))
        if 'other' in names:
            I.assume(z3.Or(kind(terms['other']) == 1, kind(terms['other']) == 2))
        if 'enzyme' in names:
            I.assume(kind(terms['enzyme']) == 3)
        C = clib.mk_container(I, 'C', cap, keys, [True] * len(keys))
        for s in keys:
            I.assume(C.amt[s] > 0)
        allkeys = keys if terms['solvent'] in keys else keys + [terms['solvent']]
        amounts = {s: C.amt.get(s, z3.RealVal(0)) for s in allkeys}
        c = z3.Real('c')
        I.assume(c > 0)
        return C, terms, keys, allkeys, amounts, c

    def invoke(self, I, st, case):
        C, terms, keys, allkeys, amounts, c = st
        nb, db = case[1]
        return vc.call(I, self.FN, [C.obj, SubV(terms['solute']), SegStr([NumHole(c), ' ', f'{nb}/{db}']), SubV(terms['solvent'])])

    def emit(self, I, out, st, case, finite=None):
        k, (nb, db), mix, cap = case
        C, terms, keys, allkeys, amounts, c = st
        solute, solvent = terms['solute'], terms['solvent']
        vs = spec.num(clib.vs_of(I))
        fin = {'keys': allkeys}
        frame_ob(I)
        n0, d0 = conc_of(I, amounts, allkeys, solute, nb, db)
        cur_gt = n0 > c * d0            # current concentration above the target (dilution possible)
        cur_eq = n0 == c * d0
        if out.kind == 'return':
            r = out.value
            I.oblige('fresh', bool(r.fresh and r is not C.obj), 'property')
            res_amt = {s: amt_of(r, s)[0] for s in allkeys}
            n1, d1 = conc_of(I, res_amt, allkeys, solute, nb, db)
            tol = z3.RealVal('2/1000000')
            # the library treats concentrations within a relative 1e-6 as equal (and then returns the container as is)
            I.oblige('raises[refuse-higher]', n0 * (1 + tol) >= c * d0, 'property',
                     note='a target concentration above the current one must be refused')
            I.oblige('ensures[target]', z3.And(n1 <= c * d1 * (1 + tol), n1 >= c * d1 * (1 - tol)), 'property',
                     note=f"concentration of the solute in {nb}/{db} equals the target")
            I.oblige('ensures[only-solvent]', z3.And(*[res_amt[s] == amounts[s] for s in allkeys if not s.eq(solvent)],
                                                     res_amt[solvent] >= amounts[solvent]), 'property')
            for name, g in wf_clauses(I, r, fin, None if cap == 'inf' else C.cap).items():
                I.oblige(name, g, 'property')
        else:
            ex = out.exc
            if ex.cls == 'ValueError' and not ex.implicit:
                if cap == 'inf':
                    I.oblige('raises[accept]', z3.Not(n0 >= c * d0), 'property',
                             note=f'ValueError at line {ex.lineno} although the target is at or below the current concentration')
                else:
                    I.oblige('raises[accept]', True, 'aux')    # capacity-dependent: decided by `target`/`cap` on the returning side
            else:
                # an unreachable target must surface as ValueError, nothing else
                I.oblige(f'safe[{ex.cls}]', False, 'property', note=f'{ex.cls} at line {ex.lineno}')

    def finite_configs(self, case, nmax):
        yield {'keys': None}

    def inputs(self, I, st, case, fin):
        C, terms, keys, allkeys, amounts, c = st
        d = {'c': c}
        d.update(clib.sub_inputs(allkeys))
        for s in keys:
            d[f'C_{s}'] = C.amt[s]
        if case[3] != 'inf':
            d['capC'] = C.cap
        return d

    def prefs(self, I, st, case, fin):
        C, terms, keys, allkeys, amounts, c = st
        return clib.nice_model_prefs(allkeys, [C.amt[s] for s in keys], [c] + ([C.cap] if case[3] != 'inf' else []))

    def replay(self, mv, st, case, fin, clause):
        C, terms, keys, allkeys, amounts, c = st
        try:
            inputs = {'subs': clib.model_subs(mv, allkeys),
                      'C': {'contents': {str(s): str(mv[f'C_{s}']) for s in keys},
                            'cap': None if case[3] == 'inf' else str(mv['capC'])},
                      'c': str(mv['c']), 'unit': f'{case[1][0]}/{case[1][1]}', 'clause': clause}
        except (KeyError, TypeError, ValueError):
            return []
        code = (clib.REPLAY_HEAD.replace('{inputs!r}', repr(json.dumps(inputs))) + clib.MK_CONTAINERS +
                "def run():\n"
                "    subs = {k: mk_sub(d, 'sub_' + k) for k, d in J['subs'].items()}\n"
                "    C = mk_container(J['C'], subs, 'C')\n"
                "    from contracts.solution_oracle import judge_dilute\n"
                "    return judge_dilute(C, subs['solute'], '%r %s' % (float(F(J['c'])), J['unit']), subs['solvent'])\n")
        return [{'inputs': inputs, 'code': code}]


OPS = {'dilute': DiluteOp()}


def run(opname, pid, case):
    """For these operations the main run already uses explicit key sets: it is exact, so refutations found there are
    concrete (no separate finite search needed)."""
    op = OPS[opname]
    case = tuple(tuple(x) if isinstance(x, list) else x for x in case)
    return run_exact(op, pid, case)


def run_exact(op, pid, case):
    cname = op.case_name(case)
    ctr = clib.contracts()
    pre = f'{op.FN}/'
    res = []

    def body(I):
        st = op.setup(I, case)
        I.oblige('cover', True, 'cover')
        out = op.invoke(I, st, case)
        op.emit(I, out, st, case)
        I.obls = [ob for ob in I.obls if ob.kind in ('aux', 'cover') or op.serves(ob.name, pid)]
        I.__dict__['_st'] = st
        return out
    for I, out in vc.explore(body, contracts=ctr, max_paths=op.MAX_PATHS):
        if isinstance(out, vc.Outcome) and out.kind == 'unsupported':
            res.append(vc.unsupported_result(f'{pre}unsupported', cname, out.note))
            continue
        st = I.__dict__.get('_st')
        if st is None:
            continue
        inputs = op.inputs(I, st, case, None)

        def replay(mv, ob, st=st):
            return op.replay(mv, st, case, None, ob.name)
        rs = vc.discharge(I, pre, cname, op.TIMEOUT, inputs, replay, prefer=op.prefs(I, st, case, None))
        for r in rs:
            if r['verdict'] == 'refuted':
                r['independent'] = True
        res += rs
    res = clib.dedupe(res)
    if pid is not None:
        res = [dict(r, name=f'{pid}/' + r['name']) for r in res]
    return res
