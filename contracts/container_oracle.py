"""Replay-side oracle for container operations: the contract clauses of C01/C02/C03/C04/C10/C11/C17 evaluated on the
real objects returned by the real code (floats, relative tolerance 1e-9 standing in for A1/A2).
Runs under the repository's interpreter — no z3."""
import copy
import math
from fractions import Fraction as F

from pyvc import spec
from contracts.c14_grammar import quantity_denotation

REL = 1e-7
import pyplate.pyplate as _pp


def ms():
    return float(spec.SI[spec.split_unit(_pp.config.moles_storage_unit)[0]])


def vs():
    return float(spec.SI[spec.split_unit(_pp.config.volume_storage_unit)[0]])


def subspec(s):
    k = s._type
    return spec.SubSpec(k, F(str(s.mol_weight)) if s.mol_weight is not None else None,
                        F(str(s.density)) if s.density is not None and not math.isinf(s.density) else None,
                        F(str(s.specific_activity)) if s.specific_activity is not None else None)


def base_amount(s, stored):
    """stored amount -> (base unit, amount in base unit)"""
    if s.is_enzyme():
        return 'U', stored
    return 'mol', stored * ms()


def measure(c, base):
    """total of container c in base unit: L, g, mol (non-enzymes), U (enzymes)"""
    tot = 0.0
    for s, a in c.contents.items():
        fb, amt = base_amount(s, a)
        tot += amt * float(spec.factor(subspec(s), fb, base))
    return tot


def close(a, b, rel=REL, abs_=1e-9):
    return abs(a - b) <= max(abs_, rel * max(abs(a), abs(b)))


def fingerprint(c):
    return (c.name, tuple(sorted((s.name, v) for s, v in c.contents.items())), c.volume, c.max_volume, c.instructions)


def check_container(c, what, fails):
    for s, v in c.contents.items():
        if v < -1e-9:
            fails.append(f"{what}: negative amount {v} of {s.name}")
    if c.volume < -1e-9:
        fails.append(f"{what}: negative volume {c.volume}")
    if c.volume > c.max_volume * (1 + REL) + 1e-9:
        fails.append(f"{what}: volume {c.volume} exceeds capacity {c.max_volume}")
    if not close(c.volume * vs(), measure(c, 'L')):
        fails.append(f"{what}: cached volume {c.volume * vs()} L != sum of content volumes {measure(c, 'L')} L")


def judge_transfer(S, T, text, J):
    from pyplate import Container
    den = quantity_denotation(text)
    q, base = float(den[0]), den[1]
    fS, fT = fingerprint(S), fingerprint(T)
    mS = measure(S, base)
    volS, volT = measure(S, 'L'), measure(T, 'L')
    capL = T.max_volume * vs()
    alias = S is T
    r = (q / mS) if mS > 0 else 0.0
    feasible = q >= 0 and q <= mS * (1 + REL) + 1e-12 and (volT + r * volS <= capL * (1 + REL) + 1e-12)
    boundary = (mS > 0 and close(q, mS, 1e-6)) or (not math.isinf(capL) and close(volT + r * volS, capL, 1e-6))
    exp = 'accepted' if feasible else 'ValueError'
    try:
        src, to = Container.transfer(S, T, text)
    except ValueError as e:
        ok = (not feasible) or boundary or alias
        fails = [] if ok else [f"refused a feasible request: {e}"]
        if fingerprint(S) != fS or fingerprint(T) != fT:
            fails.append("argument modified by a refused call")
        return {'ok': not fails, 'observed': f'ValueError: {e}', 'expected': exp, 'failed': fails}
    except Exception as e:
        return {'ok': False, 'observed': repr(e), 'expected': exp, 'failed': [f'{type(e).__name__} instead of a result or ValueError']}
    fails = []
    if not feasible and not boundary:
        fails.append(f"accepted an infeasible request (q={q} {base}, source holds {mS} {base}, "
                     f"dest volume {volT}+{r * volS} L vs capacity {capL} L)")
    if fingerprint(S) != fS or fingerprint(T) != fT:
        fails.append("argument modified")
    if src is S or to is T or src is to:
        fails.append("result is not a new object")
    check_container(src, 'source result', fails)
    check_container(to, 'destination result', fails)
    subs = set(S.contents) | set(T.contents) | set(src.contents) | set(to.contents)
    if alias:
        for s in subs:
            if not (close(src.contents.get(s, 0), S.contents.get(s, 0)) and close(to.contents.get(s, 0), S.contents.get(s, 0))):
                fails.append(f"self-transfer changed {s.name}: {S.contents.get(s, 0)} -> {src.contents.get(s, 0)} / {to.contents.get(s, 0)}")
                break
    elif feasible:
        for s in subs:
            a0 = S.contents.get(s, 0) + T.contents.get(s, 0)
            a1 = src.contents.get(s, 0) + to.contents.get(s, 0)
            if not close(a0, a1):
                fails.append(f"{s.name} not conserved: {a0} -> {a1}")
            if not close(src.contents.get(s, 0), (1 - r) * S.contents.get(s, 0)) or \
                    not close(to.contents.get(s, 0), T.contents.get(s, 0) + r * S.contents.get(s, 0)):
                fails.append(f"{s.name} not a uniform aliquot: source {S.contents.get(s, 0)} -> {src.contents.get(s, 0)}, "
                             f"dest {T.contents.get(s, 0)} -> {to.contents.get(s, 0)}, expected fraction {r}")
        if not close(mS - measure(src, base), q) or not close(measure(to, base) - measure(T, base), q):
            fails.append(f"moved {mS - measure(src, base)} / {measure(to, base) - measure(T, base)} {base} instead of {q}")
    return {'ok': not fails, 'observed': {'source': {s.name: v for s, v in src.contents.items()},
                                          'dest': {s.name: v for s, v in to.contents.items()},
                                          'dest_volume': to.volume}, 'expected': exp, 'failed': fails[:5]}


def _call(fn, exp_ok, args_fp):
    """run fn(); returns (result or None, verdict dict or None)"""
    try:
        return fn(), None
    except ValueError as e:
        fails = [] if not exp_ok else [f"refused a feasible request: {e}"]
        for o, fp in args_fp:
            if fingerprint(o) != fp:
                fails.append("argument modified by a refused call")
        return None, {'ok': not fails, 'observed': f'ValueError: {e}', 'expected': 'accepted' if exp_ok else 'ValueError',
                      'failed': fails}
    except Exception as e:
        return None, {'ok': False, 'observed': repr(e), 'expected': 'accepted' if exp_ok else 'ValueError',
                      'failed': [f'{type(e).__name__} instead of a result or ValueError']}


def judge_add(C, sub, text):
    den = quantity_denotation(text)
    q, base = float(den[0]), den[1]
    S = subspec(sub)
    rej = bool(spec.rejects(S, base))
    fp = fingerprint(C)
    add_L = 0.0 if rej else q * float(spec.factor(S, base, 'L'))
    sb = 'U' if sub.is_enzyme() else 'mol'
    add_stored = 0.0 if rej else q * float(spec.factor(S, base, sb)) / (1 if sub.is_enzyme() else ms())
    capL = C.max_volume * vs()
    feasible = (not rej) and q >= 0 and measure(C, 'L') + add_L <= capL * (1 + REL) + 1e-12
    boundary = not math.isinf(capL) and close(measure(C, 'L') + add_L, capL, 1e-6)
    r, verdict = _call(lambda: C._add(sub, text), feasible or boundary, [(C, fp)])
    if verdict:
        if boundary:
            verdict['ok'] = True
        return verdict
    fails = []
    if not feasible and not boundary:
        fails.append(f"accepted an infeasible addition ({text} to {measure(C, 'L')} L of {capL} L)")
    if fingerprint(C) != fp:
        fails.append("argument modified")
    check_container(r, 'result', fails)
    if not rej:
        if not close(r.contents.get(sub, 0), C.contents.get(sub, 0) + add_stored):
            fails.append(f"{sub.name}: {C.contents.get(sub, 0)} -> {r.contents.get(sub, 0)}, expected +{add_stored}")
        for s in set(C.contents) | set(r.contents):
            if s != sub and not close(r.contents.get(s, 0), C.contents.get(s, 0)):
                fails.append(f"bystander {s.name} changed")
    return {'ok': not fails, 'observed': {s.name: v for s, v in r.contents.items()}, 'expected': 'see clauses',
            'failed': fails[:5]}


def judge_remove(C, what):
    fp = fingerprint(C)
    r, verdict = _call(lambda: C.remove(what), True, [(C, fp)])
    if verdict:
        return verdict
    fails = []
    if fingerprint(C) != fp:
        fails.append("argument modified")
    sel = (lambda s: s == what) if not isinstance(what, int) else (lambda s: s._type == what)
    for s in set(C.contents) | set(r.contents):
        if sel(s):
            if s in r.contents:
                fails.append(f"selected substance {s.name} still present")
        elif not (s in r.contents and close(r.contents[s], C.contents.get(s, 0))) and s in C.contents:
            fails.append(f"{s.name} not kept unchanged: {C.contents.get(s)} -> {r.contents.get(s)}")
        elif s not in C.contents:
            fails.append(f"{s.name} appeared")
    check_container(r, 'result', fails)
    if r.name != C.name or r.max_volume != C.max_volume:
        fails.append("name/capacity changed")
    return {'ok': not fails, 'observed': {'contents': {s.name: v for s, v in r.contents.items()}, 'volume': r.volume},
            'expected': 'selected gone, others kept, volume = sum', 'failed': fails[:5]}


def judge_fill_to(C, solvent, text):
    den = quantity_denotation(text)
    q, base = float(den[0]), den[1]
    fp = fingerprint(C)
    cur = measure(C, base) if base in ('L', 'g', 'mol') else 0.0
    S = subspec(solvent)
    capL = C.max_volume * vs()
    ok_shape = q > 0 and base in ('L', 'g', 'mol') and not solvent.is_enzyme() and q >= cur * (1 - REL)
    add_L = (q - cur) * float(spec.factor(S, base, 'L')) if ok_shape else 0.0
    feasible = ok_shape and measure(C, 'L') + add_L <= capL * (1 + REL) + 1e-12
    boundary = (q > 0 and close(q, cur, 1e-6)) or (not math.isinf(capL) and close(measure(C, 'L') + add_L, capL, 1e-6))
    r, verdict = _call(lambda: C.fill_to(solvent, text), feasible or boundary, [(C, fp)])
    if verdict:
        if boundary:
            verdict['ok'] = True
        return verdict
    fails = []
    if not feasible and not boundary:
        fails.append(f"accepted an infeasible fill (target {q} {base}, currently {cur} {base})")
    if fingerprint(C) != fp:
        fails.append("argument modified")
    check_container(r, 'result', fails)
    if feasible and not close(measure(r, base), q):
        fails.append(f"total is {measure(r, base)} {base}, target {q} {base}")
    for s in set(C.contents) | set(r.contents):
        if s != solvent and not close(r.contents.get(s, 0), C.contents.get(s, 0)):
            fails.append(f"bystander {s.name} changed")
    if r.contents.get(solvent, 0) < C.contents.get(solvent, 0) - 1e-9:
        fails.append(f"solvent decreased: {C.contents.get(solvent, 0)} -> {r.contents.get(solvent, 0)}")
    return {'ok': not fails, 'observed': {'contents': {s.name: v for s, v in r.contents.items()}, 'volume': r.volume},
            'expected': f'total {q} {base}', 'failed': fails[:5]}
