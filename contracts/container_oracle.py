"""Replay-side oracle for container operations: the contract clauses of C01/C02/C03/C04/C10/C11/C17 evaluated on the
real objects returned by the real code (floats, relative tolerance 1e-9 standing in for A1/A2).
Runs under the repository's interpreter — no z3."""
import copy
import math
from fractions import Fraction as F

from pyvc import spec
from contracts.c14_grammar import quantity_denotation

REL = 1e-7
import pyplate.pyplate as _pp


def ms():
    return float(spec.SI[spec.split_unit(_pp.config.moles_storage_unit)[0]])


def vs():
    return float(spec.SI[spec.split_unit(_pp.config.volume_storage_unit)[0]])


def subspec(s):
    k = s._type
    return spec.SubSpec(k, F(str(s.mol_weight)) if s.mol_weight is not None else None,
                        F(str(s.density)) if s.density is not None and not math.isinf(s.density) else None,
                        F(str(s.specific_activity)) if s.specific_activity is not None else None)


def base_amount(s, stored):
    """stored amount -> (base unit, amount in base unit)"""
    if s.is_enzyme():
        return 'U', stored
    return 'mol', stored * ms()


def measure(c, base):
    """total of container c in base unit: L, g, mol (non-enzymes), U (enzymes)"""
    tot = 0.0
    for s, a in c.contents.items():
        fb, amt = base_amount(s, a)
        tot += amt * float(spec.factor(subspec(s), fb, base))
    return tot


def close(a, b, rel=REL, abs_=1e-9):
    return abs(a - b) <= max(abs_, rel * max(abs(a), abs(b)))


def fingerprint(c):
    return (c.name, tuple(sorted((s.name, v) for s, v in c.contents.items())), c.volume, c.max_volume, c.instructions)


def check_container(c, what, fails):
    for s, v in c.contents.items():
        if v < -1e-9:
            fails.append(f"{what}: negative amount {v} of {s.name}")
    if c.volume < -1e-9:
        fails.append(f"{what}: negative volume {c.volume}")
    if c.volume > c.max_volume * (1 + REL) + 1e-9:
        fails.append(f"{what}: volume {c.volume} exceeds capacity {c.max_volume}")
    if not close(c.volume * vs(), measure(c, 'L')):
        fails.append(f"{what}: cached volume {c.volume * vs()} L != sum of content volumes {measure(c, 'L')} L")


def judge_transfer(S, T, text, J):
    from pyplate import Container
    den = quantity_denotation(text)
    q, base = float(den[0]), den[1]
    fS, fT = fingerprint(S), fingerprint(T)
    mS = measure(S, base)
    volS, volT = measure(S, 'L'), measure(T, 'L')
    capL = T.max_volume * vs()
    alias = S is T
    r = (q / mS) if mS > 0 else 0.0
    feasible = q >= 0 and q <= mS * (1 + REL) + 1e-12 and (volT + r * volS <= capL * (1 + REL) + 1e-12)
    boundary = (mS > 0 and close(q, mS, 1e-6)) or (not math.isinf(capL) and close(volT + r * volS, capL, 1e-6))
    exp = 'accepted' if feasible else 'ValueError'
    try:
        src, to = Container.transfer(S, T, text)
    except ValueError as e:
        ok = (not feasible) or boundary or alias
        fails = [] if ok else [f"refused a feasible request: {e}"]
        if fingerprint(S) != fS or fingerprint(T) != fT:
            fails.append("argument modified by a refused call")
        return {'ok': not fails, 'observed': f'ValueError: {e}', 'expected': exp, 'failed': fails}
    except Exception as e:
        return {'ok': False, 'observed': repr(e), 'expected': exp, 'failed': [f'{type(e).__name__} instead of a result or ValueError']}
    fails = []
    if not feasible and not boundary:
        fails.append(f"accepted an infeasible request (q={q} {base}, source holds {mS} {base}, "
                     f"dest volume {volT}+{r * volS} L vs capacity {capL} L)")
    if fingerprint(S) != fS or fingerprint(T) != fT:
        fails.append("argument modified")
    if src is S or to is T or src is to:
        fails.append("result is not a new object")
    check_container(src, 'source result', fails)
    check_container(to, 'destination result', fails)
    subs = set(S.contents) | set(T.contents) | set(src.contents) | set(to.contents)
    if alias:
        for s in subs:
            if not (close(src.contents.get(s, 0), S.contents.get(s, 0)) and close(to.contents.get(s, 0), S.contents.get(s, 0))):
                fails.append(f"self-transfer changed {s.name}: {S.contents.get(s, 0)} -> {src.contents.get(s, 0)} / {to.contents.get(s, 0)}")
                break
    elif feasible:
        for s in subs:
            a0 = S.contents.get(s, 0) + T.contents.get(s, 0)
            a1 = src.contents.get(s, 0) + to.contents.get(s, 0)
            if not close(a0, a1):
                fails.append(f"{s.name} not conserved: {a0} -> {a1}")
            if not close(src.contents.get(s, 0), (1 - r) * S.contents.get(s, 0)) or \
                    not close(to.contents.get(s, 0), T.contents.get(s, 0) + r * S.contents.get(s, 0)):
                fails.append(f"{s.name} not a uniform aliquot: source {S.contents.get(s, 0)} -> {src.contents.get(s, 0)}, "
                             f"dest {T.contents.get(s, 0)} -> {to.contents.get(s, 0)}, expected fraction {r}")
        if not close(mS - measure(src, base), q) or not close(measure(to, base) - measure(T, base), q):
            fails.append(f"moved {mS - measure(src, base)} / {measure(to, base) - measure(T, base)} {base} instead of {q}")
    return {'ok': not fails, 'observed': {'source': {s.name: v for s, v in src.contents.items()},
                                          'dest': {s.name: v for s, v in to.contents.items()},
                                          'dest_volume': to.volume}, 'expected': exp, 'failed': fails[:5]}
