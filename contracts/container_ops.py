"""Contracts of the remaining container-level operations: _self_add / _add, __init__, remove, fill_to, dilute and the
observers get_volume / get_concentration.  Same scheme as container_transfer (clib.Op)."""
import itertools
import json

import z3

from pyvc import vc, spec
from pyvc.values import *   # noqa: F401,F403
from pyvc import symcoll
from pyvc.symcoll import SymMap, WS
from contracts import clib
from contracts.clib import X, BASE_WS

KINDS = {1: 'solid', 2: 'liquid', 3: 'enzyme'}


# ------------------------------------------------------------------------------------------------ helpers on result objects
def amt_of(c, s):
    m = c.fields['contents']
    if isinstance(m, SymMap):
        return m.amt[s], m.mem[s]
    for kk, v in m.items():
        if kk.term.eq(s):
            return real(v), True
    return z3.RealVal(0), False


def forall(finite, f):
    if finite is None:
        return z3.ForAll([X], f(X))
    keys = finite['keys']
    return z3.And(*[f(s) for s in keys]) if keys else z3.BoolVal(True)


def meas(I, c, k, finite):
    m = c.fields['contents']
    if isinstance(m, SymMap):
        return WS[k](m.amt)
    return clib.finite_measure(I, k, finite['keys'], {s: amt_of(c, s)[0] for s in finite['keys']})


def meas0(I, C, k, finite):
    if finite is None:
        return WS[k](C.amt)
    return clib.finite_measure(I, k, finite['keys'], C.amt)


def wf_clauses(I, c, finite, capterm):
    """C03 nonneg/cap and C10 vol for a returned container object."""
    vs = spec.num(clib.vs_of(I))
    out = {'ensures[nonneg]': z3.And(forall(finite, lambda s: amt_of(c, s)[0] >= 0), real(c.fields['volume']) >= 0),
           'ensures[vol]': real(c.fields['volume']) * vs == meas(I, c, 'vol', finite)}
    if capterm is not None and not (isinstance(capterm, float)):
        out['ensures[cap]'] = real(c.fields['volume']) <= capterm
    return out


def frame_ob(I):
    I.oblige('frame', len(I.writes) == 0, 'property',
             note=f"writes to argument objects: {[(str(w[0]), w[1], w[2]) for w in I.writes][:4]}")


def mk_finite(n, maps):
    for k in range(0, n + 1):
        keys = [z3.Const(f's{i}', Sub) for i in range(k)]
        if k == 0:
            yield {'keys': keys, 'present': [[] for _ in range(maps)]}
            continue
        for bits in itertools.product([True, False], repeat=k * maps):
            rows = [list(bits[i * k:(i + 1) * k]) for i in range(maps)]
            yield {'keys': keys, 'present': rows}


def assume_distinct(I, keys):
    if len(keys) > 1:
        I.assume(z3.Distinct(*keys))


# ================================================================================================ _self_add / _add
class AddOp(clib.Op):
    """Container._add(substance, 'v unit') (deepcopy + _self_add).  case = (kind, unit, sign, cap, present)"""
    FN = 'Container._add'
    PROPS_OF = {'nonneg': ['C03'], 'cap': ['C03'], 'refuse': ['C03'], 'accept': ['C03'], 'safe': ['C03'],
                'vol': ['C10'], 'amount': ['C10', 'C11'], 'others': ['C11', 'C10'], 'frame': ['C04'], 'fresh': ['C04']}

    def cases(self, tier):
        out = []
        for k in KINDS:
            bases = ['U', 'g', 'L', 'mol']
            for b in bases:
                prefs = [''] if b == 'U' else (spec.PREFIXES if tier == 'thorough' else ['', 'm', 'u', 'k'])
                for p in prefs:
                    for sign in ('neg', 'zero', 'pos'):
                        for cap in ('inf', 'finite'):
                            if sign != 'pos' and cap == 'finite':
                                continue
                            if k == 3 and b == 'mol' and sign == 'neg':
                                continue   # enzymes carry no moles: the request denotes a zero amount whatever its sign
                            out.append((k, p + b, sign, cap))
        return out

    def setup(self, I, case, finite=None):
        k, unit, sign, cap = case
        clib.assume_world(I)
        if finite is None:
            C = clib.mk_container(I, 'C', cap)
            s = z3.Const('s', Sub)
        else:
            keys = finite['keys']
            assume_distinct(I, keys)
            C = clib.mk_container(I, 'C', cap, keys, finite['present'][0])
            s = keys[0] if keys else z3.Const('s', Sub)
        I.assume(kind(s) == k)
        v = z3.Real('v')
        I.assume({'neg': v < 0, 'zero': v == 0, 'pos': v > 0}[sign])
        return C, s, v

    def finite_configs(self, case, nmax):
        for f in mk_finite(nmax, 1):
            if f['keys']:
                yield f

    def invoke(self, I, st, case):
        C, s, v = st
        return vc.call(I, self.FN, [C.obj, SubV(s), SegStr([NumHole(v), ' ', case[1]])])

    def emit(self, I, out, st, case, finite=None):
        k, unit, sign, cap = case
        C, s, v = st
        p, b = spec.split_unit(unit)
        S = spec.SubSpec(k, mw(s), dens(s), sa(s))
        rej = spec.rejects(S, b)
        vs, ms = spec.num(clib.vs_of(I)), spec.num(clib.ms_of(I))
        stored_base = 'U' if k == 3 else 'mol'
        add_stored = spec.convert_spec(S, v, unit, stored_base) / (1 if k == 3 else ms)
        add_vol_L = spec.convert_spec(S, v, unit, 'L')
        vol0 = meas0(I, C, 'vol', finite)
        fits = True if cap == 'inf' else (vol0 + add_vol_L <= C.cap * vs)
        feasible = (not rej) and sign != 'neg'
        frame_ob(I)
        if out.kind == 'return':
            r = out.value
            if not feasible:
                I.oblige('raises[refuse]', False, 'property',
                         note='a negative quantity must be refused' if sign == 'neg' else
                         'a non-enzyme measured in U must be refused')
            I.oblige('fresh', bool(r.fresh and r is not C.obj), 'property')
            for name, g in wf_clauses(I, r, finite, None if cap == 'inf' else C.cap).items():
                hints = []
                if finite is None and name == 'ensures[vol]':
                    hints = [clib.point_hint(I, 'vol', C.amt, s, C.amt[s] + add_stored)]
                I.oblige(name, g, 'property', extra=hints)
            if feasible:
                I.oblige('ensures[amount]', z3.And(amt_of(r, s)[0] == C.amt[s] + add_stored, boolz(amt_of(r, s)[1])),
                         'property', note='the named substance increases by exactly the requested amount')
                I.oblige('ensures[others]', forall(finite, lambda x: z3.Implies(x != s, z3.And(
                    amt_of(r, x)[0] == C.amt[x], boolz(amt_of(r, x)[1]) == boolz(C.mem[x])))), 'property')
                I.oblige('raises[refuse-overflow]', fits, 'property', note='an addition exceeding the capacity must be refused')
        else:
            ex = out.exc
            if ex.cls == 'ValueError' and not ex.implicit:
                if feasible:
                    I.oblige('raises[accept]', z3.Not(fits) if fits is not True else False, 'property',
                             note=f'ValueError at line {ex.lineno} for an addition that fits')
                else:
                    I.oblige('raises[refuse]', True, 'property')
            else:
                I.oblige(f'safe[{ex.cls}]', False, 'property', note=f'{ex.cls} at line {ex.lineno}')

    def inputs(self, I, st, case, fin):
        C, s, v = st
        d = {'v': v}
        d.update(clib.sub_inputs(fin['keys']))
        for x in fin['keys']:
            d[f'C_{x}'] = C.amt[x]
        if case[3] != 'inf':
            d['capC'] = C.cap
        return d

    def prefs(self, I, st, case, fin):
        C, s, v = st
        return clib.nice_model_prefs(fin['keys'], [C.amt[x] for x in fin['keys']], [v] + ([C.cap] if case[3] != 'inf' else []))

    def replay(self, mv, st, case, fin, clause):
        keys = fin['keys']
        try:
            inputs = {'subs': clib.model_subs(mv, keys),
                      'C': {'contents': {str(x): str(mv[f'C_{x}']) for x, p in zip(keys, fin['present'][0]) if p},
                            'cap': None if case[3] == 'inf' else str(mv['capC'])},
                      'v': str(mv['v']), 'unit': case[1], 'sub': str(keys[0]), 'clause': clause}
        except (KeyError, TypeError, ValueError):
            return []
        code = (clib.REPLAY_HEAD.replace('{inputs!r}', repr(json.dumps(inputs))) + clib.MK_CONTAINERS +
                "def run():\n"
                "    subs = {k: mk_sub(d, 'sub_' + k) for k, d in J['subs'].items()}\n"
                "    C = mk_container(J['C'], subs, 'C')\n"
                "    from contracts.container_oracle import judge_add\n"
                "    return judge_add(C, subs[J['sub']], '%r %s' % (float(F(J['v'])), J['unit']))\n")
        return [{'inputs': inputs, 'code': code}]


# ================================================================================================ remove
class RemoveOp(clib.Op):
    """Container.remove(what).  case = (what,) with what in 'sub-present', 'sub-absent', 1, 2, 3"""
    FN = 'Container.remove'
    PROPS_OF = {'gone': ['C17'], 'kept': ['C17'], 'vol': ['C17', 'C10'], 'nonneg': ['C03'], 'cap': ['C03'],
                'frame': ['C04'], 'fresh': ['C04'], 'identity': ['C17', 'C04'], 'safe': ['C03', 'C17']}

    def cases(self, tier):
        return [(w, cap) for w in ('sub', 1, 2, 3) for cap in ('inf', 'finite')]

    def setup(self, I, case, finite=None):
        what, cap = case
        clib.assume_world(I)
        if finite is None:
            C = clib.mk_container(I, 'C', cap)
            s = z3.Const('s', Sub)
        else:
            keys = finite['keys']
            assume_distinct(I, keys)
            C = clib.mk_container(I, 'C', cap, keys, finite['present'][0])
            s = keys[0] if keys else z3.Const('s', Sub)
        return C, s

    def finite_configs(self, case, nmax):
        return mk_finite(nmax, 1)

    def invoke(self, I, st, case):
        C, s = st
        what = SubV(s) if case[0] == 'sub' else case[0]
        return vc.call(I, self.FN, [C.obj, what])

    def emit(self, I, out, st, case, finite=None):
        what, cap = case
        C, s = st
        frame_ob(I)
        if out.kind != 'return':
            I.oblige(f'safe[{out.exc.cls}]', False, 'property', note=f'{out.exc.cls} at line {out.exc.lineno}')
            return
        r = out.value
        sel = (lambda x: x == s) if what == 'sub' else (lambda x: kind(x) == what)
        I.oblige('fresh', bool(r.fresh and r is not C.obj), 'property')
        I.oblige('identity', z3.And(boolz(I.equals(r.fields['name'], C.name)),
                                    boolz(I.equals(r.fields['max_volume'], C.cap))), 'property')
        I.oblige('ensures[gone]', forall(finite, lambda x: z3.Implies(sel(x), z3.And(
            z3.Not(boolz(amt_of(r, x)[1])), amt_of(r, x)[0] == 0))), 'property',
            note='no selected substance remains')
        I.oblige('ensures[kept]', forall(finite, lambda x: z3.Implies(z3.Not(sel(x)), z3.And(
            boolz(amt_of(r, x)[1]) == boolz(C.mem[x]), amt_of(r, x)[0] == C.amt[x]))), 'property',
            note='every other substance is kept in unchanged amount')
        for name, g in wf_clauses(I, r, finite, None if cap == 'inf' else C.cap).items():
            hints = []
            if finite is None and name in ('ensures[cap]', 'ensures[nonneg]'):
                # removing non-negative contributions cannot increase the volume (Sigma-mono; Lean: sum_le_sum)
                ra = r.fields['contents'].amt
                hints = [z3.Implies(z3.ForAll([X], z3.And(ra[X] >= 0, ra[X] <= C.amt[X])),
                                    z3.And(WS['vol'](ra) >= 0, WS['vol'](ra) <= WS['vol'](C.amt)))]
            I.oblige(name, g, 'property', extra=hints)

    def inputs(self, I, st, case, fin):
        C, s = st
        d = dict(clib.sub_inputs(fin['keys']))
        for x in fin['keys']:
            d[f'C_{x}'] = C.amt[x]
        if case[1] != 'inf':
            d['capC'] = C.cap
        return d

    def prefs(self, I, st, case, fin):
        C, s = st
        return clib.nice_model_prefs(fin['keys'], [C.amt[x] for x in fin['keys']], [C.cap] if case[1] != 'inf' else [])

    def replay(self, mv, st, case, fin, clause):
        keys = fin['keys']
        try:
            inputs = {'subs': clib.model_subs(mv, keys),
                      'C': {'contents': {str(x): str(mv[f'C_{x}']) for x, p in zip(keys, fin['present'][0]) if p},
                            'cap': None if case[1] == 'inf' else str(mv['capC'])},
                      'what': case[0], 'sub': str(keys[0]) if keys else None, 'clause': clause}
        except (KeyError, TypeError, ValueError):
            return []
        code = (clib.REPLAY_HEAD.replace('{inputs!r}', repr(json.dumps(inputs))) + clib.MK_CONTAINERS +
                "def run():\n"
                "    subs = {k: mk_sub(d, 'sub_' + k) for k, d in J['subs'].items()}\n"
                "    C = mk_container(J['C'], subs, 'C')\n"
                "    from contracts.container_oracle import judge_remove\n"
                "    what = subs[J['sub']] if J['what'] == 'sub' else J['what']\n"
                "    return judge_remove(C, what)\n")
        return [{'inputs': inputs, 'code': code}]


# ================================================================================================ fill_to
class FillToOp(clib.Op):
    """Container.fill_to(solvent, 'q unit').  case = (solvent kind, unit, relation, cap)
    relation: 'above' (target > current quantity), 'equal', 'below', 'nonpos' (q <= 0)"""
    FN = 'Container.fill_to'
    PROPS_OF = {'total': ['C11'], 'only-solvent': ['C11'], 'cap': ['C11', 'C03'], 'refuse': ['C11', 'C03'],
                'accept': ['C11', 'C03'], 'nonneg': ['C03'], 'vol': ['C10'], 'frame': ['C04'], 'fresh': ['C04'],
                'safe': ['C03', 'C11']}

    def cases(self, tier):
        out = []
        for k in (1, 2):
            for unit in ('L', 'mL', 'uL', 'g', 'mg', 'kg', 'mol', 'mmol', 'umol'):
                for rel in ('above', 'equal', 'below', 'nonpos'):
                    for cap in ('inf', 'finite'):
                        if cap == 'finite' and rel != 'above':
                            continue
                        out.append((k, unit, rel, cap))
        out.append((2, 'U', 'above', 'inf'))           # filling to an activity is refused
        return out

    def setup(self, I, case, finite=None):
        k, unit, rel, cap = case
        clib.assume_world(I)
        if finite is None:
            C = clib.mk_container(I, 'C', cap)
            s = z3.Const('s', Sub)
        else:
            keys = finite['keys']
            assume_distinct(I, keys)
            C = clib.mk_container(I, 'C', cap, keys, finite['present'][0])
            s = keys[0]
        I.assume(kind(s) == k)
        q = z3.Real('q')
        p, b = spec.split_unit(unit)
        qbase = q * spec.num(spec.SI[p])
        cur = meas0(I, C, BASE_WS[b], finite)
        if finite is not None:
            I.assume(cur >= 0)
        I.assume({'above': z3.And(q > 0, qbase > cur), 'equal': z3.And(q > 0, qbase == cur),
                  'below': z3.And(q > 0, qbase < cur), 'nonpos': q <= 0}[rel])
        return C, s, q, qbase, cur

    def finite_configs(self, case, nmax):
        for f in mk_finite(nmax, 1):
            if f['keys']:
                yield f

    def invoke(self, I, st, case):
        C, s, q = st[0], st[1], st[2]
        return vc.call(I, self.FN, [C.obj, SubV(s), SegStr([NumHole(q), ' ', case[1]])])

    def emit(self, I, out, st, case, finite=None):
        k, unit, rel, cap = case
        C, s, q, qbase, cur = st
        p, b = spec.split_unit(unit)
        vs, ms = spec.num(clib.vs_of(I)), spec.num(clib.ms_of(I))
        S = spec.SubSpec(k, mw(s), dens(s), sa(s))
        feasible_shape = rel in ('above', 'equal') and b in ('L', 'g', 'mol')
        # volume after filling: current volume + volume of the added solvent
        frame_ob(I)
        if out.kind == 'return':
            r = out.value
            I.oblige('fresh', bool(r.fresh and r is not C.obj), 'property')
            if not feasible_shape:
                I.oblige('raises[refuse]', False, 'property', note={
                    'below': 'a fill target below the current quantity must be refused',
                    'nonpos': 'a non-positive fill target must be refused'}.get(rel, 'not a fillable request'))
            for name, g in wf_clauses(I, r, finite, None if cap == 'inf' else C.cap).items():
                hints = []
                if finite is None:
                    hints = [clib.point_hint(I, kk, C.amt, s, amt_of(r, s)[0]) for kk in WS]
                I.oblige(name, g, 'property', extra=hints)
            if feasible_shape:
                hints = [] if finite is not None else [clib.point_hint(I, kk, C.amt, s, amt_of(r, s)[0]) for kk in WS]
                I.oblige('ensures[total]', meas(I, r, BASE_WS[b], finite) == qbase, 'property', extra=hints,
                         note=f'total {b} of the result equals the target')
                I.oblige('ensures[only-solvent]', z3.And(forall(finite, lambda x: z3.Implies(x != s, z3.And(
                    amt_of(r, x)[0] == C.amt[x], boolz(amt_of(r, x)[1]) == boolz(C.mem[x])))),
                    amt_of(r, s)[0] >= C.amt[s]), 'property')
        else:
            ex = out.exc
            if ex.cls == 'ValueError' and not ex.implicit:
                if feasible_shape:
                    if cap == 'inf':
                        I.oblige('raises[accept]', False, 'property',
                                 note=f'ValueError at line {ex.lineno} for a reachable fill target without capacity limit')
                    else:
                        # only an overflow justifies a refusal
                        add = (qbase - cur) * spec.factor(S, b, 'L')
                        I.oblige('raises[accept]', meas0(I, C, 'vol', finite) + add > C.cap * vs, 'property',
                                 note=f'ValueError at line {ex.lineno} for a fill that fits')
                else:
                    I.oblige('raises[refuse]', True, 'property')
            else:
                I.oblige(f'safe[{ex.cls}]', False, 'property', note=f'{ex.cls} at line {ex.lineno}')

    inputs = AddOp.inputs

    def inputs(self, I, st, case, fin):   # noqa: F811
        C, s, q = st[0], st[1], st[2]
        d = {'v': q}
        d.update(clib.sub_inputs(fin['keys']))
        for x in fin['keys']:
            d[f'C_{x}'] = C.amt[x]
        if case[3] != 'inf':
            d['capC'] = C.cap
        return d

    def prefs(self, I, st, case, fin):
        C, s, q = st[0], st[1], st[2]
        return clib.nice_model_prefs(fin['keys'], [C.amt[x] for x in fin['keys']], [q] + ([C.cap] if case[3] != 'inf' else []))

    def replay(self, mv, st, case, fin, clause):
        keys = fin['keys']
        try:
            inputs = {'subs': clib.model_subs(mv, keys),
                      'C': {'contents': {str(x): str(mv[f'C_{x}']) for x, p in zip(keys, fin['present'][0]) if p},
                            'cap': None if case[3] == 'inf' else str(mv['capC'])},
                      'v': str(mv['v']), 'unit': case[1], 'sub': str(keys[0]), 'clause': clause}
        except (KeyError, TypeError, ValueError):
            return []
        code = (clib.REPLAY_HEAD.replace('{inputs!r}', repr(json.dumps(inputs))) + clib.MK_CONTAINERS +
                "def run():\n"
                "    subs = {k: mk_sub(d, 'sub_' + k) for k, d in J['subs'].items()}\n"
                "    C = mk_container(J['C'], subs, 'C')\n"
                "    from contracts.container_oracle import judge_fill_to\n"
                "    return judge_fill_to(C, subs[J['sub']], '%r %s' % (float(F(J['v'])), J['unit']))\n")
        return [{'inputs': inputs, 'code': code}]


# ================================================================================================ observers
class GetVolumeOp(clib.Op):
    FN = 'Container.get_volume'
    PROPS_OF = {'def': ['C10'], 'frame': ['C04'], 'safe': ['C10']}

    def cases(self, tier):
        return [(p + 'L',) for p in spec.PREFIXES] + [(None,)]

    def setup(self, I, case, finite=None):
        clib.assume_world(I)
        return (clib.mk_container(I, 'C', 'inf'),)

    def invoke(self, I, st, case):
        return vc.call(I, self.FN, [st[0].obj] + ([case[0]] if case[0] else []))

    def emit(self, I, out, st, case, finite=None):
        C = st[0]
        frame_ob(I)
        unit = case[0] or I.cfg.data['volume_display_unit']
        if out.kind != 'return':
            I.oblige(f'safe[{out.exc.cls}]', False, 'property', note=f'{out.exc.cls} at line {out.exc.lineno}')
            return
        p, b = spec.split_unit(unit)
        I.oblige('ensures[def]', real(out.value) * spec.num(spec.SI[p]) == WS['vol'](C.amt), 'property',
                 note='reported volume equals the sum of the volumes of the contents')


class GetConcentrationOp(clib.Op):
    """Container.get_concentration(solute, units).  case = (solute kind, units, member)"""
    FN = 'Container.get_concentration'
    PROPS_OF = {'def': ['C10'], 'frame': ['C04'], 'safe': ['C10']}
    UNITS = ['M', 'mM', 'm', 'mol/L', 'mmol/mL', 'g/L', 'mg/mL', 'g/g', 'g/kg', 'mol/mol', 'mol/kg', 'L/L', 'uL/mL',
             'g/mol', 'L/mol', 'L/g', '%w/w', '%v/v', '%w/v', 'U/L', 'U/mL', 'U/g', 'U/mol', 'kU/L']

    def cases(self, tier):
        return [(k, u) for k in KINDS for u in self.UNITS]

    def setup(self, I, case, finite=None):
        clib.assume_world(I)
        C = clib.mk_container(I, 'C', 'inf')
        s = z3.Const('s', Sub)
        I.assume(kind(s) == case[0])
        return C, s

    def invoke(self, I, st, case):
        return vc.call(I, self.FN, [st[0].obj, SubV(st[1]), case[1]])

    def emit(self, I, out, st, case, finite=None):
        from contracts.c14_grammar import concentration_denotation
        C, s = st
        k, units = case
        frame_ob(I)
        mult, nb, db = concentration_denotation('1 ' + units, I.cfg.data['default_weight_volume_units'])
        ms = spec.num(clib.ms_of(I))
        S = spec.SubSpec(k, mw(s), dens(s), sa(s))
        stored_base = 'U' if k == 3 else 'mol'
        base_amt = C.amt[s] * (1 if k == 3 else ms)
        numer = base_amt * spec.num(spec.factor(S, stored_base, nb))
        denom = WS[BASE_WS[db]](C.amt)
        if out.kind != 'return':
            ex = out.exc
            if ex.cls == 'ZeroDivisionError':
                # defined only when the denominator measure of the container is non-zero
                I.oblige('safe[ZeroDivisionError]', z3.And(numer != 0, denom == 0), 'property',
                         note='division by zero although the container holds a non-zero amount of the denominator unit')
            else:
                I.oblige(f'safe[{ex.cls}]', False, 'property', note=f'{ex.cls} at line {ex.lineno}')
            return
        I.oblige('ensures[def]', z3.If(numer == 0, real(out.value) == 0,
                                       real(out.value) * spec.num(mult) * denom == numer), 'property',
                 note=f'concentration in {units} = amount of solute in {nb} / total {db} of the container')


# ================================================================================================ __init__ (bounded list length)
class InitOp(clib.Op):
    """Container(name, max_volume, initial_contents=[(s_i, 'v_i unit_i')]) for lists of length 0..2 (each length a
    complete proof over all values; bounded in the list length).  case = (cap, entries) entries: tuple of (kind, unit)"""
    FN = 'Container.__init__'
    PROPS_OF = {'nonneg': ['C03'], 'cap': ['C03'], 'refuse': ['C03'], 'accept': ['C03'], 'safe': ['C03'],
                'vol': ['C10'], 'contents': ['C10'], 'frame': ['C04']}

    def cases(self, tier):
        ents = [(1, 'g'), (1, 'mmol'), (2, 'mL'), (2, 'g'), (3, 'U'), (3, 'mg')]
        out = [('inf', ()), ('finite', ())]
        for e in ents:
            for cap in ('inf', 'finite'):
                out.append((cap, (e,)))
        for e1 in ents[::2]:
            for e2 in ents:
                out.append(('finite', (e1, e2)))
        out.append(('inf', ((2, 'mL'), 'same')))      # the same substance listed twice
        out.append(('bad-cap', ()))
        return out

    def setup(self, I, case, finite=None):
        cap, ents = case
        clib.assume_world(I)
        subs, vals, entries = [], [], []
        for i, e in enumerate(ents):
            if e == 'same':
                s = subs[0]
                k, unit = ents[0]
            else:
                k, unit = e
                s = z3.Const(f's{i}', Sub)
                I.assume(kind(s) == k)
            v = z3.Real(f'v{i}')
            subs.append(s)
            vals.append(v)
            entries.append((SubV(s), SegStr([NumHole(v), ' ', unit])))
        if len(set(str(s) for s in subs)) > 1:
            I.assume(z3.Distinct(*{str(s): s for s in subs}.values()))
        capv = z3.Real('capv')
        return subs, vals, entries, capv

    def invoke(self, I, st, case):
        subs, vals, entries, capv = st
        cap = case[0]
        o = I.new_obj('Container')
        st_obj = o
        args = [o, NameV(z3.Const('nm', Name))]
        if cap in ('finite', 'bad-cap'):
            args.append(SegStr([NumHole(capv), ' ', 'mL']))
        kwargs = {}
        if entries:
            kwargs['initial_contents'] = list(entries)
        out = vc.call(I, self.FN, args, kwargs)
        I.__dict__['_newobj'] = o
        return out

    def emit(self, I, out, st, case, finite=None):
        subs, vals, entries, capv = st
        cap, ents = case
        o = I.__dict__['_newobj']
        vs, ms = spec.num(clib.vs_of(I)), spec.num(clib.ms_of(I))
        frame_ob(I)
        units = [(ents[0] if e == 'same' else e) for e in ents]
        neg = z3.Or(*[v < 0 for v in vals]) if vals else z3.BoolVal(False)
        total_L = z3.RealVal(0)
        stored = {}
        for s, v, (k, unit) in zip(subs, vals, units):
            S = spec.SubSpec(k, mw(s), dens(s), sa(s))
            total_L = total_L + spec.convert_spec(S, v, unit, 'L')
            add = spec.convert_spec(S, v, unit, 'U' if k == 3 else 'mol') / (1 if k == 3 else ms)
            stored[str(s)] = stored.get(str(s), z3.RealVal(0)) + add
        capL = capv * spec.num(spec.SI['m'])
        # running totals must fit after each entry; with non-negative entries that is: the total fits
        fits = True if cap == 'inf' else total_L <= capL
        if out.kind == 'return':
            if cap == 'bad-cap':
                I.oblige('raises[refuse]', capv > 0, 'property', note='a non-positive capacity must be refused')
                return
            if cap == 'finite':
                I.assume(capv > 0)
            I.oblige('raises[refuse]', z3.Not(neg), 'property', note='a negative initial quantity must be refused')
            I.oblige('raises[refuse-overflow]', z3.Implies(z3.Not(neg), boolz(fits)), 'property')
            contents = o.fields['contents']
            got_total = z3.RealVal(0)
            conj = []
            for kx, a in contents.items():
                got_total = got_total + symcoll.weight('vol', kx.term, clib.ms_of(I)) * real(a)
                conj.append(real(a) == stored.get(str(kx.term), z3.RealVal(0)))
                conj.append(z3.Implies(z3.Not(neg), real(a) >= 0))
            I.oblige('ensures[contents]', z3.And(len(contents) == len(stored), *conj) if conj else len(contents) == 0,
                     'property', note='contents = the listed substances in the listed amounts')
            I.oblige('ensures[vol]', real(o.fields['volume']) * vs == got_total, 'property')
            I.oblige('ensures[nonneg]', z3.Implies(z3.Not(neg), real(o.fields['volume']) >= 0), 'property')
            if cap == 'finite':
                I.oblige('ensures[cap]', z3.And(real(o.fields['max_volume']) * vs == capL,
                                                real(o.fields['volume']) <= real(o.fields['max_volume'])), 'property')
        else:
            ex = out.exc
            if ex.cls == 'ValueError' and not ex.implicit:
                if cap == 'bad-cap':
                    I.oblige('raises[accept]', capv <= 0, 'property')
                elif cap == 'finite':
                    I.oblige('raises[accept]', z3.Or(capv <= 0, neg, z3.Not(boolz(fits)),
                                                     # an intermediate overflow with a later negative entry
                                                     neg), 'property',
                             note=f'ValueError at line {ex.lineno} although every quantity is non-negative and the total fits')
                else:
                    I.oblige('raises[accept]', neg, 'property',
                             note=f'ValueError at line {ex.lineno} although every quantity is non-negative')
            else:
                I.oblige(f'safe[{ex.cls}]', False, 'property', note=f'{ex.cls} at line {ex.lineno}')


OPS = {'add': AddOp(), 'remove': RemoveOp(), 'fill_to': FillToOp(), 'get_volume': GetVolumeOp(),
       'get_concentration': GetConcentrationOp(), 'init': InitOp()}


def run(opname, pid, case):
    return clib.run_op(OPS[opname], pid, tuple(case))


# ------------------------------------------------------------------------------------------------ observers with a history
def _with_observers(cls):
    """The argument has already been asked its memoised observers (has_liquid, get_substances) when the operation runs;
    the result must answer for ITS OWN contents (C10: a stale memo carried over by a copy is a wrong observer)."""
    inv, em = cls.invoke, cls.emit

    def invoke(self, I, st, case):
        clib.prequery(I, st[0].obj)
        I.writes.clear()
        return inv(self, I, st, case)

    def emit(self, I, out, st, case, finite=None):
        em(self, I, out, st, case, finite=finite)
        if out.kind == 'return' and isinstance(out.value, Obj) and out.value.cls.name == 'Container':
            nw = len(I.writes)
            clib.oblige_observers(I, 'result', out.value)
            del I.writes[nw:]
    cls.invoke, cls.emit = invoke, emit
    cls.PROPS_OF = dict(cls.PROPS_OF, observers=['C10'])
    return cls


for _c in (AddOp, RemoveOp, FillToOp):
    _with_observers(_c)
