"""the documented default row labels (kept apart from c13_slicer so that native replays can import it without z3)"""


def spreadsheet_label(i):
    out = ''
    while i > 0:
        i, r = divmod(i - 1, 26)
        out = chr(ord('A') + r) + out
    return out
