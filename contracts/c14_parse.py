"""C14 — Quantity and concentration strings mean what SI says.

Functions under contract: Unit.parse_quantity, Unit.parse_concentration (+ Unit.convert_prefix_to_multiplier).
* meaning: for every shape of the documented grammar (unit tokens enumerated exhaustively, numerals symbolic)
  the result equals the SI denotation;
* rejection: parse_quantity for ALL strings (symbolic z3 strings, case split on the number of blanks);
  parse_concentration by a bounded token-level enumeration (labelled bounded, never counted as proved).
"""
import itertools
import json
from fractions import Fraction

import z3

from pyvc import vc, spec, solve, harness
from pyvc.values import *   # noqa: F401,F403

PID = 'C14'
FUNCTIONS = ['Unit.parse_quantity', 'Unit.parse_concentration', 'Unit.convert_prefix_to_multiplier']
TIMEOUT = 20000
QBASES = ['mol', 'g', 'L', 'M']          # bases parse_quantity documents (M: molar quantities), plus bare 'U'
CBASES = ['mol', 'L', 'g', 'U']
EXPLANATION = ("meaning: proof per grammar shape with symbolic numerals; rejection: proof for parse_quantity over all "
               "strings, bounded token enumeration for parse_concentration")

REPLAY_HEAD = ("import json\nfrom fractions import Fraction as F\nfrom pyvc import replaylib as R, spec\n"
               "from pyplate import Unit\nJ = json.loads({inputs!r})\n")


def tasks(tier):
    t = [('quantity_meaning',), ('quantity_reject',), ('canaries',), ('lemmas',)]
    for nb in CBASES:
        for np_ in spec.PREFIXES:
            t.append(('conc_ratio', np_ + nb))
    t.append(('conc_short',))
    t.append(('float_targets', 7))
    from contracts import propsets
    t += propsets.unit_contract_tasks(tier, PID)      # 'equivalent spellings are interchangeable everywhere a quantity is accepted': Unit.convert's table
    from contracts import rounding_placement as RP
    t += [('rounding_placement',) + x for x in RP.tasks(tier, PID)]
    toks = 'thorough' if tier == 'thorough' else 'quick'
    for chunk in range(16):
        t.append(('conc_reject_bounded', toks, chunk, 16))
    return t


def run(kind, *args):
    return globals()['run_' + kind](*args)


def run_unit_contract(*args):
    from contracts import propsets
    return propsets.run_unit_contract(PID, *args)


def run_rounding_placement(*args):
    from contracts import rounding_placement as RP
    return RP.run(PID, *args)


def run_float_targets(n):
    from contracts import float_targets
    return float_targets.run(PID, n)


def _unsup(out):
    return isinstance(out, vc.Outcome) and out.kind == 'unsupported'


# ------------------------------------------------------------------------------------------------ quantities: meaning
def run_quantity_meaning():
    res = []
    v = z3.Real('v')
    shapes = [('U', '', 'U')] + [(p + b, p, b) for b in QBASES for p in spec.PREFIXES]
    for unit, p, b in shapes:
        case = f"'v {unit}'"

        def body(I):
            out = vc.call(I, 'Unit.parse_quantity', [SegStr([NumHole(v), ' ', unit])])
            if out.kind == 'return':
                val, base = out.value
                I.oblige('ensures[SI]', z3.And(real(val) == v * spec.num(spec.SI[p]), boolz(I.equals(base, b))),
                         'property', note=f"'v {unit}' denotes v*{spec.SI[p]} {b}")
            else:
                I.oblige('ensures[SI]', False, 'property', note=f"{out.exc.cls} at line {out.exc.lineno} for a "
                                                                f"string of the documented form")
            return out

        def replay(mv, ob):
            inputs = {'v': str(mv.get('v')), 'unit': unit, 'si': str(spec.SI[p]), 'base': b}
            code = (REPLAY_HEAD.format(inputs=json.dumps(inputs)) +
                    "def run():\n    v = float(R.fr(J['v']))\n"
                    "    try:\n        got = Unit.parse_quantity('%r %s' % (v, J['unit']))\n"
                    "    except Exception as e:\n        return {'ok': False, 'observed': repr(e)}\n"
                    "    exp = (F(repr(v)) * F(J['si']), J['base'])\n"
                    "    return {'ok': R.close(got[0], exp[0]) and got[1] == exp[1], 'observed': got, 'expected': [float(exp[0]), exp[1]]}\n")
            return {'inputs': inputs, 'code': code}
        for I, out in vc.explore(body):
            if _unsup(out):
                res.append(vc.unsupported_result(f'{PID}/Unit.parse_quantity/ensures[SI]', case, out.note))
                continue
            res += vc.discharge(I, f'{PID}/Unit.parse_quantity/', case, TIMEOUT, {'v': v}, replay)
    return res


# ------------------------------------------------------------------------------------------------ quantities: rejection, all strings
VALID_QUNITS = ['U'] + [p + b for b in QBASES for p in spec.PREFIXES]


def run_quantity_reject():
    """For ALL strings: if parse_quantity returns, the string is '<float-text> <unit>' with <unit> of the grammar
    (and the value/base are the SI ones).  Strings are split by the number of blanks they contain (0, 1, >= 2);
    the blank-free pieces are unconstrained z3 strings."""
    res = []
    a, b, c = z3.String('tok_a'), z3.String('tok_b'), z3.String('tail')
    isf, fv = float_functions()
    shapes = {
        'no blank': SegStr([StrHole(a, ' ')]),
        'one blank': SegStr([StrHole(a, ' '), ' ', StrHole(b, ' ')]),
        'two or more blanks': SegStr([StrHole(a, ' '), ' ', StrHole(b, ' '), ' ', StrHole(c, '')]),
    }
    for case, text in shapes.items():
        def body(I):
            for t in (a, b):
                I.assume(z3.Not(z3.Contains(t, z3.StringVal(' '))))
            out = vc.call(I, 'Unit.parse_quantity', [text])
            if out.kind == 'return':
                if case != 'one blank':
                    I.oblige('ensures[grammar]', False, 'property', note='accepted a string without exactly one blank')
                else:
                    val, base = out.value
                    goal = z3.And(isf(a), z3.Or(*[b == z3.StringVal(u) for u in VALID_QUNITS]))
                    I.oblige('ensures[grammar]', goal, 'property',
                             note='a returning call means the text is <float> <prefix><base>')
                    # and the meaning is the SI one for whichever unit it is
                    sem = []
                    for u in VALID_QUNITS:
                        p, bb = ('', 'U') if u == 'U' else (u[:-len([x for x in QBASES if u.endswith(x)][0])],
                                                          [x for x in QBASES if u.endswith(x)][0])
                        eqb = I.equals(base, bb)
                        sem.append(z3.Implies(b == z3.StringVal(u),
                                              z3.And(real(val) == fv(a) * spec.num(spec.SI[p]), boolz(eqb))))
                    I.oblige('ensures[SI/all-strings]', z3.And(*sem), 'property')
            else:
                # any exception is a rejection; nothing to prove (the property only forbids giving another meaning)
                I.oblige('raises[rejected]', True, 'aux')
            return out
        n_ret = 0
        for I, out in vc.explore(body, max_paths=2000):
            if _unsup(out):
                res.append(vc.unsupported_result(f'{PID}/Unit.parse_quantity/ensures[grammar]', case, out.note))
                continue
            if isinstance(out, vc.Outcome) and out.kind == 'return':
                n_ret += 1

            def replay(mv, ob):
                return []
            res += vc.discharge(I, f'{PID}/Unit.parse_quantity/', case, TIMEOUT, {'a': a, 'b': b}, _qreject_replay)
        if case == 'one blank':
            res.append({'name': f'{PID}/Unit.parse_quantity/cover[returns]', 'case': case, 'kind': 'cover',
                        'verdict': 'sat' if n_ret > 0 else 'unsat', 'secs': 0.0})
    return res


def _qreject_replay(mv, ob):
    a, b = mv.get('a'), mv.get('b')
    if not isinstance(b, dict):
        return []
    b = b['string']
    a = a['string'] if isinstance(a, dict) else '1'
    jobs = []
    for num in (a, '1', '2.5'):      # the numeral only matters through float(): also try known-good numerals
        inputs = {'text': f"{num} {b}"}
        code = (REPLAY_HEAD.format(inputs=json.dumps(inputs)) +
                "from contracts.c14_grammar import quantity_denotation as spec_q\n"
                "def run():\n"
                "    try:\n        got = Unit.parse_quantity(J['text'])\n"
                "    except Exception as e:\n        return {'ok': True, 'observed': 'rejected: %r' % e}\n"
                "    d = spec_q(J['text'])\n"
                "    return {'ok': d is not None and R.close(got[0], d[0]) and got[1] == d[1], 'observed': got, "
                "'expected': d and [float(d[0]), d[1]]}\n")
        jobs.append({'inputs': inputs, 'code': code})
    return jobs


# ------------------------------------------------------------------------------------------------ concentrations: meaning
def wv_units():
    return vc.repo().config_data['default_weight_volume_units']


def run_conc_ratio(num_unit):
    """'v <num_unit>/<den_unit>' and 'v <num_unit>/w <den_unit>' for every denominator unit."""
    res = []
    v, w = z3.Real('v'), z3.Real('w')
    pn, nb = spec.split_unit(num_unit)
    for db in CBASES:
        for pd in spec.PREFIXES:
            den_unit = pd + db
            for with_w in (False, True):
                parts = [NumHole(v), ' ', num_unit, '/'] + ([NumHole(w), ' '] if with_w else []) + [den_unit]
                case = f"'v {num_unit}/{'w ' if with_w else ''}{den_unit}'"
                exp = v * spec.num(spec.SI[pn]) / spec.num(spec.SI[pd])
                if with_w:
                    exp = exp / w

                def body(I, parts=parts, exp=exp, with_w=with_w):
                    if with_w:
                        I.assume(w != 0)
                    out = vc.call(I, 'Unit.parse_concentration', [SegStr(parts)])
                    if out.kind == 'return':
                        val, n_, d_ = out.value
                        I.oblige('ensures[SI]', z3.And(real(val) == exp, boolz(I.equals(n_, nb)),
                                                       boolz(I.equals(d_, db))), 'property')
                        reuse(I, parts, out.value)
                    else:
                        I.oblige('ensures[SI]', False, 'property',
                                 note=f"{out.exc.cls} at line {out.exc.lineno} for a string of the documented form")
                    return out

                def replay(mv, ob, with_w=with_w, den_unit=den_unit):
                    inputs = {'v': str(mv.get('v')), 'w': str(mv.get('w')), 'with_w': with_w, 'num': num_unit,
                              'den': den_unit}
                    code = (REPLAY_HEAD.format(inputs=json.dumps(inputs)) + CONC_REPLAY)
                    return {'inputs': inputs, 'code': code}
                for I, out in vc.explore(body):
                    if _unsup(out):
                        res.append(vc.unsupported_result(f'{PID}/Unit.parse_concentration/ensures[SI]', case, out.note))
                        continue
                    res += vc.discharge(I, f'{PID}/Unit.parse_concentration/', case, TIMEOUT, {'v': v, 'w': w}, replay)
    return res


CONC_REPLAY = (
    "from contracts.c14_grammar import concentration_denotation\n"
    "def run():\n"
    "    v = float(R.fr(J['v']))\n"
    "    text = '%r %s/' % (v, J['num']) + (('%r ' % float(R.fr(J['w']))) if J.get('with_w') else '') + J['den'] if 'num' in J else J['text'] % v\n"
    "    exp = concentration_denotation(text)\n"
    "    try:\n        got = Unit.parse_concentration(text)\n"
    "    except Exception as e:\n        return {'ok': exp is None, 'observed': repr(e), 'expected': str(exp), 'text': text}\n"
    "    ok = exp is not None and R.close(got[0], exp[0], 1e-9, 1e-10) and tuple(got[1:]) == tuple(exp[1:])\n"
    "    again = [Unit.parse_concentration(text) for _ in range(3)]\n"
    "    if ok and any(tuple(a) != tuple(got) for a in again):\n"
    "        return {'ok': False, 'observed': [got] + again, 'expected': 'the same meaning every time the text is parsed', 'text': text}\n"
    "    return {'ok': ok, 'observed': got, 'expected': exp and [float(exp[0]), exp[1], exp[2]], 'text': text}\n")


def reuse(I, parts, first):
    """the same text parsed again (in the same process) has the same meaning — the parser keeps no state between calls
    (functools.cache is modelled faithfully by the engine: a cached helper hands out the same object again)"""
    again = vc.call(I, 'Unit.parse_concentration', [SegStr(list(parts))])
    if again.kind != 'return':
        I.oblige('ensures[same-on-reuse]', False, 'property', note=f'second parse of the same text raised {again.exc.cls}')
        return
    v1, n1, d1 = first
    v2, n2, d2 = again.value
    I.oblige('ensures[same-on-reuse]', z3.And(real(v1) == real(v2), boolz(I.equals(n1, n2)), boolz(I.equals(d1, d2))),
             'property', note='parsing the same concentration text twice gives two different meanings')


def run_conc_short():
    """'v pM' (molar), 'v pm' (molal = mol/kg) and the three percent forms."""
    res = []
    v = z3.Real('v')
    shapes = []
    for p in spec.PREFIXES:
        shapes.append((f"'v {p}M'", [NumHole(v), ' ', p + 'M'], v * spec.num(spec.SI[p]), 'mol', 'L', f"%r {p}M"))
        shapes.append((f"'v {p}m'", [NumHole(v), ' ', p + 'm'], v * spec.num(spec.SI[p]) / 1000, 'mol', 'g',
                       f"%r {p}m"))
    wvn, wvd = wv_units().split('/')
    (pwn, bwn), (pwd, bwd) = spec.split_unit(wvn), spec.split_unit(wvd)
    shapes.append(("'v %w/w'", [NumHole(v), ' ', '%w/w'], v / 100, 'g', 'g', "%r %%w/w"))
    shapes.append(("'v %v/v'", [NumHole(v), ' ', '%v/v'], v / 100, 'L', 'L', "%r %%v/v"))
    shapes.append(("'v %w/v'", [NumHole(v), ' ', '%w/v'], v / 100 * spec.num(spec.SI[pwn]) / spec.num(spec.SI[pwd]),
                   bwn, bwd, "%r %%w/v"))
    for case, parts, exp, nb, db, fmt in shapes:
        def body(I, parts=parts, exp=exp, nb=nb, db=db):
            out = vc.call(I, 'Unit.parse_concentration', [SegStr(parts)])
            if out.kind == 'return':
                val, n_, d_ = out.value
                I.oblige('ensures[SI]', z3.And(real(val) == exp, boolz(I.equals(n_, nb)), boolz(I.equals(d_, db))),
                         'property')
                reuse(I, parts, out.value)
                if parts[-1] == '%w/v':
                    # '%w/v' means parts per hundred OF THE CONFIGURED UNITS: after the configuration changes (the suite
                    # itself edits `config` at run time) the same text is read with the new units
                    other = 'g/L' if wv_units() != 'g/L' else 'mg/mL'
                    I.cfg.data['default_weight_volume_units'] = other
                    (pn_, bn_), (pd_, bd_) = spec.split_unit(other.split('/')[0]), spec.split_unit(other.split('/')[1])
                    again = vc.call(I, 'Unit.parse_concentration', [SegStr(list(parts))])
                    if again.kind != 'return':
                        I.oblige('ensures[config-change]', False, 'property', note=f'{again.exc.cls} after a configuration change')
                    else:
                        v2, n2, d2 = again.value
                        I.oblige('ensures[config-change]', z3.And(real(v2) == v / 100 * spec.num(spec.SI[pn_]) / spec.num(spec.SI[pd_]),
                                                                   boolz(I.equals(n2, bn_)), boolz(I.equals(d2, bd_))), 'property',
                                 note=f"'v %w/v' after default_weight_volume_units was set to {other!r}")
            else:
                I.oblige('ensures[SI]', False, 'property',
                         note=f"{out.exc.cls} at line {out.exc.lineno} for a string of the documented form")
            return out

        def replay(mv, ob, fmt=fmt):
            inputs = {'v': str(mv.get('v')), 'text': fmt}
            return {'inputs': inputs, 'code': REPLAY_HEAD.format(inputs=json.dumps(inputs)) + CONC_REPLAY}
        for I, out in vc.explore(body):
            if _unsup(out):
                res.append(vc.unsupported_result(f'{PID}/Unit.parse_concentration/ensures[SI]', case, out.note))
                continue
            res += vc.discharge(I, f'{PID}/Unit.parse_concentration/', case, TIMEOUT, {'v': v}, replay)
    return res


# ------------------------------------------------------------------------------------------------ equivalence of spellings
def run_lemmas():
    """The spellings named in the property text denote the same ratio: executed on the real parser with concrete
    numerals (exact rationals), compared pairwise."""
    res = []
    groups = [
        ['1 M', '1 mol/L', '1 mmol/mL', '0.01 mmol/10 uL', '1 umol/uL', '1000 mM', '0.001 kmol/L', '1 µmol/µL'],
        ['1 m', '1 mol/kg', '1 mmol/g', '1000 mm'],
        ['5 %w/w', '0.05 g/g', '50 mg/g', '5 g/100 g'],
        ['5 %v/v', '0.05 L/L', '50 uL/mL'],
        ['10 U/mg', '10 kU/g', '0.01 U/ug'],
    ]
    for g in groups:
        vals = []
        for text in g:
            def body(I, text=text):
                return vc.call(I, 'Unit.parse_concentration', [text])
            paths = vc.explore(body)
            if len(paths) != 1 or _unsup(paths[0][1]) or paths[0][1].kind != 'return':
                res.append({'name': f'{PID}/lemma/equivalent-spellings', 'case': text, 'kind': 'property',
                            'verdict': 'refuted' if (len(paths) == 1 and not _unsup(paths[0][1])) else 'unsupported',
                            'note': f'{paths[0][1]!r}', 'secs': 0.0,
                            'replays': [_equiv_replay(g)]})
                vals = None
                break
            vals.append(paths[0][1].value)
        if vals is None:
            continue
        same = all(tuple(x) == tuple(vals[0]) for x in vals)
        res.append({'name': f'{PID}/lemma/equivalent-spellings', 'case': ' == '.join(g), 'kind': 'property',
                    'verdict': 'proved' if same else 'refuted', 'secs': 0.0, 'backend': 'exact-rational evaluation',
                    'note': None if same else str([tuple(map(str, x)) for x in vals]),
                    'replays': [] if same else [_equiv_replay(g)]})
    return res


def _equiv_replay(group):
    inputs = {'group': group}
    code = (REPLAY_HEAD.format(inputs=json.dumps(inputs)) +
            "def run():\n    out = []\n"
            "    for t in J['group']:\n"
            "        try:\n            out.append(Unit.parse_concentration(t))\n"
            "        except Exception as e:\n            return {'ok': False, 'observed': '%s -> %r' % (t, e)}\n"
            "    ok = all(R.close(o[0], out[0][0], 1e-9, 1e-12) and tuple(o[1:]) == tuple(out[0][1:]) for o in out)\n"
            "    return {'ok': ok, 'observed': out}\n")
    return {'inputs': inputs, 'code': code}


# ------------------------------------------------------------------------------------------------ concentrations: rejection (bounded)
TOKENS = {
    'quick': ['1', '2.5', 'mol', 'mmol', 'L', 'uL', 'g', 'U', 'M', 'm', '%w/v', '%', 'x', 'mmolx', 'xg', 'kg'],
    'thorough': ['1', '2.5', '-3', '1e2', 'mol', 'mmol', 'µmol', 'L', 'uL', 'daL', 'g', 'kg', 'U', 'kU', 'M', 'mM', 'm',
                 'mm', '%w/v', '%v/v', '%w/w', '%', 'x', 'mmolx', 'xg', 'Lm', 'w/v', 'molL', 'pmol'],
}


MAXDEN = {'quick': 2, 'thorough': 2}


def conc_strings(tokset):
    """the enumeration, as generated inside the native job (kept here for the count and for reading)"""
    toks = TOKENS[tokset]
    nums = [list(t) for n in (1, 2, 3) for t in itertools.product(toks, repeat=n)]
    dens = [[]] + [list(t) for n in range(1, MAXDEN[tokset] + 1) for t in itertools.product(toks, repeat=n)]
    for nu in nums:
        for de in dens:
            if de == []:
                yield ' '.join(nu)
            else:
                yield ' '.join(nu) + '/' + ' '.join(de)


def run_conc_reject_bounded(tokset, chunk, nchunks):
    """Bounded stand-in: executes the REAL parse_concentration (natively, on the current tree) on every string made
    of up to 3 tokens in the numerator and up to 2 in the denominator from a grammar-derived token set; a string
    outside the documented grammar that is given a meaning — or a string inside it that is rejected or mis-valued —
    is a failing input.  The strings are generated inside the native job (nothing is materialised here)."""
    job = {'inputs': {'tokens': TOKENS[tokset], 'chunk': chunk, 'nchunks': nchunks},
           'code': BOUNDED_CODE.replace('@@TOKENS@@', json.dumps(TOKENS[tokset])).replace('@@MAXDEN@@', str(MAXDEN[tokset]))
           .replace('@@CHUNK@@', str(chunk)).replace('@@NCHUNKS@@', str(nchunks))}
    out = harness.run_replay(job, timeout=3000)
    bound = f"all strings of <=3 tokens numerator x <={MAXDEN[tokset]} tokens denominator over {len(TOKENS[tokset])} tokens"
    if out.get('ok') is None:
        return [{'name': f'{PID}/Unit.parse_concentration/bounded[reject]', 'case': f'chunk {chunk}', 'kind': 'bounded',
                 'verdict': 'unknown', 'note': str(out.get('error'))[-500:], 'count': 0, 'bound': bound, 'secs': 0.0}]
    res = []
    fails = out.get('failures', [])
    res.append({'name': f'{PID}/Unit.parse_concentration/bounded[reject]', 'case': f'chunk {chunk}', 'kind': 'bounded',
                'verdict': 'proved', 'count': out.get('count', 0) - len(fails), 'bound': bound, 'secs': 0.0})
    classes = {}
    for f in fails:
        classes.setdefault(f['class'], f)
    for cls, f in classes.items():
        inputs = {'text': f['text']}
        code = (REPLAY_HEAD.format(inputs=json.dumps(inputs)) + CONC_REPLAY)
        res.append({'name': f'{PID}/Unit.parse_concentration/bounded[reject]', 'case': cls, 'kind': 'bounded',
                    'verdict': 'refuted', 'count': 1, 'bound': bound, 'secs': 0.0,
                    'note': f"{f['text']!r} -> {f['observed']}",
                    'replays': [{'inputs': inputs, 'code': code.replace("J['text'] % v", "J['text']").replace(
                        "v = float(R.fr(J['v']))", "v = None")}]})
    return res


BOUNDED_CODE = r'''
import itertools
import json
from pyplate import Unit
from pyvc import replaylib as R
from contracts.c14_grammar import concentration_denotation, classify
TOKENS = json.loads(r"""@@TOKENS@@""")
def strings():
    nums = [' '.join(t) for n in (1, 2, 3) for t in itertools.product(TOKENS, repeat=n)]
    dens = [''] + ['/' + ' '.join(t) for n in range(1, @@MAXDEN@@ + 1) for t in itertools.product(TOKENS, repeat=n)]
    for i, nu in enumerate(nums):
        if i % @@NCHUNKS@@ != @@CHUNK@@:
            continue
        for de in dens:
            yield nu + de
def run():
    fails = []
    count = 0
    for t in strings():
        count += 1
        exp = concentration_denotation(t)
        try:
            got = Unit.parse_concentration(t)
        except Exception as e:
            if exp is not None:
                fails.append({'text': t, 'observed': 'rejected: %r' % e, 'class': 'rejects-documented-form'})
            continue
        if exp is None:
            fails.append({'text': t, 'observed': repr(got), 'class': classify(t)})
        elif not (R.close(got[0], exp[0], 1e-9, 1e-10) and tuple(got[1:]) == tuple(exp[1:])):
            fails.append({'text': t, 'observed': repr(got), 'class': 'wrong-value'})
        if len(fails) > 5000:
            break
    return {'ok': True, 'count': count, 'failures': fails[:2000]}
'''


# ------------------------------------------------------------------------------------------------ canaries
def run_canaries():
    res = []
    v = z3.Real('v')

    def body(I):
        I.assume(v != 0)
        out = vc.call(I, 'Unit.parse_quantity', [SegStr([NumHole(v), ' ', 'mL'])])
        if out.kind != 'return':
            return out
        val, base = out.value
        I.oblige('canary[mL-is-micro]', real(val) == v * spec.num(spec.SI['u']), 'canary-false')
        I.oblige('canary[mL-is-milli]', real(val) == v * spec.num(spec.SI['m']), 'canary-true')
        return out
    for I, out in vc.explore(body):
        res += vc.discharge(I, f'{PID}/Unit.parse_quantity/', "'v mL'", TIMEOUT)

    def body2(I):
        I.assume(v != 0)
        out = vc.call(I, 'Unit.parse_concentration', [SegStr([NumHole(v), ' ', 'mmol/mL'])])
        if out.kind != 'return':
            return out
        val, n_, d_ = out.value
        I.oblige('canary[mmol/mL-is-milli]', real(val) == v / 1000, 'canary-false')
        return out
    for I, out in vc.explore(body2):
        res += vc.discharge(I, f'{PID}/Unit.parse_concentration/', "'v mmol/mL'", TIMEOUT)
    return res
