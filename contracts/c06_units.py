"""C06 — Unit conversions follow molar mass, density and specific activity.

Functions under contract: Unit.convert_prefix_to_multiplier, Unit.convert_from, Unit.convert,
Unit.convert_to_storage, Unit.convert_from_storage, Substance.solid/liquid/enzyme.
The postconditions are the specification functions of pyvc/spec.py (written from SI and the property text).
"""
from fractions import Fraction

import z3

from pyvc import vc, spec, solve
from pyvc.values import *   # noqa: F401,F403
from pyvc.builtins_ import sub_term

PID = 'C06'
KINDS = {1: 'solid', 2: 'liquid', 3: 'enzyme'}
UNITS = spec.all_units()
FUNCTIONS = ['Unit.convert_prefix_to_multiplier', 'Unit.convert_from', 'Unit.convert', 'Unit.convert_to_storage',
             'Unit.convert_from_storage', 'Substance.solid', 'Substance.liquid', 'Substance.enzyme',
             'Substance.__init__', 'Substance.is_enzyme', 'Unit.parse_quantity', 'Unit.parse_concentration']
TIMEOUT = 20000


def sym_cfg(I=None):
    """Configuration with symbolic positive default densities ("under any configured default densities")."""
    data = dict(vc.repo().config_data)
    data['default_solid_density'] = z3.Real('cfg_solid_density')
    data['default_enzyme_density'] = z3.Real('cfg_enzyme_density')
    return data


def cfg_axioms(I):
    I.assume(z3.Real('cfg_solid_density') > 0)
    I.assume(z3.Real('cfg_enzyme_density') > 0)


def sub_inputs(s):
    return {'mw': mw(s), 'dens': dens(s), 'sa': sa(s)}


def mk_sub_code(kind_):
    return f"s = R.mksub({kind_}, R.fr(J['mw']), R.fr(J['dens']), R.fr(J['sa']))\nS = R.subspec({kind_}, J['mw'], J['dens'], J['sa'])\n"


REPLAY_HEAD = ("import json\nfrom fractions import Fraction as F\nfrom pyvc import replaylib as R, spec\n"
               "from pyplate import Unit, Substance\nJ = json.loads({inputs!r})\n")


def tasks(tier):
    t = [('prefix',)]
    for k in KINDS:
        for fu in UNITS:
            t.append(('convert_from', k, fu))
    for k in KINDS:
        for fb in spec.BASES:
            t.append(('convert', k, fb))
    t.append(('storage',))
    t.append(('factories',))
    t.append(('lemmas',))
    t.append(('canaries',))
    t.append(('cache_transparency',))
    return t


def run(kind, *args):
    return globals()['run_' + kind](*args)


# ------------------------------------------------------------------------------------------------ prefixes
def run_prefix():
    res = []
    for p, val in spec.SI.items():
        def body(I, p=p, val=val):
            out = vc.call(I, 'Unit.convert_prefix_to_multiplier', [p])
            if out.kind == 'return':
                I.oblige('ensures[SI]', real(out.value) == spec.num(val), 'property',
                         note=f"multiplier of prefix {p!r} must be {val}")
            else:
                I.oblige('ensures[SI]', False, 'property', note=f"supported prefix {p!r} raised {out.exc.cls}")
            return out
        for I, out in vc.explore(body):
            if isinstance(out, vc.Outcome) and out.kind == 'unsupported':
                res.append(vc.unsupported_result(f'{PID}/Unit.convert_prefix_to_multiplier/ensures[SI]', repr(p), out.note))
                continue

            def replay(mv, ob, p=p, val=val):
                code = (REPLAY_HEAD.format(inputs='{}') +
                        f"def run():\n    got = Unit.convert_prefix_to_multiplier({p!r})\n"
                        f"    exp = F({str(val)!r})\n    return {{'ok': R.close(got, exp), 'observed': got, 'expected': str(exp)}}\n")
                return {'inputs': {'prefix': p}, 'code': code}
            res += vc.discharge(I, f'{PID}/Unit.convert_prefix_to_multiplier/', repr(p), TIMEOUT, {}, replay)
    # strings that are not supported prefixes are rejected (finite sample; the table itself is covered above)
    for bad in ['x', 'mm', 'K', 'p', ' ', 'mu', 'D']:
        def body(I, bad=bad):
            out = vc.call(I, 'Unit.convert_prefix_to_multiplier', [bad])
            ok = out.kind == 'raise' and out.exc.cls == 'ValueError'
            I.oblige('raises[unsupported-prefix]', ok, 'property', note=f"{bad!r} is not a supported prefix")
            return out
        for I, out in vc.explore(body):
            res += vc.discharge(I, f'{PID}/Unit.convert_prefix_to_multiplier/', repr(bad), TIMEOUT)
    return res


# ------------------------------------------------------------------------------------------------ convert_from
def run_convert_from(kind_, fu, to_units=None, canary=None):
    res = []
    pf, fb = spec.split_unit(fu)
    for tu in (to_units or UNITS):
        case = f"{KINDS[kind_]}:{fu}->{tu}"
        s = z3.Const('s', Sub)
        q = z3.Real('q')
        S = spec.SubSpec(kind_, mw(s), dens(s), sa(s))
        rej = spec.rejects(S, fb)
        expected = None if rej else spec.convert_spec(S, q, fu, tu)
        if canary == 'off-by-1000' and expected is not None:
            expected = expected * 1000

        def body(I):
            I.assume(vc.sub_wf(s))
            I.assume(kind(s) == kind_)
            if canary:
                I.assume(q != 0)
            I.oblige('cover', True, 'cover')
            out = vc.call(I, 'Unit.convert_from', [SubV(s), q, fu, tu])
            if out.kind == 'return':
                if rej:
                    I.oblige('raises[U-source]', False, 'property',
                             note='measuring a non-enzyme in activity units must be rejected')
                else:
                    I.oblige('ensures[factor]', real(out.value) == expected, 'property')
            else:
                if out.exc.cls == 'ValueError' and not out.exc.implicit:
                    I.oblige('raises[U-source]', bool(rej), 'property',
                             note=f'ValueError at line {out.exc.lineno} for a convertible request')
                else:
                    I.oblige(f'safe[{out.exc.cls}]', False, 'property',
                             note=f'{out.exc.cls} at line {out.exc.lineno}')
            return out

        def replay(mv, ob):
            inputs = {k: str(v) for k, v in mv.items()}
            inputs.update(kind=kind_, fu=fu, tu=tu)
            import json
            code = (REPLAY_HEAD.format(inputs=json.dumps(inputs)) + mk_sub_code(kind_) +
                    "def run():\n"
                    "    q = R.fr(J['q'])\n"
                    "    rej = spec.rejects(S, spec.split_unit(J['fu'])[1])\n"
                    "    try:\n"
                    "        got = Unit.convert_from(s, float(q), J['fu'], J['tu'])\n"
                    "    except ValueError as e:\n"
                    "        return {'ok': bool(rej), 'observed': 'ValueError: %s' % e, 'expected': 'rejected' if rej else 'a value'}\n"
                    "    except Exception as e:\n"
                    "        return {'ok': False, 'observed': repr(e), 'expected': 'no such exception'}\n"
                    "    if rej:\n"
                    "        return {'ok': False, 'observed': got, 'expected': 'ValueError'}\n"
                    "    exp = spec.convert_spec(S, q, J['fu'], J['tu'])\n"
                    "    return {'ok': R.close(got, exp), 'observed': got, 'expected': float(exp)}\n")
            return {'inputs': inputs, 'code': code}

        inputs = {'q': q}
        inputs.update(sub_inputs(s))
        kindname = 'canary-false' if canary else None
        for I, out in vc.explore(body):
            if isinstance(out, vc.Outcome) and out.kind == 'unsupported':
                res.append(vc.unsupported_result(f'{PID}/Unit.convert_from/ensures[factor]', case, out.note))
                continue
            rs = vc.discharge(I, f'{PID}/Unit.convert_from/', case, TIMEOUT, inputs, replay)
            if canary:
                rs = [dict(r, kind='canary-false', name=r['name'] + '#' + canary) for r in rs
                      if r['kind'] == 'property' and 'ensures[factor]' in r['name']]
            res += rs
    return res


# ------------------------------------------------------------------------------------------------ convert (string form)
def run_convert(kind_, fb):
    """Unit.convert(substance, 'v <unit>', to_unit): every prefix on the quantity side x every target unit."""
    res = []
    for pf in spec.PREFIXES:
        fu = pf + fb
        if fb == 'U' and pf != '':
            continue      # the quantity grammar has no prefixed activity units
        for tu in UNITS:
            case = f"{KINDS[kind_]}:'v {fu}'->{tu}"
            s = z3.Const('s', Sub)
            q = z3.Real('q')
            S = spec.SubSpec(kind_, mw(s), dens(s), sa(s))
            rej = spec.rejects(S, fb)
            expected = None if rej else spec.convert_spec(S, q, fu, tu)

            def body(I):
                I.assume(vc.sub_wf(s))
                I.assume(kind(s) == kind_)
                out = vc.call(I, 'Unit.convert', [SubV(s), SegStr([NumHole(q), ' ', fu]), tu])
                if out.kind == 'return':
                    if rej:
                        I.oblige('raises[U-source]', False, 'property')
                    else:
                        I.oblige('ensures[factor]', real(out.value) == expected, 'property')
                else:
                    if out.exc.cls == 'ValueError' and not out.exc.implicit:
                        I.oblige('raises[U-source]', bool(rej), 'property',
                                 note=f'ValueError at line {out.exc.lineno} for a convertible request')
                    else:
                        I.oblige(f'safe[{out.exc.cls}]', False, 'property', note=f'line {out.exc.lineno}')
                return out

            def replay(mv, ob):
                import json
                inputs = {k: str(v) for k, v in mv.items()}
                inputs.update(kind=kind_, fu=fu, tu=tu)
                code = (REPLAY_HEAD.format(inputs=json.dumps(inputs)) + mk_sub_code(kind_) +
                        "def run():\n"
                        "    q = R.fr(J['q'])\n"
                        "    rej = spec.rejects(S, spec.split_unit(J['fu'])[1])\n"
                        "    try:\n"
                        "        got = Unit.convert(s, '%r %s' % (float(q), J['fu']), J['tu'])\n"
                        "    except ValueError as e:\n"
                        "        return {'ok': bool(rej), 'observed': 'ValueError: %s' % e}\n"
                        "    except Exception as e:\n"
                        "        return {'ok': False, 'observed': repr(e)}\n"
                        "    if rej:\n"
                        "        return {'ok': False, 'observed': got, 'expected': 'ValueError'}\n"
                        "    exp = spec.convert_spec(S, F(repr(float(q))), J['fu'], J['tu'])\n"
                        "    return {'ok': R.close(got, exp), 'observed': got, 'expected': float(exp)}\n")
                return {'inputs': inputs, 'code': code}
            inputs = {'q': q}
            inputs.update(sub_inputs(s))
            for I, out in vc.explore(body):
                if isinstance(out, vc.Outcome) and out.kind == 'unsupported':
                    res.append(vc.unsupported_result(f'{PID}/Unit.convert/ensures[factor]', case, out.note))
                    continue
                res += vc.discharge(I, f'{PID}/Unit.convert/', case, TIMEOUT, inputs, replay)
    return res


# ------------------------------------------------------------------------------------------------ storage
def storage_prefix(cfg, which):
    u = cfg['volume_storage_unit'] if which == 'L' else cfg['moles_storage_unit']
    return spec.split_unit(u)[0]


def run_storage(cfg=None, pid=PID):
    """convert_to_storage / convert_from_storage under the given configuration (default: the shipped one)."""
    res = []
    cfgd = dict(vc.repo().config_data) if cfg is None else cfg
    tag = f"[{cfgd['moles_storage_unit']},{cfgd['volume_storage_unit']}]"
    for base in ('L', 'mol'):
        sp = spec.SI[storage_prefix(cfgd, base)]
        for p in spec.PREFIXES:
            unit = p + base
            v = z3.Real('v')
            for fn, expected in (('Unit.convert_to_storage', v * spec.num(spec.SI[p]) / spec.num(sp)),
                                 ('Unit.convert_from_storage', v * spec.num(sp) / spec.num(spec.SI[p]))):
                case = f"{unit}{tag}"

                def body(I, fn=fn, expected=expected):
                    out = vc.call(I, fn, [v, unit])
                    if out.kind == 'return':
                        I.oblige('ensures[storage]', real(out.value) == expected, 'property')
                    else:
                        I.oblige(f'safe[{out.exc.cls}]', False, 'property', note=f'line {out.exc.lineno}')
                    return out

                def replay(mv, ob, fn=fn):
                    import json
                    inputs = {'v': str(mv.get('v')), 'unit': unit, 'fn': fn.split('.')[1],
                              'sp': str(sp), 'p': str(spec.SI[p])}
                    code = (REPLAY_HEAD.format(inputs=json.dumps(inputs)) +
                            "def run():\n"
                            "    v = R.fr(J['v']); sp = F(J['sp']); p = F(J['p'])\n"
                            "    exp = v * p / sp if J['fn'] == 'convert_to_storage' else v * sp / p\n"
                            "    try:\n"
                            "        got = getattr(Unit, J['fn'])(float(v), J['unit'])\n"
                            "    except Exception as e:\n"
                            "        return {'ok': False, 'observed': repr(e), 'expected': float(exp)}\n"
                            "    return {'ok': R.close(got, exp, 1e-9, 1e-9), 'observed': got, 'expected': float(exp)}\n")
                    job = {'inputs': inputs, 'code': code}
                    if cfg is not None:
                        job['config_yaml'] = yaml_of(cfgd)
                    return job
                for I, out in vc.explore(body, cfg=cfgd):
                    if isinstance(out, vc.Outcome) and out.kind == 'unsupported':
                        res.append(vc.unsupported_result(f'{pid}/{fn}/ensures[storage]', case, out.note))
                        continue
                    res += vc.discharge(I, f'{pid}/{fn}/', case, TIMEOUT, {'v': v}, replay)
            # round trip
            case = f"{unit}{tag}"

            def body_rt(I):
                a = vc.call(I, 'Unit.convert_to_storage', [v, unit])
                if a.kind != 'return':
                    I.oblige('ensures[roundtrip]', False, 'property', note=f'{a.exc.cls}')
                    return a
                b = vc.call(I, 'Unit.convert_from_storage', [a.value, unit])
                if b.kind != 'return':
                    I.oblige('ensures[roundtrip]', False, 'property', note=f'{b.exc.cls}')
                    return b
                I.oblige('ensures[roundtrip]', real(b.value) == v, 'property')
                return b
            for I, out in vc.explore(body_rt, cfg=cfgd):
                if isinstance(out, vc.Outcome) and out.kind == 'unsupported':
                    res.append(vc.unsupported_result(f'{pid}/storage/ensures[roundtrip]', case, out.note))
                    continue
                res += vc.discharge(I, f'{pid}/storage/', case, TIMEOUT, {'v': v})
    return res


def yaml_of(cfgd):
    lines = []
    for k, v in cfgd.items():
        if isinstance(v, dict):
            lines.append(f"{k}:")
            for kk, vv in v.items():
                lines.append(f"  {kk}: {vv}")
        else:
            lines.append(f"{k}: {v}")
    return '\n'.join(lines) + '\n'


# ------------------------------------------------------------------------------------------------ factories
def run_factories():
    res = []
    cfgd = sym_cfg()
    m, d = z3.Real('m'), z3.Real('d')
    nm = NameV(z3.Const('nm', Name))

    # --- solid
    def body_solid(I):
        cfg_axioms(I)
        out = vc.call(I, 'Substance.solid', [nm, m])
        if out.kind == 'return':
            o = out.value
            I.oblige('ensures[solid]', z3.And(m > 0, boolz(I.equals(o.fields['_type'], 1)),
                                              real(o.fields['mol_weight']) == m,
                                              real(o.fields['density']) == z3.Real('cfg_solid_density')), 'property')
        elif out.exc.cls == 'ValueError':
            I.oblige('raises[nonpositive]', z3.Not(m > 0), 'property', note='positive molecular weight refused')
        else:
            I.oblige(f'safe[{out.exc.cls}]', False, 'property', note=f'line {out.exc.lineno}')
        return out
    for I, out in vc.explore(body_solid, cfg=cfgd):
        res += _disch(I, out, 'Substance.solid', 'any mw', {'m': m})

    # --- liquid
    def body_liquid(I):
        cfg_axioms(I)
        out = vc.call(I, 'Substance.liquid', [nm, m, d])
        if out.kind == 'return':
            o = out.value
            I.oblige('ensures[liquid]', z3.And(m > 0, d > 0, boolz(I.equals(o.fields['_type'], 2)),
                                               real(o.fields['mol_weight']) == m, real(o.fields['density']) == d),
                     'property')
        elif out.exc.cls == 'ValueError':
            I.oblige('raises[nonpositive]', z3.Not(z3.And(m > 0, d > 0)), 'property')
        else:
            I.oblige(f'safe[{out.exc.cls}]', False, 'property', note=f'line {out.exc.lineno}')
        return out
    for I, out in vc.explore(body_liquid, cfg=cfgd):
        res += _disch(I, out, 'Substance.liquid', 'any mw, density', {'m': m, 'd': d})

    # --- enzyme: every spelling  'v pU/pg', 'v pU/w pg', 'v pg/pU'
    v, w = z3.Real('v'), z3.Real('w')
    forms = []
    for pn in spec.PREFIXES:
        for pd in spec.PREFIXES:
            forms.append(('U/g', pn, pd, False))
            forms.append(('g/U', pn, pd, False))
    for pn in ('', 'k', 'm'):
        for pd in ('', 'm', 'k'):
            forms.append(('U/g', pn, pd, True))
    for form, pn, pd, with_den_value in forms:
        num_u, den_u = (pn + 'U', pd + 'g') if form == 'U/g' else (pn + 'g', pd + 'U')
        parts = [NumHole(v), ' ', num_u, '/']
        if with_den_value:
            parts += [NumHole(w), ' ']
        parts += [den_u]
        text = SegStr(parts)
        ratio = v * spec.num(spec.SI[pn]) / spec.num(spec.SI[pd])
        if with_den_value:
            ratio = ratio / w
        case = f"'v {num_u}/{'w ' if with_den_value else ''}{den_u}'"

        def body_enz(I, text=text, ratio=ratio, form=form):
            cfg_axioms(I)
            I.assume(v > 0)
            if with_den_value:
                I.assume(w > 0)
            out = vc.call(I, 'Substance.enzyme', [nm, text])
            if out.kind == 'return':
                o = out.value
                exp = ratio if form == 'U/g' else 1 / ratio
                I.oblige('ensures[enzyme]', z3.And(boolz(I.equals(o.fields['_type'], 3)),
                                                   real(o.fields['specific_activity']) == exp,
                                                   real(o.fields['density']) == z3.Real('cfg_enzyme_density')),
                         'property')
            else:
                I.oblige(f'safe[{out.exc.cls}]', False, 'property',
                         note=f'{out.exc.cls} at line {out.exc.lineno} for a positive specific activity')
            return out
        for I, out in vc.explore(body_enz, cfg=cfgd):
            res += _disch(I, out, 'Substance.enzyme', case, {'v': v, 'w': w})
    return res


def _disch(I, out, fn, case, inputs, replay=None):
    if isinstance(out, vc.Outcome) and out.kind == 'unsupported':
        return [vc.unsupported_result(f'{PID}/{fn}/ensures', case, out.note)]
    return vc.discharge(I, f'{PID}/{fn}/', case, TIMEOUT, inputs, replay)


# ------------------------------------------------------------------------------------------------ lemmas over the spec
def run_lemmas():
    """Closed formulas over the specification function `factor` (no code involved): linear, compose, round-trip."""
    res = []
    s = z3.Const('s', Sub)
    q1, q2 = z3.Real('q1'), z3.Real('q2')
    for kind_ in KINDS:
        S = spec.SubSpec(kind_, mw(s), dens(s), sa(s))
        hyps = [vc.sub_wf(s), kind(s) == kind_]

        def finite_nonzero(a, b):
            # by the kind rules of the property: zero/rejected exactly in these cells
            if spec.rejects(S, a):
                return False
            f = spec.factor(S, a, b)
            return not (isinstance(f, Fraction) and f == 0)
        for a in spec.BASES:
            for b in spec.BASES:
                if not finite_nonzero(a, b):
                    continue
                fab = spec.num(spec.factor(S, a, b))
                v, m_, dt, be = solve.prove(hyps, (q1 + q2) * fab == q1 * fab + q2 * fab, TIMEOUT)
                res.append({'name': f'{PID}/lemma/linear', 'case': f'{KINDS[kind_]}:{a}->{b}', 'kind': 'property',
                            'verdict': v, 'secs': dt, 'backend': be})
                if finite_nonzero(b, a):
                    v, m_, dt, be = solve.prove(hyps, fab * spec.num(spec.factor(S, b, a)) == 1, TIMEOUT)
                    res.append({'name': f'{PID}/lemma/roundtrip', 'case': f'{KINDS[kind_]}:{a}->{b}->{a}',
                                'kind': 'property', 'verdict': v, 'secs': dt, 'backend': be})
                for c in spec.BASES:
                    if finite_nonzero(b, c) and finite_nonzero(a, c):
                        v, m_, dt, be = solve.prove(
                            hyps, fab * spec.num(spec.factor(S, b, c)) == spec.num(spec.factor(S, a, c)), TIMEOUT)
                        res.append({'name': f'{PID}/lemma/compose', 'case': f'{KINDS[kind_]}:{a}->{b}->{c}',
                                    'kind': 'property', 'verdict': v, 'secs': dt, 'backend': be})
    return res


# ------------------------------------------------------------------------------------------------ canaries
def run_canaries():
    res = []
    # deliberately false: the factor is 1000 times the specified one (must be refuted on the real code)
    res += run_convert_from(2, 'mL', ['mmol', 'g'], canary='off-by-1000')
    res += run_convert_from(3, 'U', ['mg'], canary='off-by-1000')
    # deliberately true and trivial
    v, m_, dt, be = solve.prove([z3.Real('x') > 0], z3.Real('x') * 2 > 0, TIMEOUT)
    res.append({'name': f'{PID}/canary/trivially-true', 'case': '-', 'kind': 'canary-true', 'verdict': v, 'secs': dt,
                'backend': be})
    return res


# ------------------------------------------------------------------------------------------------ cache transparency (T7)
def _self_reads(cls, mname, seen=None):
    """attributes of `self` read by method `mname` of class info `cls` (following self.method() calls)."""
    import ast
    seen = seen or set()
    if (cls.name, mname) in seen or mname not in cls.methods:
        return set()
    seen.add((cls.name, mname))
    node = cls.methods[mname]
    params = [a.arg for a in node.args.args]
    if not params:
        return set()
    return _reads_on(node, params[0], cls, seen)


def _reads_on(node, pname, cls, seen):
    """fields of the object bound to parameter `pname` that the function depends on: direct attribute reads, reads of its
    own methods, and — when the object is handed on as an argument to another function of the package — what that
    function reads of it"""
    import ast
    out = set()
    repo = vc.repo()
    for n in ast.walk(node):
        if isinstance(n, ast.Attribute) and isinstance(n.value, ast.Name) and n.value.id == pname:
            if cls is not None and n.attr in cls.methods:
                out |= _self_reads(cls, n.attr, seen)
            else:
                out.add(n.attr)
        if isinstance(n, ast.Call):
            for i, a in enumerate(n.args):
                if not (isinstance(a, ast.Name) and a.id == pname):
                    continue
                f = n.func
                callee = None
                if isinstance(f, ast.Attribute) and isinstance(f.value, ast.Name) and f.value.id in repo.classes \
                        and f.attr in repo.classes[f.value.id].methods:
                    ccls = repo.classes[f.value.id]
                    callee = ccls.methods[f.attr]
                    off = 0 if 'staticmethod' in ccls.decorators.get(f.attr, []) else 1
                    key = ('call', ccls.name, f.attr, i)
                    if key in seen or callee is node:
                        continue
                    seen.add(key)
                    ps = callee.args.args
                    if i + off < len(ps):
                        ann = ps[i + off].annotation
                        ann = ast.unparse(ann).strip("'\"") if ann is not None else None
                        if cls is not None and ann == cls.name:      # handed on as an object of the same class
                            out |= _reads_on(callee, ps[i + off].arg, cls, seen)
    return out


def run_cache_transparency(pid=None):
    """functools.cache is treated as transparent by the engine (T7).  That is only sound if a cached function depends
    on its hashable arguments through nothing but the fields their __eq__/__hash__ compare.  Checked syntactically
    for every @cache / @lru_cache function of the package (a 'reads' frame condition)."""
    import ast
    res = []
    repo = vc.repo()
    for cname, cls in repo.classes.items():
        for mname, node in cls.methods.items():
            decs = cls.decorators.get(mname, [])
            if not any(d.split('(')[0].split('.')[-1] in ('cache', 'lru_cache') for d in decs):
                continue
            static = 'staticmethod' in decs
            params = node.args.args
            bad = []
            for i, a in enumerate(params):
                pcls = None
                if i == 0 and not static:
                    pcls = cls
                elif a.annotation is not None:
                    ann = ast.unparse(a.annotation).strip("'\"")
                    pcls = repo.classes.get(ann)
                if pcls is None or '__eq__' not in pcls.methods:
                    continue
                eqf = _self_reads(pcls, '__eq__')
                if '__hash__' in pcls.methods:
                    eqf &= _self_reads(pcls, '__hash__') | {'contents'}
                reads = _reads_on(node, a.arg, pcls, set())
                extra = sorted(r for r in reads if r not in eqf and not r.startswith('__'))
                if extra:
                    bad.append((a.arg, pcls.name, extra))
            r = {'name': f'{PID}/cache-transparent', 'case': f'{cname}.{mname}', 'kind': 'property',
                 'verdict': 'refuted' if bad else 'proved', 'secs': 0.0, 'backend': 'syntactic frame (reads) analysis',
                 'note': None if not bad else f"@cache function reads {bad} — fields that __eq__/__hash__ ignore"}
            if bad and f'{cname}.{mname}' == 'Unit.convert_from':
                code = ("from pyplate import Unit, Substance\nfrom pyvc import replaylib as R\n"
                        "def run():\n"
                        "    a = Substance.enzyme('lipase', '10 U/mg'); b = Substance.enzyme('lipase', '25 U/mg')\n"
                        "    ra = Unit.convert_from(a, 1.0, 'g', 'U'); rb = Unit.convert_from(b, 1.0, 'g', 'U')\n"
                        "    return {'ok': R.close(ra, 10000.0) and R.close(rb, 25000.0), 'observed': [ra, rb], 'expected': [10000.0, 25000.0]}\n")
                r['replays'] = [{'inputs': {'scenario': 'two equal-named enzymes with different specific activity, '
                                                        '1 g -> U for each'}, 'code': code}]
            res.append(r)
    if pid is not None:
        res = [dict(r, name=r['name'].replace(f'{PID}/', f'{pid}/', 1)) for r in res]
    if not res:
        res.append({'name': f'{pid or PID}/cache-transparent', 'case': '(no cached functions)', 'kind': 'property',
                    'verdict': 'proved', 'secs': 0.0, 'backend': 'syntactic'})
    return res
