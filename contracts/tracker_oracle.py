"""Replay side of the tracker contracts: a small recipe on the real package with an independent per-step ledger."""
from pyplate import Substance, Container, Plate, Recipe

from pyvc import spec
from contracts.container_oracle import close, subspec, base_amount


def replay_used(kind, unit):
    water = Substance.liquid('water', 18.0153, 1)
    subj = {1: Substance.solid('NaCl', 58.4428), 2: Substance.liquid('DMSO', 78.13, 1.1004),
            3: Substance.enzyme('lipase', '10 U/mg')}[kind]
    stock = Container('stock', initial_contents=[(water, '10 mL'), (subj, '500 U' if kind == 3 else '2 mmol')])
    waste = Container('waste')
    p = Plate('P', '500 uL', rows=2, columns=2)
    r = Recipe().uses(stock, waste, p)
    r.start_stage('load')
    r.transfer(stock, p, '100 uL')
    r.end_stage('load')
    r.start_stage('clean')
    r.transfer(p[1], waste, '20 uL')
    r.remove(p[2], water)
    r.end_stage('clean')
    res = r.bake()
    fails = []
    # independent ledger: eager fold
    s1, p1 = Plate.transfer(stock, p, '100 uL')
    p2, w2 = Container.transfer(p1[1], waste, '20 uL')
    p3 = p2[2].remove(water)

    def tot(o):
        return sum(w.contents.get(subj, 0) for w in o.wells.flatten())
    fb, _ = base_amount(subj, 1.0)
    conv = lambda stored: base_amount(subj, stored)[1] * float(spec.factor(subspec(subj), fb, spec.split_unit(unit)[1])) / float(spec.SI[spec.split_unit(unit)[0]])   # noqa: E731
    want = {'load': tot(p1) - tot(p), 'all': tot(p3) - tot(p)}
    import pyplate.pyplate as pp
    prec = pp.config.precisions.get(unit, pp.config.precisions['default'])
    for tf, w in want.items():
        try:
            got = r.get_substance_used(subj, tf, unit, destinations=[p])
        except Exception as e:
            fails.append(f"{tf}: {e!r}")
            continue
        if abs(got - conv(w)) > 0.6 * 10 ** (-prec) + 1e-9 * abs(conv(w)):
            fails.append(f"{tf}: reported {got} {unit}, ledger says {conv(w)}")
    fails += partial_plate(subj, kind, unit, conv, prec)
    return {'ok': not fails, 'observed': fails[:3] or 'as the ledger', 'expected': 'net gain of the plate per timeframe'}


def partial_plate(subj, kind, unit, conv, prec):
    """second scenario: only PART of the plate is dispensed to (well A1 stays empty) with amounts that are not whole
    storage units, over two stages"""
    water = Substance.liquid('water', 18.0153, 1)
    stock = Container('stock2', initial_contents=[(water, '10 mL'), (subj, '333.3 U' if kind == 3 else '0.7777 mmol')])
    p = Plate('Q', '500 uL', rows=2, columns=3)
    r = Recipe().uses(stock, p)
    r.start_stage('rowB')
    r.transfer(stock, p[2], '37.3 uL')
    r.end_stage('rowB')
    r.start_stage('rest')
    r.transfer(stock, p[1, 2:3], '11.7 uL')
    r.end_stage('rest')
    r.bake()
    s1, p1 = Plate.transfer(stock, p[2], '37.3 uL')
    s2, p2 = Plate.transfer(s1, p1[1, 2:3], '11.7 uL')

    def tot(o):
        return sum(w.contents.get(subj, 0) for w in o.wells.flatten())
    fails = []
    for tf, w in {'rowB': tot(p1) - tot(p), 'rest': tot(p2) - tot(p1), 'all': tot(p2) - tot(p)}.items():
        try:
            got = r.get_substance_used(subj, tf, unit, destinations=[p])
        except Exception as e:
            fails.append(f"partial plate, {tf}: {e!r}")
            continue
        if abs(got - conv(w)) > 0.6 * 10 ** (-prec) + 1e-9 * abs(conv(w)):
            fails.append(f"partial plate, {tf}: reported {got} {unit}, ledger says {conv(w)}")
    return fails


def replay_flows(unit):
    """flows and amount remaining against an independent ledger: a partly filled plate, a withdrawal from one well and a
    remove step on one row, in two stages"""
    import numpy
    import pyplate.pyplate as pp
    from pyplate.pyplate import Unit
    water = Substance.liquid('water', 18.0153, 1)
    salt = Substance.solid('NaCl', 58.4428)
    stock = Container('stock', initial_contents=[(water, '10 mL'), (salt, '0.7777 mmol')])
    waste = Container('waste')
    p = Plate('P', '500 uL', rows=2, columns=3)
    r = Recipe().uses(stock, waste, p)
    r.start_stage('s1')
    r.transfer(stock, p[2], '37.3 uL')
    r.transfer(stock, p[1, 2:3], '11.7 uL')
    r.end_stage('s1')
    r.start_stage('s2')
    r.transfer(p[2, 1], waste, '5.5 uL')
    r.remove(p[2], water)
    r.end_stage('s2')
    r.start_stage('s3')
    r.transfer(p[1, 2:3], p[2, 2:3], '3.3 uL')        # inside the plate
    r.end_stage('s3')
    r.bake()
    # eager fold with snapshots
    snaps = [dict(stock=stock, waste=waste, P=p)]

    def push(**kw):
        d = dict(snaps[-1])
        d.update(kw)
        snaps.append(d)
    a, b = Plate.transfer(stock, p[2], '37.3 uL'); push(stock=a, P=b)
    a, b = Plate.transfer(snaps[-1]['stock'], snaps[-1]['P'][1, 2:3], '11.7 uL'); push(stock=a, P=b)
    a, b = Container.transfer(snaps[-1]['P'][2, 1], snaps[-1]['waste'], '5.5 uL'); push(P=a, waste=b)
    push(P=snaps[-1]['P'][2].remove(water))
    a, b = Plate.transfer(snaps[-1]['P'][1, 2:3], snaps[-1]['P'][2, 2:3], '3.3 uL'); push(P=b)
    roles = [('stock', 'P', False), ('stock', 'P', False), ('P', 'waste', False), (None, 'P', True), ('P', 'P', False)]   # (source, destination, discards)
    stages = {'all': (0, 5), 's1': (0, 2), 's2': (2, 4), 's3': (4, 5)}

    def amount(c):
        return sum(Unit.convert_from(s, v, 'U' if s.is_enzyme() else pp.config.moles_storage_unit, unit) for s, v in c.contents.items())

    def total(o):
        if isinstance(o, Container):
            return amount(o)
        return numpy.array([[amount(w) for w in row] for row in o.wells])
    fails = []
    # the same baked recipe is first asked in ANOTHER unit (answers must not depend on what was asked before)
    other = 'mg' if unit != 'mg' else 'mmol'
    for obj in (stock, waste, p):
        try:
            r.get_amount_remaining(obj, 'all', other)
            r.get_container_flows(obj, 'all', other)
        except Exception as e:
            fails.append(f"query in {other}: {e!r}")
    prec = pp.config.precisions.get(unit, pp.config.precisions['default'])
    tol = 0.6 * 10 ** (-prec)
    for tf, (lo, hi) in stages.items():
        for name in ('stock', 'waste', 'P'):
            used = [i for i in range(lo, hi) if name in roles[i][:2]]
            if not used:
                continue
            inflow = outflow = 0
            for i in used:
                before, after = total(snaps[i][name]), total(snaps[i + 1][name])
                src, dst, discards = roles[i]
                if src == dst == name:      # inside the object: wells that gained / wells that lost
                    inflow = inflow + numpy.clip(after - before, 0, None)
                    outflow = outflow + numpy.clip(before - after, 0, None)
                elif dst == name and not discards:
                    inflow = inflow + (after - before)
                else:
                    outflow = outflow + (before - after)
            obj = {'stock': stock, 'waste': waste, 'P': p}[name]
            try:
                fl = r.get_container_flows(obj, tf, unit)
                rem_b = r.get_amount_remaining(obj, tf, unit, mode='before')
                rem_a = r.get_amount_remaining(obj, tf, unit, mode='after')
            except Exception as e:
                fails.append(f"{name}, {tf}: {e!r}")
                continue
            for label, got, want in (('in', fl['in'], inflow), ('out', fl['out'], outflow),
                                     ('remaining before', rem_b, total(snaps[used[0]][name])),
                                     ('remaining after', rem_a, total(snaps[used[-1] + 1][name]))):
                if numpy.any(numpy.abs(numpy.asarray(got, dtype=float) - numpy.asarray(want, dtype=float)) > tol):
                    fails.append(f"{name}, {tf}: {label} reported {numpy.asarray(got).tolist()} {unit}, ledger says "
                                 f"{numpy.round(numpy.asarray(want, dtype=float), prec + 2).tolist()}")
            if numpy.any(numpy.asarray(fl['in']) < 0) or numpy.any(numpy.asarray(fl['out']) < 0):
                fails.append(f"{name}, {tf}: negative flow {fl}")
    return {'ok': not fails, 'observed': fails[:4] or 'as the ledger', 'expected': 'flows and amounts remaining per object / per well'}
