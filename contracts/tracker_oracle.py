"""Replay side of the tracker contracts: a small recipe on the real package with an independent per-step ledger."""
from pyplate import Substance, Container, Plate, Recipe

from pyvc import spec
from contracts.container_oracle import close, subspec, base_amount


def replay_used(kind, unit):
    water = Substance.liquid('water', 18.0153, 1)
    subj = {1: Substance.solid('NaCl', 58.4428), 2: Substance.liquid('DMSO', 78.13, 1.1004),
            3: Substance.enzyme('lipase', '10 U/mg')}[kind]
    stock = Container('stock', initial_contents=[(water, '10 mL'), (subj, '500 U' if kind == 3 else '2 mmol')])
    waste = Container('waste')
    p = Plate('P', '500 uL', rows=2, columns=2)
    r = Recipe().uses(stock, waste, p)
    r.start_stage('load')
    r.transfer(stock, p, '100 uL')
    r.end_stage('load')
    r.start_stage('clean')
    r.transfer(p[1], waste, '20 uL')
    r.remove(p[2], water)
    r.end_stage('clean')
    res = r.bake()
    fails = []
    # independent ledger: eager fold
    s1, p1 = Plate.transfer(stock, p, '100 uL')
    p2, w2 = Container.transfer(p1[1], waste, '20 uL')
    p3 = p2[2].remove(water)

    def tot(o):
        return sum(w.contents.get(subj, 0) for w in o.wells.flatten())
    fb, _ = base_amount(subj, 1.0)
    conv = lambda stored: base_amount(subj, stored)[1] * float(spec.factor(subspec(subj), fb, spec.split_unit(unit)[1])) / float(spec.SI[spec.split_unit(unit)[0]])   # noqa: E731
    want = {'load': tot(p1) - tot(p), 'all': tot(p3) - tot(p)}
    import pyplate.pyplate as pp
    prec = pp.config.precisions.get(unit, pp.config.precisions['default'])
    for tf, w in want.items():
        try:
            got = r.get_substance_used(subj, tf, unit, destinations=[p])
        except Exception as e:
            fails.append(f"{tf}: {e!r}")
            continue
        if abs(got - conv(w)) > 0.6 * 10 ** (-prec) + 1e-9 * abs(conv(w)):
            fails.append(f"{tf}: reported {got} {unit}, ledger says {conv(w)}")
    return {'ok': not fails, 'observed': fails[:3] or 'as the ledger', 'expected': 'net gain of the plate per timeframe'}
