"""Plate-level contracts (C07, and the plate halves of C01, C02, C04, C17).

The real Slicer.apply / set / get, Container._transfer_slice, PlateSlicer._transfer / remove / fill_to, Plate.transfer /
remove / fill_to are executed on plates of small concrete shapes whose wells are *abstract* containers; the container
operations underneath (Container._transfer, remove, fill_to) are used MODULARLY: each call is an event with fresh
abstract results, constrained elsewhere by their own contracts (container_transfer / container_ops).  What is checked
here is the dataflow: which states are handed to which operation and where the results are stored —
  dispatch  every documented source/destination kind reaches the pairing code (no TypeError/AttributeError ...)
  pairing   events pair wells one-to-many, many-to-one or element-wise in row-major order; other shapes -> ValueError
  linear    every state is consumed at most once and every produced state ends up in exactly one place (so per-event
            conservation lifts to the whole operation: lemma `sum_pairs`)
  locality  wells that are not addressed are unchanged copies in their own position
  same-args every event carries the operation's own operands
  frame     nothing reachable from the arguments is written (also on the paths where a later well is refused)
Bounded in the plate shape (stated per case); unbounded in well contents and numeric operands.
"""
import json

import z3

from pyvc import vc
from pyvc.values import *   # noqa: F401,F403
from pyvc.npmodel import GridArr, GridFlat
from pyvc.symcoll import SymMap
from contracts import clib
from contracts.c13_spec import select

ROWS, COLS = ['A', 'B'], ['1', '2', '3']
ROWS3 = ['A', 'B', 'C']


class Event:
    def __init__(self, kind, inputs, outputs, operands, lineno=None):
        self.kind, self.inputs, self.outputs, self.operands, self.lineno = kind, inputs, outputs, operands, lineno


def root(o):
    return o.__dict__.get('origin', o)


def abstract_result(I, like, suffix, appends_line=True):
    """result of a container operation on `like`: the real operations keep the container's own instruction text and
    (except for the source of a transfer) append a line to it — the text carries the provenance of `like`'s text"""
    o = I.new_obj('Container', fresh_=True, tag=(like.tag or '?') + suffix)
    text = like.fields['instructions']
    if appends_line:
        text = mkstr([text, '\n', SegStr([OpaqueHole('line', prov_of(text))])])
    o.fields.update(name=like.fields['name'], contents=SymMap(fresh_=True), volume=fresh('vol', RS),
                    max_volume=like.fields['max_volume'], instructions=text,
                    experimental_conditions={})
    o.__dict__['produced'] = True
    clib.init_defaults(I, o)
    return o


def ev_transfer(I, args, kwargs, node):
    """Container._transfer(self=destination, source_container, quantity) as an event."""
    if kwargs or len(args) != 3:
        raise Raised('TypeError', getattr(node, 'lineno', None), 'wrong number of arguments to _transfer', implicit=True)
    dest, source, quantity = args
    if not (isinstance(source, Obj) and source.cls.name == 'Container'):
        raise Raised('TypeError', getattr(node, 'lineno', None), 'Invalid source type.')
    if source is dest:
        raise Raised('ValueError', getattr(node, 'lineno', None), 'self-transfer')
    if I.__dict__.get('event_failures', True) and I.choose(2, 'container operation refused?') == 1:
        raise Raised('ValueError', getattr(node, 'lineno', None), 'refused by the container operation')
    s2, t2 = abstract_result(I, source, "'", appends_line=False), abstract_result(I, dest, "'")
    I.__dict__.setdefault('events', []).append(Event('transfer', (source, dest), (s2, t2), (quantity,),
                                                     getattr(node, 'lineno', None)))
    return (s2, t2)


def ev_unary(kind_):
    def f(I, args, kwargs, node):
        c = args[0]
        ops = tuple(args[1:]) + tuple(kwargs.values())
        if kind_ == 'fill_to' and I.__dict__.get('event_failures', True) and I.choose(2, 'fill_to refused?') == 1:
            raise Raised('ValueError', getattr(node, 'lineno', None), 'refused by the container operation')
        r = abstract_result(I, c, "'")
        I.__dict__.setdefault('events', []).append(Event(kind_, (c,), (r,), ops, getattr(node, 'lineno', None)))
        return r
    return f


def contracts():
    c = clib.contracts()
    c['Container._transfer'] = ev_transfer
    c['Container.remove'] = ev_unary('remove')
    c['Container.fill_to'] = ev_unary('fill_to')
    return c


# ------------------------------------------------------------------------------------------------ building plates
def mk_plate(I, name, rows=ROWS, cols=COLS, display_name=None):
    p = I.new_obj('Plate', fresh_=False, tag=name)
    cells = []
    for r in rows:
        row = []
        for c in cols:
            w = clib.mk_container(I, f'{name}.{r}{c}', 'finite', wf=False).obj
            w.fields['name'] = f'well {r},{c}'
            row.append(w)
        cells.append(row)
    grid = GridArr.concrete(cells, fresh_=False)
    p.fields.update(name=display_name or name, make='generic', n_rows=len(rows), n_columns=len(cols), row_names=list(rows),
                    column_names=list(cols), max_volume_per_well=z3.Real(f'mv_{name}'), wells=grid)
    p.__dict__['cells0'] = [list(r) for r in cells]
    clib.init_defaults(I, p)
    return p


def slicer(I, plate, item):
    if item == 'PLATE':
        return plate
    out = vc.call(I, 'Plate.__getitem__', [plate, item])
    if out.kind != 'return':
        raise Unsupported(f"selector {item!r} rejected: {out.exc.cls}")
    out.value.fresh = False        # the slice is an argument of the operation under verification
    return out.value


def py_item(item):
    """selector value for the documentation reference (c13_spec.select)"""
    if item == 'PLATE':
        return slice(None)
    if isinstance(item, SliceV):
        return slice(item.start, item.stop, item.step)
    if isinstance(item, tuple):
        return tuple(py_item(x) for x in item)
    if isinstance(item, list):
        return [py_item(x) for x in item]
    return item


def cells_of(plate, item):
    """documented wells of plate[item] as (r, c) in selection order"""
    return select(py_item(item), plate.fields['row_names'], plate.fields['column_names'])


S_ = SliceV
GEOMS = {
    'plate': 'PLATE', 'all': S_(None, None, None), 'row1': 1, 'rowB': 'B', 'single': 'A:2', 'single-t': (2, 3),
    'rect': (S_(1, 2, None), S_(2, 3, None)), 'col2': (S_(None, None, None), 2), 'stepped': (S_(None, None, None), S_(1, None, 2)),
    'list2': ['A:1', 'B:3'], 'list1': [(1, 2)], 'listdup': ['A:1', 'B:3', 'A:1'],
    'rows12': S_(1, 2, None), 'rows23': S_(2, 3, None), 'row3': 3,
}


ONLY3 = ('rows12', 'rows23', 'row3')      # geometries of the 3-row plate used for same-plate cases


# ------------------------------------------------------------------------------------------------ analysis of a finished run
def final_cells(plate_obj):
    g = plate_obj.fields['wells']
    return g.cells


def state_unchanged(cell, orig):
    """cell is a copy of orig with the state fields untouched"""
    if cell is orig:
        return True
    if root(cell) is not orig or cell.__dict__.get('produced'):
        return False
    for f in ('name', 'volume', 'max_volume'):
        a, b = cell.fields.get(f), orig.fields.get(f)
        if not (a is b or (is_sym(a) and is_sym(b) and a.eq(b)) or (not is_sym(a) and not is_sym(b) and a == b)):
            return False
    ca, cb = cell.fields['contents'], orig.fields['contents']
    return isinstance(ca, SymMap) and ca.amt.eq(cb.amt) and ca.mem.eq(cb.mem)


def linearity(events, finals, originals):
    """finals: list of (label, object) final locations; originals: list of (label, object) initial states.
    Returns list of problems."""
    probs = []
    consumed = {}
    produced = {}
    for i, e in enumerate(events):
        for o in e.outputs:
            produced[id(o)] = (i, o)
    orig_by_id = {id(o): lab for lab, o in originals}

    def ident(o):
        """canonical identity of a state: produced objects are themselves; copies of originals count as the original
        only if unchanged"""
        if id(o) in produced:
            return ('p', id(o))
        r = root(o)
        if id(r) in orig_by_id and state_unchanged(o, r):
            return ('o', id(r))
        if id(o) in orig_by_id:
            return ('o', id(o))
        return ('?', id(o))
    for i, e in enumerate(events):
        for o in e.inputs:
            k = ident(o)
            if k[0] == '?':
                probs.append(f"event {i} ({e.kind}) consumes a state that is neither an argument's nor a previous result")
            if k in consumed:
                probs.append(f"state {describe(o)} consumed twice (events {consumed[k]} and {i})")
            consumed[k] = i
            if k[0] == 'p' and produced[k[1]][0] >= i:
                probs.append(f"event {i} consumes a state produced later")
    placed = {}
    for lab, o in finals:
        k = ident(o)
        if k[0] == '?':
            probs.append(f"final {lab} holds a state of unknown provenance ({describe(o)})")
        if k in consumed:
            probs.append(f"final {lab} holds a stale state ({describe(o)}) already consumed by event {consumed[k]}")
        if k in placed:
            probs.append(f"state {describe(o)} placed twice ({placed[k]} and {lab})")
        placed[k] = lab
    for (i, o) in produced.values():
        k = ('p', id(o))
        if k not in consumed and k not in placed:
            probs.append(f"result {describe(o)} of event {i} is dropped")
    for lab, o in originals:
        k = ('o', id(o))
        if k not in consumed and k not in placed:
            probs.append(f"original state {lab} disappears")
    return probs


def describe(o):
    return getattr(o, 'tag', None) or repr(o)


# ------------------------------------------------------------------------------------------------ transfer cases
def transfer_cases(tier):
    out = []
    for g in GEOMS:
        if g in ONLY3:
            continue
        out.append(('c2p', g))      # container -> wells
        out.append(('p2c', g))      # wells -> container
    pp = [('single', 'rect'), ('single', 'all'), ('rect', 'single'), ('row1', 'single'), ('rect', 'rect'), ('row1', 'rowB'),
          ('plate', 'plate'), ('all', 'plate'), ('rect', 'row1'), ('col2', 'row1'), ('stepped', 'stepped'),
          ('list2', 'list2'), ('list1', 'rect'), ('rect', 'list1'), ('single', 'list2'), ('list2', 'single')]
    for a, b in pp:
        out.append(('p2p', a, b))
    for a, b in (('rect', 'rect'), ('single', 'row1'), ('row1', 'single')):
        out.append(('p2p-samename', a, b))
    same = [('single', 'rowB'), ('row1', 'rowB'), ('rect', 'rect'), ('single', 'rect'), ('single-t', 'row1'),
            ('row1', 'row1'), ('rowB', 'single'), ('rows12', 'rows23'), ('rows12', 'row3'), ('row3', 'rows12')]
    for a, b in same:
        out.append(('same', a, b))
    return out


def expected_pairs(src_cells, dst_cells):
    """documented pairing: (list of (src index, dst index)) or None = must be rejected.  Shapes are taken from the
    selections (row-major lists with their 2-D shape)."""
    (sc, sshape), (dc, dshape) = src_cells, dst_cells
    if len(sc) == 1:
        return [(0, j) for j in range(len(dc))]
    if len(dc) == 1:
        return [(i, 0) for i in range(len(sc))]
    if sshape == dshape:
        return [(i, i) for i in range(len(sc))]
    return None


def shape_of(item, plate):
    cs = cells_of(plate, item)
    if cs is None:
        return None, None
    if isinstance(item, list):
        return cs, (len(cs),)
    rows = sorted({r for r, c in cs})
    cols = sorted({c for r, c in cs})
    return cs, (len(rows), len(cols))


def run_transfer(pid, mode, ga, gb=None):
    case = f"{mode}|{ga}" + (f"|{gb}" if gb else '')
    res = []
    holder = {}

    def body(I):
        clib.assume_world(I)
        q = SegStr([NumHole(z3.Real('q')), ' ', 'uL'])
        holder['q'] = q
        P1 = mk_plate(I, 'P1', ROWS3 if mode == 'same' else ROWS)
        info = {'plates': [P1]}
        if mode == 'c2p':
            C = clib.mk_container(I, 'C', 'finite', wf=False).obj
            dst = slicer(I, P1, GEOMS[ga])
            info.update(container=C, dst=(P1, GEOMS[ga]))
            I.writes.clear()
            out = vc.call(I, 'Plate.transfer', [C, dst, q])
        elif mode == 'p2c':
            C = clib.mk_container(I, 'C', 'finite', wf=False).obj
            src = slicer(I, P1, GEOMS[ga])
            info.update(container=C, src=(P1, GEOMS[ga]))
            I.writes.clear()
            out = vc.call(I, 'Container.transfer', [src, C, q])
        else:
            if mode in ('p2p', 'p2p-samename'):
                # two distinct plates — in the second variant they carry the same name (e.g. replicates)
                P2 = mk_plate(I, 'P2', display_name='P1' if mode == 'p2p-samename' else None)
                info['plates'].append(P2)
            else:
                P2 = P1
            src = slicer(I, P1, GEOMS[ga])
            dst = slicer(I, P2, GEOMS[gb])
            # histories in which the caller has already looked at the slices (shape / contents) before using them
            for sl_ in (src, dst):
                if isinstance(sl_, Obj) and sl_.cls.name == 'PlateSlicer':
                    vc.call(I, 'Slicer.get', [sl_])
                    I.getattr(sl_, 'shape')
            info.update(src=(P1, GEOMS[ga]), dst=(P2, GEOMS[gb]))
            I.writes.clear()
            out = vc.call(I, 'Plate.transfer', [src, dst, q])
        holder['info'] = info
        judge_transfer(I, out, mode, info, q)
        return out

    for I, out in vc.explore(body, contracts=contracts(), max_paths=400):
        if isinstance(out, vc.Outcome) and out.kind == 'unsupported':
            res.append(vc.unsupported_result('plate.transfer/unsupported', case, out.note))
            continue
        I.obls = [ob for ob in I.obls if ob.kind != 'property' or serves(ob.name, pid)]
        res += vc.discharge(I, 'plate.transfer/', case, 10000,
                            replay_fn=lambda mv, ob: transfer_replay(mode, ga, gb, ob.name))
    res = clib.dedupe(res)
    clause = {'C04': 'frame', 'C19': 'instructions-home'}.get(pid, 'linear')
    res = clib.native_fallback(res, f'plate.transfer/{clause}', case, transfer_replay(mode, ga, gb, clause))
    return [dict(r, name=f'{pid}/' + r['name']) for r in res]


SERVES = {'reject-self': ['C01', 'C07'], 'dispatch': ['C07', 'C11', 'C03'], 'pairing': ['C07'], 'linear': ['C01', 'C02', 'C07', 'C03'], 'locality': ['C01', 'C07', 'C11'],
          'same-args': ['C07', 'C02'], 'frame': ['C04'], 'result-kinds': ['C07', 'C04'], 'reject-shapes': ['C07'],
          'per-well': ['C07', 'C17', 'C11', 'C03'], 'count': ['C02'], 'instructions-home': ['C07', 'C19']}


def serves(name, pid):
    if pid is None:
        return True
    cl = name.partition('[')[0].split('/')[-1]
    if cl not in SERVES:
        raise RuntimeError(f"clause {name!r} is mapped to no property (SERVES)")     # never drop a clause silently
    return pid in SERVES[cl]


def judge_transfer(I, out, mode, info, q):
    events = I.__dict__.get('events', [])
    writes = [(describe(w[0]), w[1], w[2]) for w in I.writes]
    I.oblige('frame', len(I.writes) == 0, 'property', note=f"writes to objects reachable from the arguments: {writes[:4]}")
    src = info.get('src')
    dst = info.get('dst')
    s_cells = shape_of(src[1], src[0]) if src else None
    d_cells = shape_of(dst[1], dst[0]) if dst else None
    if mode in ('p2p', 'same', 'p2p-samename'):
        exp = expected_pairs(s_cells, d_cells)
    else:
        exp = 'n/a'
    self_pair = False
    if mode == 'same' and exp:
        self_pair = any(s_cells[0][i] == d_cells[0][j] for i, j in exp)
    if out.kind == 'raise':
        ex = out.exc
        if ex.cls == 'ValueError' and not ex.implicit:
            if exp is None:
                I.oblige('reject-shapes', True, 'property')
            elif self_pair:
                I.oblige('reject-self', True, 'property')     # a well paired with itself: refusing is the only sane answer
            elif ex.detail and 'refused by the container operation' in str(ex.detail):
                pass            # a well refused the request: only the frame obligation applies
            else:
                I.oblige('dispatch', False, 'property',
                         note=f"ValueError at line {ex.lineno} for a documented pairing ({mode} {s_cells and s_cells[1]} -> {d_cells and d_cells[1]})")
        else:
            I.oblige('dispatch', False, 'property',
                     note=f"{ex.cls} at line {ex.lineno} for documented source/destination kinds")
        return
    if exp is None:
        I.oblige('reject-shapes', False, 'property', note='source and destination shapes that cannot be paired were accepted')
        return
    a, b = out.value
    # ---- kinds and locations of the results
    finals, originals = [], []
    ok_kinds = True
    plates_out = {}
    if mode == 'c2p':
        ok_kinds = isinstance(a, Obj) and a.cls.name == 'Container' and isinstance(b, Obj) and b.cls.name == 'Plate'
        if ok_kinds:
            finals.append(('container', a))
            plates_out['P1'] = b
        originals.append(('container', info['container']))
    elif mode == 'p2c':
        ok_kinds = isinstance(a, Obj) and a.cls.name == 'Plate' and isinstance(b, Obj) and b.cls.name == 'Container'
        if ok_kinds:
            finals.append(('container', b))
            plates_out['P1'] = a
        originals.append(('container', info['container']))
    else:
        ok_kinds = all(isinstance(x, Obj) and x.cls.name == 'Plate' for x in (a, b))
        if ok_kinds:
            plates_out['P1'] = a
            if mode in ('p2p', 'p2p-samename'):
                plates_out['P2'] = b
            else:
                ok_kinds = a is b
    I.oblige('result-kinds', bool(ok_kinds), 'property', note=f"returned {describe(a)}, {describe(b)}")
    if not ok_kinds:
        return
    for P in info['plates']:
        for r, row in enumerate(P.__dict__['cells0']):
            for c, w in enumerate(row):
                originals.append((f"{P.tag}[{r},{c}]", w))
        for r, row in enumerate(final_cells(plates_out[P.tag])):
            for c, w in enumerate(row):
                finals.append((f"{P.tag}[{r},{c}]", w))
    fresh_ok = all(plates_out[P.tag] is not P and plates_out[P.tag].fields['wells'] is not P.fields['wells']
                   for P in info['plates'])
    I.oblige('result-kinds[new-plates]', bool(fresh_ok), 'property', note='returned plates must be new objects')
    probs = linearity(events, finals, originals)
    I.oblige('linear', len(probs) == 0, 'property', note='; '.join(probs[:4]))
    oblige_text_home(I, finals, originals)
    # ---- locality: non-addressed wells unchanged in place
    touched = set()
    if src:
        touched |= {(src[0].tag,) + rc for rc in s_cells[0]}
    if dst:
        touched |= {(dst[0].tag,) + rc for rc in d_cells[0]}
    bad = []
    for P in info['plates']:
        for r, row in enumerate(final_cells(plates_out[P.tag])):
            for c, w in enumerate(row):
                if (P.tag, r, c) not in touched and not state_unchanged(w, P.__dict__['cells0'][r][c]):
                    bad.append(f"{P.tag}[{r},{c}]")
    I.oblige('locality', len(bad) == 0, 'property', note=f"wells outside the addressed regions changed: {bad[:5]}")
    # ---- pairing
    def where(o):
        ro = root(o)
        for lab, w in originals:
            if w is ro:
                return lab
        return None

    def lineage(o):
        """original location a (possibly produced) state descends from"""
        seen = 0
        while o.__dict__.get('produced') and seen < 1000:
            seen += 1
            for e in events:
                if o in e.outputs:
                    o = e.inputs[e.outputs.index(o)]
                    break
            else:
                break
        return where(o)
    got = [(lineage(e.inputs[0]), lineage(e.inputs[1])) for e in events if e.kind == 'transfer']
    if mode == 'c2p':
        want = [('container', f"P1[{r},{c}]") for r, c in d_cells[0]]
    elif mode == 'p2c':
        want = [(f"P1[{r},{c}]", 'container') for r, c in s_cells[0]]
    else:
        sp, dp = src[0].tag, dst[0].tag
        want = [(f"{sp}[{s_cells[0][i][0]},{s_cells[0][i][1]}]", f"{dp}[{d_cells[0][j][0]},{d_cells[0][j][1]}]") for i, j in exp]
    I.oblige('pairing', sorted(map(str, got)) == sorted(map(str, want)), 'property',
             note=f"transfers performed {got[:6]} expected {want[:6]}")
    I.oblige('count', len(got) == len(want), 'property', note=f"{len(got)} transfers for {len(want)} paired wells")
    I.oblige('same-args', all(len(e.operands) == 1 and e.operands[0] is q for e in events), 'property',
             note='every per-well transfer must carry the requested quantity')


def oblige_text_home(I, finals, originals):
    """every container keeps its OWN preparation text (plus the lines of what happened to it): the provenance of the
    final instructions of a well is the provenance of the instructions it had before"""
    home = dict(originals)
    alien = []
    for lab, w in finals:
        if isinstance(w, Obj) and lab in home and isinstance(home[lab], Obj):
            mine, got_ = prov_of(home[lab].fields.get('instructions')), prov_of(w.fields.get('instructions'))
            if mine and not (got_ and got_ <= mine):
                alien.append(f"{lab}: text derived from {sorted(got_) or 'nothing'}")
    I.oblige('instructions-home', len(alien) == 0, 'property',
             note='instructions of a well were replaced by text of another container: ' + '; '.join(alien[:4]))


def transfer_replay(mode, ga, gb, clause):
    inputs = {'mode': mode, 'ga': ga, 'gb': gb, 'clause': clause}
    code = ("import json\nfrom contracts.plate_oracle import replay_transfer\nJ = json.loads(%r)\n"
            "def run():\n    return replay_transfer(J['mode'], J['ga'], J['gb'])\n" % json.dumps(inputs))
    return [{'inputs': inputs, 'code': code}]


# ------------------------------------------------------------------------------------------------ remove / fill_to
def unary_cases(tier):
    return [(op, g, via) for op in ('remove', 'fill_to') for g in GEOMS for via in ('slice', 'plate-method')
            if not (via == 'plate-method' and g != 'plate') and g not in ONLY3 and g != 'listdup']


def run_unary(pid, op, g, via):
    case = f"{op}|{g}|{via}"
    res = []

    def body(I):
        clib.assume_world(I)
        P1 = mk_plate(I, 'P1')
        w = SubV(z3.Const('water', Sub))
        q = SegStr([NumHole(z3.Real('q')), ' ', 'uL'])
        if g == 'plate':
            target = P1
            fn = f'Plate.{op}'
        else:
            target = slicer(I, P1, GEOMS[g])
            fn = f'PlateSlicer.{op}'
        I.writes.clear()
        args = [target, w] + ([q] if op == 'fill_to' else [])
        out = vc.call(I, fn, args)
        events = I.__dict__.get('events', [])
        writes = [(describe(x[0]), x[1], x[2]) for x in I.writes]
        I.oblige('frame', len(I.writes) == 0, 'property',
                 note=f"writes to objects reachable from the arguments: {writes[:4]}")
        if out.kind == 'raise':
            if not (out.exc.cls == 'ValueError' and 'refused by the container operation' in str(out.exc.detail)):
                I.oblige('dispatch', False, 'property', note=f"{out.exc.cls} at line {out.exc.lineno}")
            return out
        R = out.value
        ok = isinstance(R, Obj) and R.cls.name == 'Plate' and R is not P1
        I.oblige('result-kinds', bool(ok), 'property', note=f'returned {describe(R)}')
        if not ok:
            return out
        cs = cells_of(P1, GEOMS[g])
        originals = [(f"P1[{r},{c}]", wl) for r, row in enumerate(P1.__dict__['cells0']) for c, wl in enumerate(row)]
        finals = [(f"P1[{r},{c}]", wl) for r, row in enumerate(final_cells(R)) for c, wl in enumerate(row)]
        probs = linearity(events, finals, originals)
        I.oblige('linear', len(probs) == 0, 'property', note='; '.join(probs[:4]))
        oblige_text_home(I, finals, originals)
        bad = [f"P1[{r},{c}]" for r, row in enumerate(final_cells(R)) for c, wl in enumerate(row)
               if (r, c) not in cs and not state_unchanged(wl, P1.__dict__['cells0'][r][c])]
        I.oblige('locality', len(bad) == 0, 'property', note=f"wells outside the slice changed: {bad[:5]}")
        # per-well: each addressed well = the container operation applied to the old well with the same operands
        got = sorted(str(root(e.inputs[0]).tag) for e in events)
        want = sorted(f"P1.{ROWS[r]}{COLS[c]}" for r, c in cs)
        placed = all(any(e.outputs[0] is final_cells(R)[r][c] and root(e.inputs[0]) is P1.__dict__['cells0'][r][c]
                         for e in events) for r, c in cs)
        I.oblige('per-well', got == want and placed and all(e.kind == op for e in events), 'property',
                 note=f"operations applied to {got[:6]}, expected {want[:6]}; placed={placed}")
        I.oblige('same-args', all(e.operands and e.operands[0] is w and (op == 'remove' or e.operands[1] is q)
                                  for e in events), 'property')
        return out

    for I, out in vc.explore(body, contracts=contracts(), max_paths=300):
        if isinstance(out, vc.Outcome) and out.kind == 'unsupported':
            res.append(vc.unsupported_result(f'plate.{op}/unsupported', case, out.note))
            continue
        I.obls = [ob for ob in I.obls if ob.kind != 'property' or serves(ob.name, pid)]
        res += vc.discharge(I, f'plate.{op}/', case, 10000, replay_fn=lambda mv, ob: unary_replay(op, g, via, ob.name))
    res = clib.dedupe(res)
    clause = 'frame' if pid == 'C04' else 'per-well'
    res = clib.native_fallback(res, f'plate.{op}/{clause}', case, unary_replay(op, g, via, clause))
    return [dict(r, name=f'{pid}/' + r['name']) for r in res]


def unary_replay(op, g, via, clause):
    inputs = {'op': op, 'g': g, 'via': via, 'clause': clause}
    code = ("import json\nfrom contracts.plate_oracle import replay_unary\nJ = json.loads(%r)\n"
            "def run():\n    return replay_unary(J['op'], J['g'], J['via'])\n" % json.dumps(inputs))
    return [{'inputs': inputs, 'code': code}]
