"""B-float-targets — bounded stand-in for what A1/A2 hide from the real-arithmetic proofs: WHERE the library rounds.
The proofs treat round(x, internal_precision) as the identity, so a rounding placed in the wrong unit (e.g. the quantity
to add rounded to 10 decimals of a LITRE instead of the storage unit) is invisible to them although it moves results by
1e-7 relative.  This check executes the real package natively over a grid of requests and compares the achieved amount
with the requested one at a tolerance far below such errors and far above IEEE noise (relative 1e-9, absolute 5e-10
storage units).  Labelled bounded; never counted as proved.

  C11  fill_to reaches the target volume / mass / moles; dilute reaches the target concentration (library band 1e-6)
  C02  the amount moved by a transfer, measured in the unit of the request, is the request
  C01  source + destination hold what they held before, per substance
  C05/C12  the solution builders meet the stated concentration and total"""
from pyvc import harness

CODE = r'''
from pyplate import Substance, Container
from pyplate.pyplate import Unit, config
N = %d
PID = %r
REL, ABS = 1e-9, 5e-10

def close(a, b, rel=REL, abs_=ABS):
    return abs(a - b) <= abs_ + rel * max(abs(a), abs(b))

def measure(c, unit):
    base = unit[-1] if unit[-1] in 'Lg' else 'mol'
    return sum(Unit.convert_from(s, v, 'U' if s.is_enzyme() else config.moles_storage_unit, unit) for s, v in c.contents.items()
               if not (base == 'mol' and s.is_enzyme()))

def run():
    water = Substance.liquid('water', 18.0153, 1)
    dmso = Substance.liquid('dmso', 78.13, 1.1004)
    salt = Substance.solid('NaCl', 58.4428)
    kcl = Substance.solid('KCl', 74.5513)
    lip = Substance.enzyme('lipase', '45.5 U/mg')
    fails, count = {}, 0
    def note(cls, what):
        fails.setdefault(cls, [])
        if len(fails[cls]) < 3:
            fails[cls].append(what)
    mixtures = lambda v: [
        Container('m1', initial_contents=[(salt, f'{v} mg')]),
        Container('m2', initial_contents=[(water, f'{v} uL'), (salt, f'{(v %% 7) + 1} mg')]),
        Container('m3', initial_contents=[(water, f'{v} mL'), (dmso, '1.5 mL'), (kcl, '20 mg')]),
        Container('m4', initial_contents=[(water, f'{v} mL'), (lip, '3 U')]),
    ]
    for v in range(1, N + 1):
        for c in mixtures(v):
            if PID == 'C11':
                for unit, factor in (('uL', 1.37), ('mL', 2.0), ('mg', 1.11), ('g', 3.0), ('mmol', 1.5), ('umol', 4.0)):
                    cur = measure(c, unit)
                    tgt = round(cur * factor + 1, 6)
                    count += 1
                    try:
                        r = c.fill_to(water, f'{tgt} {unit}')
                    except ValueError as e:
                        note('fill_to-refused', f'{c.contents} fill_to {tgt} {unit}: {e}')
                        continue
                    got = measure(r, unit)
                    if not close(got, tgt):
                        note('fill_to-misses-target', f'{c.contents} fill_to(water, {tgt} {unit}) holds {got!r} {unit}')
                    if any(not close(r.contents[s], a) for s, a in c.contents.items() if s != water):
                        note('fill_to-changes-others', f'{c.contents} -> {r.contents}')
                if salt in c.contents or kcl in c.contents:
                    sol = salt if salt in c.contents else kcl
                    if water in c.contents:
                        for unit in ('M', 'mg/mL', '%%w/w', 'mmol/g'):
                            cur = c.get_concentration(sol, unit)
                            tgt = float(f'{cur / (1.5 + (v %% 5)):.6g}')
                            count += 1
                            try:
                                r = c.dilute(sol, f'{tgt} {unit}', water)
                            except ValueError as e:
                                note('dilute-refused', f'{c.contents} dilute to {tgt} {unit}: {e}')
                                continue
                            got = r.get_concentration(sol, unit)
                            if not close(got, tgt, 2e-6, 0):
                                note('dilute-misses-target', f'{c.contents} dilute({sol.name}, {tgt} {unit}) has {got!r}')
            if PID in ('C01', 'C02'):
                for unit, frac in (('uL', 0.31), ('mL', 0.5), ('mg', 0.77), ('g', 0.2), ('umol', 0.13), ('mmol', 0.9)):
                    cur = measure(c, unit)
                    if cur == 0:
                        continue
                    q = float(f'{cur * frac:.7g}')
                    d0 = Container('d', initial_contents=[(water, '1 mL'), (salt, '1 mg')])
                    count += 1
                    try:
                        c2, d2 = Container.transfer(c, d0, f'{q} {unit}')
                    except ValueError as e:
                        note('transfer-refused', f'{c.contents} transfer {q} {unit}: {e}')
                        continue
                    if PID == 'C02':
                        moved = measure(d2, unit) - measure(d0, unit)
                        if not close(moved, q, 1e-9, 1e-9 * max(1.0, measure(d0, unit))):
                            note('transfer-size', f'{c.contents} transfer {q} {unit} moved {moved!r} {unit}')
                    else:
                        for s in set(c.contents) | set(d0.contents):
                            before = c.contents.get(s, 0) + d0.contents.get(s, 0)
                            after = c2.contents.get(s, 0) + d2.contents.get(s, 0)
                            if not close(before, after, 1e-12, 3e-10):
                                note('transfer-conserve', f'{c.contents} transfer {q} {unit}: {s.name} {before!r} -> {after!r}')
        if PID in ('C05', 'C12'):
            for unit, cval in (('M', 0.1 + v / 100), ('mg/mL', 1 + v / 3), ('%%w/w', 0.5 + (v %% 9)), ('mmol/g', 0.2 + v / 50), ('%%w/v', 0.3 + (v %% 4))):
                for tq in ('10 mL', '25 g', '100 mL'):
                    count += 1
                    if PID == 'C05':
                        try:
                            r = Container.create_solution(salt, water, 'x', concentration=f'{cval} {unit}', total_quantity=tq)
                        except ValueError as e:
                            note('create_solution-refused', f'{cval} {unit}, {tq}: {e}')
                            continue
                    else:
                        stock = Container.create_solution(salt, water, 'stock', concentration='4 M', total_quantity='1 L')
                        cur = stock.get_concentration(salt, unit)
                        if cval >= cur:
                            continue
                        try:
                            _, r = Container.create_solution_from(stock, salt, f'{cval} {unit}', water, tq, 'x')
                        except ValueError as e:
                            note('create_solution_from-refused', f'{cval} {unit}, {tq}: {e}')
                            continue
                    got = r.get_concentration(salt, unit)
                    if not close(got, cval, 1e-6, 0):
                        note('misses-concentration', f'{cval} {unit}, {tq}: has {got!r}')
                    tv, tu = tq.split()
                    if not close(measure(r, tu), float(tv), 1e-6, 0):
                        note('misses-total', f'{cval} {unit}, {tq}: holds {measure(r, tu)!r} {tu}')
    if PID == 'C14':
        from fractions import Fraction as F
        SI = {'n': F(1, 10**9), 'u': F(1, 10**6), 'm': F(1, 1000), 'c': F(1, 100), 'd': F(1, 10), '': F(1), 'da': F(10), 'k': F(1000), 'M': F(10**6)}
        vals = ['1.234', '0.04', '5', '123.456', '0.5', '7e-3', '250', '1E-3', '2.5e+2']
        for v in vals[:max(2, min(len(vals), N + 2))]:
            for pn in SI:
                for base in ('mol', 'g', 'L', 'U'):
                    if base == 'U' and pn != '':      # activity units take no prefix in the documented grammar
                        continue
                    count += 1
                    try:
                        got = Unit.parse_quantity(f'{v} {pn}{base}')
                    except ValueError as e:
                        note('quantity-rejected', f"parse_quantity('{v} {pn}{base}'): {e}")
                        continue
                    exp = F(v) * SI[pn]
                    if not close(got[0], float(exp), 1e-12, 0) or got[1] != base:
                        note('quantity-value', f"parse_quantity('{v} {pn}{base}') = {got!r}, denotes {float(exp)!r} {base}")
                    for pd in SI:
                        for dbase in ('L', 'g', 'mol'):
                            count += 1
                            text = f'{v} {pn}{base}/{pd}{dbase}'
                            try:
                                got = Unit.parse_concentration(text)
                            except ValueError as e:
                                note('concentration-rejected', f"parse_concentration('{text}'): {e}")
                                continue
                            exp = F(v) * SI[pn] / SI[pd]
                            if not close(got[0], float(exp), 1e-12, 0) or tuple(got[1:]) != (base, dbase):
                                note('concentration-value', f"parse_concentration('{text}') = {got!r}, denotes {float(exp)!r} {base}/{dbase}")
            for p in ('n', 'u', 'm', ''):
                for form, (nb, db, f) in (('M', ('mol', 'L', F(1))), ('m', ('mol', 'g', F(1, 1000)))):
                    count += 1
                    text = f'{v} {p}{form}'
                    try:
                        got = Unit.parse_concentration(text)
                    except ValueError as e:
                        note('concentration-rejected', f"parse_concentration('{text}'): {e}")
                        continue
                    exp = F(v) * SI[p] * f
                    if not close(got[0], float(exp), 1e-12, 0) or tuple(got[1:]) != (nb, db):
                        note('concentration-value', f"parse_concentration('{text}') = {got!r}, denotes {float(exp)!r} {nb}/{db}")
    if PID == 'C10':
        # observers against the definition, at plate scale (uL, nL) where fixed-decimal rounding of base units bites
        for v in range(1, N + 1):
            for scale in ('uL', 'nL', 'mL'):
                c = Container('w', initial_contents=[(water, f'{v * 1.37} {scale}'), (salt, f'{v * 0.011} {scale[0]}g'), (dmso, f'{v * 0.29} {scale}')])
                vol_L = sum(Unit.convert_from(s, a, config.moles_storage_unit, 'L') for s, a in c.contents.items())
                mass_g = sum(Unit.convert_from(s, a, config.moles_storage_unit, 'g') for s, a in c.contents.items())
                n_salt = Unit.convert_from(salt, c.contents[salt], config.moles_storage_unit, 'mol')
                defs = {'M': n_salt / vol_L, 'mM': n_salt / vol_L * 1e3, 'mg/mL': n_salt * salt.mol_weight / vol_L,
                        'g/L': n_salt * salt.mol_weight / vol_L,
                        '%%w/w': n_salt * salt.mol_weight / mass_g * 100, 'mmol/g': n_salt * 1e3 / mass_g, 'umol/uL': n_salt / vol_L}
                for unit, d in defs.items():
                    count += 1
                    got = c.get_concentration(salt, unit)
                    if not close(got, d, 1e-9, 1e-10):
                        note('get_concentration-vs-definition', f'{c.contents}: get_concentration(NaCl, {unit}) = {got!r}, definition gives {d!r}')
                for unit, f in (('uL', 1e6), ('mL', 1e3), ('nL', 1e9)):
                    count += 1
                    got = c.get_volume(unit)
                    if not close(got, vol_L * f, 1e-9, 1e-10):
                        note('get_volume-vs-definition', f'{c.contents}: get_volume({unit}) = {got!r}, definition gives {vol_L * f!r}')
    if PID in ('C05', 'C12'):
        # plate scale: microlitre stocks, micromolar targets
        for v in range(1, N + 1):
            for cstock, vstock, ctgt, vtgt in (('3.3333 mM', '37 uL', f'{0.7 + v / 100} mM', '11 uL'), ('250 uM', '180 uL', f'{10 + v} uM', '40 uL'),
                                                ('12.5 mg/mL', '20 uL', f'{1 + v / 10} mg/mL', '5 uL')):
                if PID == 'C12' and float(ctgt.split()[0]) >= 0.9 * float(cstock.split()[0]):
                    continue            # a target at or above the stock's concentration is (rightly) refused
                count += 1
                try:
                    if PID == 'C05':
                        r = Container.create_solution(salt, water, 'x', concentration=ctgt, total_quantity=vtgt)
                    else:
                        stock = Container.create_solution(salt, water, 'stock', concentration=cstock, total_quantity=vstock)
                        _, r = Container.create_solution_from(stock, salt, ctgt, water, vtgt, 'x')
                except ValueError as e:
                    note('plate-scale-refused', f'{cstock} {vstock} -> {ctgt} {vtgt}: {e}')
                    continue
                cv, cu = ctgt.split()
                base_amount = r.contents[salt] * (salt.mol_weight * 1e-3 if 'g' in cu else {'mM': 1e-3, 'uM': 1}[cu])   # umol -> mg | mmol | umol
                got = base_amount / (r.volume * (1e-3 if 'g' in cu else 1e-6))      # per mL | per L
                if not close(got, float(cv), 1e-6, 0):
                    note('plate-scale-misses-concentration', f'{cstock} {vstock} -> {ctgt} {vtgt}: holds {got!r} {cu}')
                if not close(r.volume, float(vtgt.split()[0]), 1e-6, 0):
                    note('plate-scale-misses-total', f'{cstock} {vstock} -> {ctgt} {vtgt}: holds {r.volume!r} uL')
            if PID == 'C05':
                # a solvent CONTAINER at dispenser scale (nanolitres)
                # (the composition of the solvent container changes from call to call: nothing may be remembered of an earlier one)
                mix = (1, 0.25, 3)[v %% 3]
                for vs, vs2, tq, c in ((f'{40 + v} nL', f'{(40 + v) * mix} nL', '20 nL', 5.0), (f'{2 + v} uL', f'{(2 + v) * mix} uL', '1 uL', 10.0)):
                    count += 1
                    sv = Container('sv', initial_contents=[(water, vs), (dmso, vs2)])
                    try:
                        _, r = Container.create_solution(salt, sv, 'y', concentration=f'{c} mM', total_quantity=tq)
                    except ValueError as e:
                        note('solvent-container-refused', f'{vs} water + {vs2} dmso, {c} mM, {tq}: {e}')
                        continue
                    got = r.contents[salt] / r.volume * 1000
                    if not close(got, c, 1e-6, 0):
                        note('solvent-container-misses-concentration', f'{vs} water + {vs2} dmso, {c} mM, {tq}: holds {got!r} mM')
    return {'ok': True, 'count': count, 'failures': fails}
'''


def run(pid, n):
    out = harness.run_replay({'inputs': {'n': n, 'pid': pid}, 'code': CODE % (n, pid)}, timeout=3000)
    bound = (f"v in 1..{n} x 4 mixtures x 4-6 units: achieved amount vs requested amount at rel 1e-9 (native IEEE run of the "
             f"real package)")
    name = f'{pid}/bounded[float-targets]'
    if out.get('ok') is None:
        return [{'name': name, 'case': f'n<={n}', 'kind': 'bounded', 'verdict': 'unknown',
                 'note': str(out.get('error'))[-400:], 'count': 0, 'bound': bound, 'secs': 0.0}]
    res = [{'name': name, 'case': f'n<={n}', 'kind': 'bounded', 'verdict': 'proved', 'count': out['count'],
            'bound': bound, 'secs': 0.0}]
    for cls, examples in out['failures'].items():
        res.append({'name': name, 'case': cls, 'kind': 'bounded', 'verdict': 'refuted', 'count': len(examples),
                    'bound': bound, 'secs': 0.0, 'note': '; '.join(examples)[:500],
                    'replays': [{'inputs': {'example': examples[0]},
                                 'code': CODE % (n, pid) + "\n_r = run\ndef run():\n    out = _r()\n    f = out['failures'].get(%r)\n"
                                                            "    return {'ok': not f, 'observed': f and f[0], 'expected': 'target met'}\n" % cls}]})
    return res
