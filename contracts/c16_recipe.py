"""C16 — Recipe lifecycle discipline is enforced.

A state machine whose state is explicit in the object (locked, current_stage, stages, dom(results), used, len(steps)):
a class invariant plus one contract per method, on a *symbolic* recipe state — unbounded in the length of the call
history.  bake's step loop is cut (its effect on results/used is havocked; a syntactic frame obligation shows it cannot
touch the lifecycle fields); the clauses that need the loop's effect on `used` are covered by a bounded stand-in that
enumerates API call sequences on the real code against a reference state machine.
"""
import ast
import json

import z3

from pyvc import vc, harness
from pyvc.values import *   # noqa: F401,F403
from pyvc import builtins_ as B
from pyvc.symcoll import NameDict, NameSet, SymList, LabelList, _card
from pyvc.npmodel import GridArr
from contracts import clib

PID = 'C16'
FUNCTIONS = ['Recipe.__init__', 'Recipe.start_stage', 'Recipe.end_stage', 'Recipe.uses', 'Recipe.transfer',
             'Recipe.create_container', 'Recipe.create_solution', 'Recipe.create_solution_from', 'Recipe.remove',
             'Recipe.dilute', 'Recipe.fill_to', 'Recipe.bake', 'RecipeStep.__init__']
TIMEOUT = 20000
ASSUMPTIONS = ["arguments are well-typed objects of the documented kinds (Container, Plate, PlateSlicer, Substance, str)",
               "bake's step loop: effect on results/used havocked; lifecycle fields shown untouched by a syntactic frame "
               "obligation on the loop body"]
EXPLANATION = ("per-method contracts over a symbolic recipe state (unbounded history); bake loop interior covered by a "
               "bounded enumeration of call sequences (labelled bounded)")


class RState:
    pass


def mk_recipe(I, locked=None):
    r = I.new_obj('Recipe', fresh_=False, tag='recipe')
    st = RState()
    st.obj = r
    st.results = NameDict(tag='results')
    st.stages = NameDict(tag='stages')
    st.used = NameSet(tag='used')
    st.steps = SymList(tag='steps')
    for c in (st.results, st.stages, st.used, st.steps):
        c.owner = r
    st.cur = z3.Const('cur_stage', Name)
    st.start = z3.Int('cur_stage_start')
    st.locked = z3.Bool('locked') if locked is None else locked
    st.all = B.name_const(I, 'all')
    r.fields.update(results=st.results, steps=st.steps, stages=st.stages, used=st.used,
                    current_stage=NameV(st.cur), current_stage_start=st.start, locked=st.locked)
    st.results0, st.stages0, st.used0, st.n0 = st.results.mem, st.stages.mem, st.used.mem, st.steps.n
    # class invariant
    I.assume(st.steps.n >= 0)
    I.assume(st.stages.mem[st.all])
    I.assume(z3.And(st.start >= 0, st.start <= st.steps.n))
    I.assume(z3.Implies(st.cur != st.all, z3.Not(st.stages.mem[st.cur])))
    return st


def invariant_after(I, st):
    r = st.obj
    cur = r.fields['current_stage']
    curt = cur.term if isinstance(cur, NameV) else B.name_const(I, cur)
    stages = r.fields['stages']
    return z3.And(stages.mem[st.all], r.fields['steps'].n >= 0,
                  z3.Implies(curt != st.all, z3.Not(stages.mem[curt])))


def unchanged(I, st):
    """No observable change of the recipe state (used for refused calls)."""
    mine = [w for w in I.writes if w[0] is st.obj]
    return len(mine) == 0


def mk_plate(I, tag):
    p = I.new_obj('Plate', fresh_=False, tag=tag)
    rows, cols = LabelList(I, f'r{tag}'), LabelList(I, f'c{tag}')
    p.fields.update(name=NameV(z3.Const(f'name_{tag}', Name)), wells=GridArr(rows.n, cols.n), row_names=rows,
                    column_names=cols, n_rows=rows.n, n_columns=cols.n, make='generic',
                    max_volume_per_well=z3.Real(f'mv_{tag}'))
    return p


def mk_slice(I, plate, tag):
    s = I.new_obj('PlateSlicer', fresh_=False, tag=tag)
    s.fields.update(plate=plate, slices=(SliceV(None, None, None), SliceV(None, None, None)), item=SliceV(None, None, None),
                    row_labels=plate.fields['row_names'], col_labels=plate.fields['column_names'],
                    n_rows=plate.fields['n_rows'], n_cols=plate.fields['n_columns'])
    return s


def mk_operand(I, kind_, tag):
    """kind_: 'container' | 'plate' | 'slice' -> (object, name term)"""
    if kind_ == 'container':
        c = clib.mk_container(I, tag, 'finite')
        return c.obj, c.name.term
    p = mk_plate(I, tag)
    if kind_ == 'plate':
        return p, p.fields['name'].term
    return mk_slice(I, p, tag + 's'), p.fields['name'].term


def sub(I, tag, k=None):
    """Substances with fixed, realistic constants: the lifecycle rules do not depend on them, and symbolic constants
    would only add value-dependent refusals (unreachable concentrations) that belong to C03/C05/C11."""
    s = z3.Const(tag, Sub)
    consts = {'water': (2, '180153/10000', '1', '1'), 'salt': (1, '5844/100', '1', '1')}[tag]
    I.assume(z3.And(kind(s) == consts[0], mw(s) == z3.RealVal(consts[1]), dens(s) == z3.RealVal(consts[2]),
                    sa(s) == z3.RealVal(consts[3])))
    return SubV(s)


# ------------------------------------------------------------------------------------------------ cases
METHODS = {
    # name -> list of argument-shape variants
    'uses': ['container', 'plate', 'list2'],
    'transfer': [(a, b) for a in ('container', 'plate', 'slice') for b in ('container', 'plate', 'slice')],
    'create_container': ['plain', 'with-contents'],
    'create_solution': ['substance-solvent', 'container-solvent'],
    'create_solution_from': ['plain'],
    'remove': ['container', 'plate', 'slice'],
    'dilute': ['plain'],
    'fill_to': ['container', 'plate', 'slice'],
    'start_stage': ['plain'],
    'end_stage': ['plain', 'all'],
    'bake': ['plain'],
}


def tasks(tier):
    t = []
    for m, variants in METHODS.items():
        for v in variants:
            for locked in (True, False):
                t.append(('method', m, v, locked))
    t.append(('bake_frame',))
    t.append(('init',))
    t.append(('canaries',))
    t.append(('sequences_bounded', 4 if tier == 'quick' else 5))
    return t


def run(kind_, *args):
    return globals()['run_' + kind_](*args)


def call_method(I, st, method, variant):
    """Builds arguments, calls the method; returns (Outcome, info) with info = names that must be declared etc."""
    r = st.obj
    info = {'needs': [], 'adds_name': None, 'dup': None}
    w = sub(I, 'water', 2)
    salt = sub(I, 'salt', 1)
    if method == 'uses':
        if variant == 'list2':
            a, na = mk_operand(I, 'container', 'A')
            b, nb = mk_operand(I, 'plate', 'P')
            info['declares'] = [na, nb]
            return vc.call(I, 'Recipe.uses', [r, [a, b]]), info
        a, na = mk_operand(I, variant, 'A')
        info['declares'] = [na]
        return vc.call(I, 'Recipe.uses', [r, a]), info
    if method == 'transfer':
        a, na = mk_operand(I, variant[0], 'A')
        b, nb = mk_operand(I, variant[1], 'Bd')
        info['needs'] = [na, nb]
        return vc.call(I, 'Recipe.transfer', [r, a, b, SegStr([NumHole(z3.Real('q')), ' ', 'mL'])]), info
    if method == 'create_container':
        nm = z3.Const('newname', Name)
        info['declares'] = [nm]
        kwargs = {}
        if variant == 'with-contents':
            kwargs['initial_contents'] = [(w, SegStr([NumHole(z3.Real('q')), ' ', 'mL']))]
            I.assume(z3.Real('q') > 0)
        return vc.call(I, 'Recipe.create_container', [r, NameV(nm), '10 mL'], kwargs), info
    if method == 'create_solution':
        nm = z3.Const('newname', Name)
        info['declares'] = [nm]
        if variant == 'container-solvent':
            c, nc = mk_operand(I, 'container', 'Solv')
            info['needs'] = [nc]
            solvent = c
        else:
            solvent = w
        return vc.call(I, 'Recipe.create_solution', [r, salt, solvent, NameV(nm)],
                       {'concentration': '1 M', 'total_quantity': '10 mL'}), info
    if method == 'create_solution_from':
        nm = z3.Const('newname', Name)
        c, nc = mk_operand(I, 'container', 'Src')
        info['declares'] = [nm]
        info['needs'] = [nc]
        return vc.call(I, 'Recipe.create_solution_from', [r, c, salt, '0.5 M', w, '5 mL', NameV(nm)]), info
    if method == 'remove':
        a, na = mk_operand(I, variant, 'A')
        info['needs'] = [na]
        return vc.call(I, 'Recipe.remove', [r, a, w]), info
    if method == 'dilute':
        a, na = mk_operand(I, 'container', 'A')
        info['needs'] = [na]
        return vc.call(I, 'Recipe.dilute', [r, a, salt, '0.5 M', w]), info
    if method == 'fill_to':
        a, na = mk_operand(I, variant, 'A')
        info['needs'] = [na]
        return vc.call(I, 'Recipe.fill_to', [r, a, w, '5 mL']), info
    if method == 'start_stage':
        nm = z3.Const('stagename', Name)
        info['stage'] = nm
        return vc.call(I, 'Recipe.start_stage', [r, NameV(nm)]), info
    if method == 'end_stage':
        nm = st.all if variant == 'all' else z3.Const('stagename', Name)
        info['stage'] = nm
        return vc.call(I, 'Recipe.end_stage', [r, NameV(nm)]), info
    if method == 'bake':
        I.__dict__.setdefault('list_loop_handlers', {})['iter:self.steps'] = bake_loop_havoc
        return vc.call(I, 'Recipe.bake', [r]), info
    raise ValueError(method)


def bake_loop_havoc(interp, st, env, lst, sl):
    """The step loop of bake, for the lifecycle obligations: results and used are havocked (unknown afterwards)."""
    r = env.lookup('self')
    r.fields['results'].mem = fresh('results_after', r.fields['results'].mem.sort())
    r.fields['results'].known = []
    r.fields['used'].mem = fresh('used_after', r.fields['used'].mem.sort())
    interp.notes.append('bake step loop havocked (results, used)')


STEP_ADDING = ('transfer', 'create_container', 'create_solution', 'create_solution_from', 'remove', 'dilute', 'fill_to')


def run_method(method, variant, locked):
    res = []
    case = f"{method}|{variant}|{'locked' if locked else 'open'}"
    holder = {}

    def body(I):
        clib.assume_world(I)
        st = mk_recipe(I, locked=z3.BoolVal(True) if locked else z3.BoolVal(False))
        holder['st'] = st
        I.oblige('cover', True, 'cover')
        out, info = call_method(I, st, method, variant)
        r = st.obj
        foreign = [(str(w[0]), w[1], w[2]) for w in I.writes if w[0] is not st.obj]
        I.oblige('frame[arguments]', len(foreign) == 0, 'property',
                 note=f"objects handed to the recipe were written: {foreign[:4]}")
        needs = info.get('needs', [])
        declares = info.get('declares', [])
        all_declared = z3.And(*[st.results0[n] for n in needs]) if needs else z3.BoolVal(True)
        none_dup = z3.And(*[z3.Not(st.results0[n]) for n in declares]) if declares else z3.BoolVal(True)
        if len(declares) == 2:
            none_dup = z3.And(none_dup, declares[0] != declares[1])
        if locked:
            if out.kind == 'raise' and out.exc.cls == 'RuntimeError':
                I.oblige('raises[locked]', True, 'property')
                I.oblige('ensures[locked-unchanged]', unchanged(I, st), 'property',
                         note=f"recipe state written before the refusal: {[(w[1], w[2]) for w in I.writes if w[0] is st.obj][:4]}")
            elif out.kind == 'raise':
                # another refusal is acceptable only if the arguments themselves are refused (undeclared / duplicate)
                I.oblige('raises[locked]', z3.Not(z3.And(all_declared, none_dup)), 'property',
                         note=f'{out.exc.cls} at line {out.exc.lineno} instead of RuntimeError on a baked recipe')
                I.oblige('ensures[locked-unchanged]', unchanged(I, st), 'property')
            else:
                I.oblige('raises[locked]', False, 'property',
                         note='a declaring / step-adding / stage / bake call on a baked recipe must raise RuntimeError')
            return out
        # ---- open recipe
        if out.kind == 'return':
            I.oblige('ensures[invariant]', invariant_after(I, st), 'aux', note='class invariant re-established')
            if method in STEP_ADDING or method == 'uses':
                I.oblige('raises[undeclared]', all_declared, 'property',
                         note='an operand that was never declared must be refused')
                I.oblige('raises[duplicate-name]', none_dup, 'property',
                         note='a second object with an existing name must be refused')
            if method in STEP_ADDING:
                I.oblige('ensures[one-step]', z3.And(r.fields['steps'].n == st.n0 + 1,
                                                     r.fields['locked'] == st.locked,
                                                     r.fields['stages'].mem == st.stages0,
                                                     r.fields['used'].mem == st.used0,
                                                     boolz(I.equals(r.fields['current_stage'], NameV(st.cur)))),
                         'property', note='a step-adding call appends exactly one step and changes nothing else')
                exp = st.results0
                for n in declares:
                    exp = z3.Store(exp, n, True)
                I.oblige('ensures[declared-names]', r.fields['results'].mem == exp, 'property',
                         note='dom(results) grows exactly by the names the call creates')
            if method == 'uses':
                exp = st.results0
                for n in declares:
                    exp = z3.Store(exp, n, True)
                I.oblige('ensures[declared-names]', z3.And(r.fields['results'].mem == exp,
                                                           r.fields['steps'].n == st.n0), 'property')
            if method == 'start_stage':
                nm = info['stage']
                I.oblige('raises[stage-rules]', z3.And(st.cur == st.all, z3.Not(st.stages0[nm])), 'property',
                         note='one open stage at a time, unique names')
                I.oblige('ensures[stage-open]', z3.And(boolz(I.equals(r.fields['current_stage'], NameV(nm))),
                                                       intz(r.fields['current_stage_start']) == st.n0), 'property')
            if method == 'end_stage':
                nm = info['stage']
                I.oblige('raises[stage-rules]', z3.And(st.cur == nm, nm != st.all), 'property',
                         note='only the currently open stage can be ended')
                I.oblige('ensures[stage-closed]', z3.And(boolz(I.equals(r.fields['current_stage'], 'all')),
                                                         r.fields['stages'].mem == z3.Store(st.stages0, nm, True)),
                         'property')
            if method == 'bake':
                cur = r.fields['current_stage']
                I.oblige('ensures[bake-locks]', z3.And(boolz(r.fields['locked']),
                                                       boolz(I.equals(cur, 'all')),
                                                       z3.Implies(st.cur != st.all, r.fields['stages'].mem[st.cur]),
                                                       _card(r.fields['used'].mem) == _card(r.fields['results'].mem)),
                         'property', note='bake closes an open stage, locks the recipe, and only returns when '
                                          '#used == #declared')
                I.oblige('ensures[returns-results]', out.value is r.fields['results'], 'property')
        else:
            ex = out.exc
            I.oblige('ensures[refusal-unchanged]', unchanged(I, st) if method != 'bake' and variant != 'list2' else True, 'property',
                     note=f"recipe state written before the refusal: {[(w[1], w[2]) for w in I.writes if w[0] is st.obj][:4]}")
            if method == 'bake' and ex.cls == 'AssertionError':
                # the final `assert all(isinstance(...))` depends on what the (havocked) step loop stored in results
                I.notes.append('bake: final assert not decided here (depends on the havocked step loop)')
            elif ex.cls == 'ValueError' and not ex.implicit:
                if method in STEP_ADDING or method == 'uses':
                    I.oblige('raises[accept]', z3.Not(z3.And(all_declared, none_dup)), 'property',
                             note=f'ValueError at line {ex.lineno} although every operand is declared and no name clashes')
                elif method == 'start_stage':
                    I.oblige('raises[accept]', z3.Not(z3.And(st.cur == st.all, z3.Not(st.stages0[info['stage']]))), 'property')
                elif method == 'end_stage':
                    I.oblige('raises[accept]', z3.Not(z3.And(st.cur == info['stage'], info['stage'] != st.all)), 'property')
                elif method == 'bake':
                    I.oblige('raises[accept]', True, 'property')     # something declared was not used
            else:
                I.oblige(f'safe[{ex.cls}]', False, 'property', note=f'{ex.cls} at line {ex.lineno} on well-typed arguments')
        return out

    for I, out in vc.explore(body, contracts=clib.contracts(), max_paths=1500):
        if isinstance(out, vc.Outcome) and out.kind == 'unsupported':
            res.append(vc.unsupported_result(f'{PID}/Recipe.{method}/unsupported', case, out.note))
            continue
        res += vc.discharge(I, f'{PID}/Recipe.{method}/', case, TIMEOUT, replay_fn=lambda mv, ob: replay_for(method, variant, locked, ob.name))
    return clib.dedupe(res)


def replay_for(method, variant, locked, clause):
    """Witness templates: short scripts on the real package per (method, clause)."""
    inputs = {'method': method, 'variant': str(variant), 'locked': locked, 'clause': clause}
    code = ("import json\nfrom contracts.c16_ref import witness\nJ = json.loads(%r)\n"
            "def run():\n    return witness(J['method'], J['variant'], J['locked'], J['clause'])\n" % json.dumps(inputs))
    return [{'inputs': inputs, 'code': code}]


def run_init():
    res = []

    def body(I):
        r = I.new_obj('Recipe')
        out = vc.call(I, 'Recipe.__init__', [r])
        ok = (out.kind == 'return' and r.fields.get('locked') is False and r.fields.get('steps') == [] and
              r.fields.get('results') == {} and r.fields.get('current_stage') == 'all' and
              list(r.fields.get('stages', {}).keys()) == ['all'])
        I.oblige('ensures[fresh-recipe]', ok, 'property', note=str({k: str(v)[:40] for k, v in r.fields.items()}))
        return out
    for I, out in vc.explore(body):
        res += vc.discharge(I, f'{PID}/Recipe.__init__/', '-', TIMEOUT)
    return res


def run_bake_frame():
    """Syntactic frame obligations: (1) the step loop of bake never assigns a lifecycle field and calls no recipe
    method; (2) outside class Recipe nothing assigns locked / used / results / stages / current_stage / steps of a
    recipe."""
    res = []
    repo = vc.repo()
    node = repo.find('Recipe.bake')
    life = {'locked', 'stages', 'current_stage', 'current_stage_start', 'steps'}
    loops_ = [n for n in ast.walk(node) if isinstance(n, ast.For) and ast.unparse(n.iter) == 'self.steps']
    bad = []
    for lp in loops_:
        for n in ast.walk(lp):
            tg = []
            if isinstance(n, ast.Assign):
                tg = n.targets
            elif isinstance(n, (ast.AugAssign, ast.AnnAssign)):
                tg = [n.target]
            for t in tg:
                for m in ast.walk(t):
                    if isinstance(m, ast.Attribute) and isinstance(m.value, ast.Name) and m.value.id == 'self' \
                            and m.attr in life and isinstance(m.ctx, ast.Store):
                        bad.append(f"line {m.lineno}: self.{m.attr} assigned in the step loop")
            if isinstance(n, ast.Call) and isinstance(n.func, ast.Attribute) and isinstance(n.func.value, ast.Name) \
                    and n.func.value.id == 'self':
                bad.append(f"line {n.lineno}: self.{n.func.attr}() called in the step loop")
            if isinstance(n, ast.Call) and isinstance(n.func, ast.Attribute) and n.func.attr in ('append', 'pop', 'clear', 'update') \
                    and ast.unparse(n.func.value) in ('self.steps', 'self.stages'):
                bad.append(f"line {n.lineno}: {ast.unparse(n.func)} in the step loop")
    res.append({'name': f'{PID}/Recipe.bake/frame[step-loop]', 'case': f'{len(loops_)} loop(s)', 'kind': 'property',
                'verdict': 'proved' if loops_ and not bad else ('refuted' if bad else 'unknown'), 'secs': 0.0,
                'backend': 'syntactic frame analysis', 'note': '; '.join(bad) or None})
    bad = []
    for cname, cls in repo.classes.items():
        if cname == 'Recipe':
            continue
        for mname, m in cls.methods.items():
            for n in ast.walk(m):
                if isinstance(n, ast.Attribute) and isinstance(n.ctx, ast.Store) and n.attr in (
                        'locked', 'used', 'stages', 'current_stage', 'current_stage_start') \
                        and not (isinstance(n.value, ast.Name) and n.value.id == 'self' and cname != 'RecipeStep'):
                    bad.append(f"{cname}.{mname} line {n.lineno}: assigns .{n.attr}")
                if isinstance(n, ast.Attribute) and isinstance(n.ctx, ast.Store) and n.attr in ('results', 'steps') \
                        and 'recipe' in ast.unparse(n.value):
                    bad.append(f"{cname}.{mname} line {n.lineno}: assigns {ast.unparse(n)}")
    res.append({'name': f'{PID}/frame[lifecycle-fields-private]', 'case': 'all classes but Recipe', 'kind': 'property',
                'verdict': 'refuted' if bad else 'proved', 'secs': 0.0, 'backend': 'syntactic frame analysis',
                'note': '; '.join(bad) or None})
    return res


def run_canaries():
    res = []

    def body(I):
        st = mk_recipe(I, locked=z3.BoolVal(False))
        nm = z3.Const('stagename', Name)
        out = vc.call(I, 'Recipe.start_stage', [st.obj, NameV(nm)])
        if out.kind == 'return':
            I.oblige('canary[open-stage-allows-another]', st.cur != st.all, 'canary-false')
            I.oblige('canary[trivial]', st.steps.n + 1 > st.steps.n, 'canary-true')
        return out
    for I, out in vc.explore(body):
        res += [r for r in vc.discharge(I, f'{PID}/Recipe.start_stage/', 'canary', TIMEOUT) if r['kind'].startswith('canary')]

    def body2(I):
        clib.assume_world(I)
        st = mk_recipe(I, locked=z3.BoolVal(True))
        a, na = mk_operand(I, 'container', 'A')
        out = vc.call(I, 'Recipe.uses', [st.obj, a])
        I.oblige('canary[locked-accepts]', out.kind == 'return', 'canary-false')
        return out
    for I, out in vc.explore(body2, contracts=clib.contracts()):
        res += [r for r in vc.discharge(I, f'{PID}/Recipe.uses/', 'canary', TIMEOUT) if r['kind'].startswith('canary')]
    return clib.dedupe(res)


def run_sequences_bounded(depth):
    """Bounded stand-in: every sequence of recipe API calls up to `depth` over a small alphabet of objects, executed on
    the real package and compared with a reference state machine of the lifecycle rules (contracts/c16_ref.py)."""
    out = harness.run_replay({'inputs': {'depth': depth},
                              'code': "from contracts.c16_ref import enumerate_sequences\n"
                                      f"def run():\n    return enumerate_sequences({depth})\n"}, timeout=3000)
    bound = f"all call sequences of length <= {depth} over uses/create_container/transfer/remove/fill_to/start_stage/end_stage/bake with 2 containers"
    name = f'{PID}/Recipe/bounded[call-sequences]'
    if out.get('ok') is None:
        return [{'name': name, 'case': f'depth<={depth}', 'kind': 'bounded', 'verdict': 'unknown',
                 'note': str(out.get('error'))[-400:], 'count': 0, 'bound': bound, 'secs': 0.0}]
    res = [{'name': name, 'case': f'depth<={depth}', 'kind': 'bounded', 'verdict': 'proved',
            'count': out['count'] - out['nfail'], 'bound': bound, 'secs': 0.0}]
    seen = set()
    for f in out['failures']:
        if f['class'] in seen:
            continue
        seen.add(f['class'])
        code = ("from contracts.c16_ref import run_sequence\n"
                f"def run():\n    return run_sequence({f['seq']!r})\n")
        res.append({'name': name, 'case': f['class'], 'kind': 'bounded', 'verdict': 'refuted', 'count': 1,
                    'bound': bound, 'secs': 0.0, 'note': f"{f['seq']} -> {f['observed']}",
                    'replays': [{'inputs': {'sequence': f['seq']}, 'code': code}]})
    return res
