"""Contracts of Unit.* used *modularly* by callers (a caller is checked against these, not against the bodies).

* Unit.convert_from        — the specification function of C06 (verified there for every cell of the table and
                             every substance kind): result = q * SI(pf) * factor(s, fb, tb) / SI(pt); ValueError for a
                             non-enzyme measured in U.  Outside the verified domain (unit strings that are not of the
                             grammar, wrong argument types) the real body is inlined instead.
* Unit.get_human_readable_unit, Unit.convert_from_storage_to_standard_format
                           — weak contracts (shape of the result only: a non-negative number and a unit made of one of
                             '', 'm', 'u' and the base unit); their results only flow into instruction text.  They are
                             the subject of C19; until verified there they are listed as assumed.
Everything else in Unit (parse_quantity, convert, convert_to_storage, convert_from_storage, parse_concentration) is
small and loop-free and is inlined at call sites.
"""
import z3

from pyvc import spec
from pyvc.values import *   # noqa: F401,F403
from pyvc import builtins_ as B


def _inline(interp, qual, args, kwargs, node):
    fnode = interp.repo.find(qual)
    cls = interp.repo.classes[qual.split('.')[0]]
    return interp.call_func(FuncV(fnode, qual, cls), list(args), dict(kwargs), node, force_inline=True)


def _alts(u):
    """unit argument -> list of (condition, concrete string)"""
    if isinstance(u, str):
        return [(True, u)]
    if isinstance(u, IteV):
        out = []
        for c, arm in ((u.cond, u.a), (z3.Not(u.cond), u.b)):
            for c2, s in _alts(arm) or [None]:
                if s is None:
                    return None
                out.append((c if c2 is True else z3.And(c, c2), s))
        return out
    return None


def convert_from(interp, args, kwargs, node):
    if kwargs or len(args) != 4:
        return _inline(interp, 'Unit.convert_from', args, kwargs, node)
    sub, q, fu, tu = args
    fa, ta = _alts(fu), _alts(tu)
    if not B.is_substance(sub) or not (is_num(q) and not isinstance(q, bool)) or fa is None or ta is None:
        return _inline(interp, 'Unit.convert_from', args, kwargs, node)
    try:
        for _, s in fa + ta:
            spec.split_unit(s)
    except ValueError:
        return _inline(interp, 'Unit.convert_from', args, kwargs, node)
    t = B.sub_term(interp, sub)
    S = spec.SubSpec(kind(t), mw(t), dens(t), sa(t))
    # rejection: a non-enzyme measured in activity units
    rej = []
    for c, s in fa:
        r = spec.rejects(S, spec.split_unit(s)[1])
        if r is not False:
            rej.append(r if c is True else z3.And(c, r))
    if rej:
        rc = z3.simplify(z3.Or(*rej))
        if interp.decide(rc, "non-enzyme measured in U"):
            raise Raised('ValueError', getattr(node, 'lineno', None), 'Only enzymes can be measured in activity units.')
    result = None
    for cf, sf in reversed(fa):
        for ct, st_ in reversed(ta):
            v = spec.convert_spec(S, real(q), sf, st_)
            cond = z3.And(boolz(cf), boolz(ct))
            result = v if result is None else z3.If(cond, v, result)
    return result


def get_human_readable_unit(interp, args, kwargs, node):
    if kwargs or len(args) != 2 or not is_num(args[0]) or not isinstance(args[1], str):
        return _inline(interp, 'Unit.get_human_readable_unit', args, kwargs, node)
    value, unit = args
    base = None
    for b in ('L', 'mol', 'g', 'U'):
        if unit.endswith(b):
            base = b
            break
    if base is None:
        return _inline(interp, 'Unit.get_human_readable_unit', args, kwargs, node)
    if is_conc_num(value):
        return _inline(interp, 'Unit.get_human_readable_unit', args, kwargs, node)
    # no path forks: the result is an *alternative* value (which prefix is chosen is left open); it only feeds text
    z = real(value) == 0
    r = fresh('hr', RS)
    interp.assume(r >= 0)
    b1, b2 = fresh('hrp', BS), fresh('hrp', BS)
    chain = IteV(b1, base, IteV(b2, 'm' + base, 'u' + base))
    interp.__dict__.setdefault('hr_calls', []).append((value, unit, r, chain))
    return (z3.If(z, real(value), r), IteV(z, unit, chain))


def convert_from_storage_to_standard_format(interp, args, kwargs, node):
    if kwargs or len(args) != 2 or not is_num(args[1]):
        return _inline(interp, 'Unit.convert_from_storage_to_standard_format', args, kwargs, node)
    what, q = args
    if B.is_substance(what):
        t = B.sub_term(interp, what)
        if interp.decide(kind(t) == 3, "is_enzyme (standard format)"):
            base = 'U'
        elif interp.decide(kind(t) == 1, "is_solid (standard format)"):
            base = 'g'
        elif interp.decide(kind(t) == 2, "is_liquid (standard format)"):
            base = 'L'
        else:
            raise Raised('TypeError', getattr(node, 'lineno', None), 'Invalid type for what.')
    elif isinstance(what, Obj) and what.cls.name == 'Container':
        base = 'L'
    else:
        raise Raised('TypeError', getattr(node, 'lineno', None), 'Invalid type for what.')
    r = fresh('sf', RS)
    b1, b2 = fresh('sfp', BS), fresh('sfp', BS)
    chain = IteV(b1, base, IteV(b2, 'm' + base, 'u' + base))
    interp.__dict__.setdefault('sf_calls', []).append((what, q, r, chain))
    return (r, chain)


MODULAR = {
    'Unit.convert_from': convert_from,
    'Unit.get_human_readable_unit': get_human_readable_unit,
    'Unit.convert_from_storage_to_standard_format': convert_from_storage_to_standard_format,
}

ASSUMED = ["contract of Unit.convert_from = specification function of C06 (verified by ./check C06)",
           "weak contracts of Unit.get_human_readable_unit / convert_from_storage_to_standard_format (result is a "
           "number and a unit '' | 'm' | 'u' + base); they only feed instruction text (subject of C19)"]
