"""Usage trackers under contract: Recipe.get_substance_used (C09), get_container_flows and get_amount_remaining (C15).

The real tracker code is executed on a baked recipe whose step records are ABSTRACT but satisfy the bookkeeping
invariant BOOK that the bake obligations establish (contracts/bake.py: snapshots, objects-used, substances-used, trash):
  * step.to / step.frm = [state before, state after] of the touched names; consecutive steps touching a name chain
    (the state after step i is the state before the next step that touches it);
  * a substance outside step.substances_used is changed by the step in no touched object, and not discarded;
  * trash[s] = amount of s the step discarded.
Contents of every snapshot are maps of arbitrary size; the queried substance, units and stage boundaries vary per case.
Bounded in the number of steps (1..3 records per case); the trackers' own loops are over the concrete step list.
"""
import json

import z3

from pyvc import vc, spec
from pyvc.values import *   # noqa: F401,F403
from pyvc import builtins_ as B
from pyvc.symcoll import SymMap, SymSubSet
from contracts import clib
from contracts.bake import abstract_container, abstract_plate

X = z3.Const('x!t', Sub)
FUNCTIONS = {p: ['Recipe.get_substance_used', 'Recipe.get_container_flows', 'Recipe.get_amount_remaining']
             for p in ('C09', 'C15', 'C17')}


class Step:
    pass


def facts_of(I):
    """quantified bookkeeping facts as templates (instantiated at the queried substance)"""
    return I.__dict__.setdefault('_fact_templates', [])


def assume_fact(I, template):
    I.assume(z3.ForAll([X], template(X)))
    facts_of(I).append(template)


def instantiate_facts(I, t):
    for f in facts_of(I):
        I.assume(f(t))


def qf_ladder(I, ob, hyps):
    """single rung: the quantifier-free hypotheses (path condition + the BOOK facts instantiated at the queried
    substance).  Dropping hypotheses is sound for a proof; a counter-model of the instance-level facts extends to one of
    the quantified facts (all other substances absent), so a refutation here is genuine as well."""
    from pyvc.interp import has_quantifier
    return [[h for h in hyps if not has_quantifier(h)]]


def mk_state(I, name, kind_, tag, book=True):
    if kind_ == 'container':
        o = abstract_container(I, name, tag, fresh_=False)
        cells = [o]
    else:
        o = abstract_plate(I, name, tag, fresh_=False)
        cells = [c for row in o.fields['wells'].cells for c in row]
    for c in cells:
        m = c.fields['contents']
        if book:
            assume_fact(I, lambda t, m=m: z3.Implies(z3.Not(m.mem[t]), m.amt[t] == 0))
            assume_fact(I, lambda t, m=m: m.amt[t] >= 0)
    return o


def cells(o):
    return [o] if o.cls.name == 'Container' else [c for row in o.fields['wells'].cells for c in row]


def amount(o, t):
    return z3.Sum([c.fields['contents'].amt[t] for c in cells(o)]) if o.cls.name == 'Plate' else o.fields['contents'].amt[t]


def mk_step(I, recipe, idx, to, frm=None, trash=False, discards=False, book=True):
    """An abstract step record.  to / frm: (pre, post) object pairs."""
    s = I.new_obj('RecipeStep', fresh_=False, tag=f'step{idx}')
    su = SymSubSet(z3.Const(f'su{idx}', z3.ArraySort(Sub, BS)))
    names = [to[0].fields['name']] + ([frm[0].fields['name']] if frm else [])
    tr = {}
    if trash:
        tr = SymMap(tag=f'trash{idx}')
        assume_fact(I, lambda t: z3.Implies(z3.Not(tr.mem[t]), tr.amt[t] == 0))
        assume_fact(I, lambda t: tr.amt[t] >= 0)
        # BOOK: trash = what the step discarded from its destination
        assume_fact(I, lambda t: tr.amt[t] == amount(to[0], t) - amount(to[1], t))
        assume_fact(I, lambda t: z3.Implies(tr.mem[t], su.mem[t]))
        # BOOK (from C17's contract of remove + the trash obligation of bake): a discarding step only takes away, so if
        # its trash record is empty, every cell of its destination is unchanged
        from pyvc.symcoll import WS as _WS
        # Sigma-lin instance (lemmas/Sigma.lean WS_lin; its antecedent is the pointwise BOOK fact just assumed): the totals of
        # the trash record in every measure = what the cells of the destination lost
        old_tag = I.cur_tag
        I.cur_tag = 'sigma'
        for k_ in _WS:
            I.assume(_WS[k_](tr.amt) == z3.Sum([_WS[k_](a.fields['contents'].amt) - _WS[k_](b.fields['contents'].amt)
                                               for a, b in zip(cells(to[0]), cells(to[1]))] + [z3.RealVal(0)]))
        I.cur_tag = old_tag
        nonempty = tr.sym_truth(I)
        for a, b in zip(cells(to[0]), cells(to[1])):
            for k_ in _WS:
                I.assume(z3.Implies(z3.Not(nonempty), _WS[k_](b.fields['contents'].amt) == _WS[k_](a.fields['contents'].amt)))
    s.fields.update(recipe=recipe, operator='abstract', operands=(), instructions='', frm_slice=None, to_slice=None,
                    to=[to[0], to[1]], frm=[frm[0], frm[1]] if frm else [None, None],
                    objects_used=B.make_set(I, names), substances_used=su, trash=tr)
    # BOOK: a substance outside substances_used is not changed by the step
    for pre, post in ([to] + ([frm] if frm else [])) if book else []:
        for a, b in zip(cells(pre), cells(post)):
            assume_fact(I, lambda t, a=a, b=b: z3.Implies(z3.Not(su.mem[t]), b.fields['contents'].amt[t] == a.fields['contents'].amt[t]))
    s.su = su
    s.trash_amt = (lambda t: tr.amt[t]) if trash else (lambda t: z3.RealVal(0))
    return s


def mk_recipe(I, steps, results, stages):
    r = I.new_obj('Recipe', fresh_=False, tag='recipe')
    used = B.make_set(I, list(results))
    r.fields.update(results=dict(results), steps=list(steps), stages=dict(stages), current_stage='all',
                    current_stage_start=0, locked=True, used=used)
    clib.init_defaults(I, r)
    return r


# ------------------------------------------------------------------------------------------------ scenarios
def scenario(I, name, book=True):
    """returns (recipe, steps, objects) for a named program shape"""
    if book:
        clib.assume_world(I)
    A0, A1, A2 = (mk_state(I, 'A', 'container', f'A{i}', book) for i in range(3))
    B0, B1, B2 = (mk_state(I, 'B', 'container', f'B{i}', book) for i in range(3))
    P0, P1, P2, P3 = (mk_state(I, 'P', 'plate', f'P{i}', book) for i in range(4))
    if name == 'c2p':                      # A -> P
        steps = [mk_step(I, None, 0, (P0, P1), (A0, A1), book=book)]
        res = {'A': A1, 'P': P1}
        chain = {'A': [A0, A1], 'P': [P0, P1]}
    elif name == 'c2p,c2p':                # A -> P twice, stage boundary between
        steps = [mk_step(I, None, 0, (P0, P1), (A0, A1)), mk_step(I, None, 1, (P1, P2), (A1, A2))]
        res = {'A': A2, 'P': P2}
        chain = {'A': [A0, A1, A2], 'P': [P0, P1, P2]}
    elif name == 'c2p,remove':             # A -> P, then remove from P (discarding)
        steps = [mk_step(I, None, 0, (P0, P1), (A0, A1)), mk_step(I, None, 1, (P1, P2), None, trash=True)]
        res = {'A': A1, 'P': P2}
        chain = {'A': [A0, A1], 'P': [P0, P1, P2]}
    elif name == 'c2p,same':               # A -> P, then a transfer between wells of P itself
        steps = [mk_step(I, None, 0, (P0, P1), (A0, A1)), mk_step(I, None, 1, (P1, P2), (P1, P2))]
        res = {'A': A1, 'P': P2}
        chain = {'A': [A0, A1], 'P': [P0, P1, P2]}
    elif name == 'c2c,c2p,p2c':            # A -> B, B -> P, P -> A
        steps = [mk_step(I, None, 0, (B0, B1), (A0, A1)), mk_step(I, None, 1, (P0, P1), (B1, B2)),
                 mk_step(I, None, 2, (A1, A2), (P1, P2))]
        res = {'A': A2, 'B': B2, 'P': P2}
        chain = {'A': [A0, A1, A2], 'B': [B0, B1, B2], 'P': [P0, P1, P2]}
    elif name == 'fill':                   # unary step on a container (dilute / fill_to / create)
        steps = [mk_step(I, None, 0, (A0, A1), None)]
        res = {'A': A1}
        chain = {'A': [A0, A1]}
    else:
        raise ValueError(name)
    return steps, res, chain


STAGES = {
    'c2p': {'all': SliceV(None, None, None)},
    'c2p,c2p': {'all': SliceV(None, None, None), 's1': SliceV(0, 1, None), 's2': SliceV(1, 2, None)},
    'c2p,remove': {'all': SliceV(None, None, None), 's1': SliceV(0, 1, None), 's2': SliceV(1, 2, None)},
    'c2c,c2p,p2c': {'all': SliceV(None, None, None), 's1': SliceV(0, 2, None), 's2': SliceV(2, 3, None)},
    'fill': {'all': SliceV(None, None, None)},
    'c2p,same': {'all': SliceV(None, None, None), 's1': SliceV(0, 1, None), 's2': SliceV(1, 2, None)},
}


def tasks(tier, pid):
    t = []
    if pid in ('C09', 'C17'):
        for sc in ('c2p', 'c2p,c2p', 'c2p,remove', 'c2c,c2p,p2c'):
            for tf in STAGES[sc]:
                for dest in ('plates', 'A', 'A,P'):
                    for k in ((1, 'umol'), (2, 'mL'), (3, 'U')) if sc in ('c2p', 'c2p,remove') else ((1, 'umol'),):
                        t.append(('used', sc, tf, dest, k[0], k[1]))
        # unbounded in the number of steps: induction over the step loop (one arbitrary record per step shape)
        for dest in ('plates', 'A', 'A,P', 'A,B'):
            for k in ((1, 'umol'), (2, 'mL'), (3, 'U')) if dest in ('plates', 'A,P') else ((1, 'mmol'),):
                t.append(('used_induction', dest, k[0], k[1]))
        t.append(('used_additive', 'c2p,c2p'))
        t.append(('used_additive', 'c2p,remove'))
        t.append(('used_additive', 'c2c,c2p,p2c'))
    if pid == 'C15':
        for sc in ('c2p', 'c2p,c2p', 'c2p,remove', 'c2c,c2p,p2c', 'fill', 'c2p,same'):
            for tf in STAGES[sc]:
                for obj in ('A', 'P', 'B'):
                    for unit in ('uL', 'mg'):
                        t.append(('flows', sc, tf, obj, unit))
        for unit in ('uL', 'mg', 'mmol'):
            t.append(('flows_induction', unit))
    t.append(('canaries',))
    return t



def run(pid, kind_, *args):
    return globals()['run_' + kind_](pid, *args)


def slice_range(sl, n):
    return range(*slice(sl.start, sl.stop, sl.step).indices(n))


def touched(step, name):
    out = []
    if step.fields['to'][0] is not None and step.fields['to'][0].fields['name'] == name:
        out.append((step.fields['to'][0], step.fields['to'][1]))
    if step.fields['frm'][0] is not None and step.fields['frm'][0].fields['name'] == name:
        out.append((step.fields['frm'][0], step.fields['frm'][1]))
    return out


def run_used(pid, sc, tf, dest, k, unit):
    """get_substance_used(s, timeframe, unit, destinations) = net gain of the destinations over the timeframe + what
    remove steps discarded, in the requested unit, rounded to the display precision; a net decrease raises."""
    res = []
    case = f"{sc}|{tf}|{dest}|{spec_kind(k)}|{unit}"
    name = f'{pid}/Recipe.get_substance_used/'

    def body(I):
        steps, results, chain = scenario(I, sc)
        r = mk_recipe(I, steps, results, STAGES[sc])
        for s_ in steps:
            s_.fields['recipe'] = r
        s = z3.Const('s', Sub)
        I.assume(kind(s) == k)
        I.assume(z3.And(mw(s) > 0, dens(s) > 0, sa(s) > 0))
        instantiate_facts(I, s)
        dests = 'plates' if dest == 'plates' else [results[n] for n in dest.split(',') if n in results]
        dnames = [n for n, o in results.items() if o.cls.name == 'Plate'] if dest == 'plates' else \
            [n for n in dest.split(',') if n in results]
        I.writes.clear()
        out = vc.call(I, 'Recipe.get_substance_used', [r, SubV(s), tf, unit, dests])
        I.oblige('frame', len(I.writes) == 0, 'property', note=f"a tracker wrote {[(str(w[0]), w[1]) for w in I.writes][:3]}")
        idx = list(slice_range(STAGES[sc][tf], len(steps)))
        delta = z3.RealVal(0)
        for i in idx:
            for n in dnames:
                for pre, post in touched(steps[i], n):
                    delta = delta + amount(post, s) - amount(pre, s)
            delta = delta + steps[i].trash_amt(s)
        S = spec.SubSpec(k, mw(s), dens(s), sa(s))
        from_unit = 'U' if k == 3 else I.cfg.data['moles_storage_unit']
        want = spec.convert_spec(S, delta, from_unit, unit)
        prec = I.cfg.data['precisions'].get(unit, I.cfg.data['precisions']['default'])
        if out.kind == 'return':
            I.oblige('raises[net-decrease]', delta >= 0, 'property', note='a net decrease must raise ValueError')
            I.oblige('ensures[net-gain]', real(out.value) == B.rnd(z3.IntVal(prec), want), 'property',
                     note='reported amount = gain of the destinations over exactly the steps of the timeframe + discarded')
        elif out.exc.cls == 'ValueError' and not out.exc.implicit:
            I.oblige('raises[net-decrease]', delta < 0, 'property', note=f'ValueError at line {out.exc.lineno} without a net decrease')
        else:
            I.oblige(f'safe[{out.exc.cls}]', False, 'property', note=f'{out.exc.cls} at line {out.exc.lineno}')
        # the same question asked again in another unit of the same dimension: answered by definition as well (nothing of
        # the first answer may be remembered under a key that forgets the unit)
        unit2 = {'umol': 'mmol', 'mmol': 'umol', 'mL': 'uL', 'uL': 'mL', 'mg': 'g'}.get(unit)
        if unit2 is not None and out.kind == 'return':
            out2 = vc.call(I, 'Recipe.get_substance_used', [r, SubV(s), tf, unit2, dests])
            want2 = spec.convert_spec(S, delta, from_unit, unit2)
            prec2 = I.cfg.data['precisions'].get(unit2, I.cfg.data['precisions']['default'])
            if out2.kind == 'return':
                I.oblige('ensures[net-gain/asked-again]', real(out2.value) == B.rnd(z3.IntVal(prec2), want2), 'property',
                         note=f'the same question asked again in {unit2} (after {unit}) is answered in {unit2}')
            else:
                I.oblige('ensures[net-gain/asked-again]', False, 'property', note=f'{out2.exc.cls} when asked again in {unit2}')
        return out
    for I, out in vc.explore(body, contracts=clib.contracts(), max_paths=200):
        if isinstance(out, vc.Outcome) and out.kind == 'unsupported':
            res.append(vc.unsupported_result(name + 'unsupported', case, out.note))
            continue
        res += vc.discharge(I, name, case, 15000, ladder=qf_ladder, inputs={'placeholder': z3.RealVal(0)},
                            replay_fn=lambda mv, ob: used_replay(k, unit, ob.name))
    res = clib.dedupe(res)
    if any(r['verdict'] == 'unsupported' for r in res):
        res += native_fallback(name + 'ensures[net-gain]', case, used_replay(k, unit, 'ensures[net-gain]'))
    return native_refute_unknowns(res, used_replay(k, unit, 'undecided clauses'))


# ------------------------------------------------------------------------------------------------ unbounded in the steps
STEP_SHAPES = ('A->P', 'P->A', 'A->B', 'P:discard', 'A:discard', 'A:only', 'P:only', 'P->P', 'B->A')


def generic_step(I, shape):
    """one arbitrary step record of the given shape (its snapshots are abstract, constrained by BOOK)"""
    mk = lambda n, kind_, tag: mk_state(I, n, kind_, tag)      # noqa: E731
    kind_of = {'A': 'container', 'B': 'container', 'P': 'plate'}
    if '->' in shape:
        f, t = shape.split('->')
        if f == t:
            pre, post = mk(t, kind_of[t], t + 'pre'), mk(t, kind_of[t], t + 'post')
            return mk_step(I, None, 'g', (pre, post), (pre, post))
        return mk_step(I, None, 'g', (mk(t, kind_of[t], t + 'pre'), mk(t, kind_of[t], t + 'post')),
                       (mk(f, kind_of[f], f + 'pre'), mk(f, kind_of[f], f + 'post')))
    t, what = shape.split(':')
    return mk_step(I, None, 'g', (mk(t, kind_of[t], t + 'pre'), mk(t, kind_of[t], t + 'post')), None, trash=(what == 'discard'))


def induction_loop(I, contribution, total_name='TOTAL'):
    """Handler for `for step in <steps of the timeframe>` over a step list of ARBITRARY length.  The loop is cut by the
    invariant  acc == PS_acc(k)  for every accumulator the loop carries (one number, or the numeric entries of one dict),
    where PS(0) = 0 and PS(k+1) = PS(k) + contribution(step k): init and step are obligations (the step for one
    arbitrary record per shape, every variable the body assigns havocked), and after the loop acc == PS(n) =: TOTAL.
    `contribution(interp, step)` is the SPECIFIED contribution of one step (from the property): {accumulator key: term},
    key None for a plain numeric accumulator."""
    from pyvc import loops as L
    PS, TOTAL = {}, {}

    def ps(key):
        if key not in PS:
            PS[key] = z3.Function(f'PS!{total_name}!{key}', IS, RS)
            TOTAL[key] = z3.Real(f'{total_name}!{key}' if key is not None else total_name)
        return PS[key]

    def handler(interp, st, env, lst, sl):
        carried = sorted(n for n in L.assigned_targets(st) if '[' not in n and '.' not in n
                         and env.has(n) and n != getattr(st.target, 'id', None))
        for t in L.assigned_targets(st):
            if '[' in t:
                base = t.split('[')[0]
                if env.has(base) and base not in carried:
                    carried.append(base)
        if len(carried) != 1:
            raise Unsupported(f"step loop carrying {carried} (the induction handles one accumulator variable)")
        var = carried[0]
        v0 = env.lookup(var)
        if isinstance(v0, dict) and v0 and all(isinstance(k_, str) and is_num(x) and not isinstance(x, bool) for k_, x in v0.items()):
            keys = list(v0)
        elif is_num(v0) and not isinstance(v0, bool):
            keys = [None]
        else:
            raise Unsupported(f"step loop accumulating into {type(v0).__name__}")
        name = f"inv[step-loop@{interp.call_stack[-1] if interp.call_stack else '?'}]"

        def cur(key):
            v = env.lookup(var)
            return real(v if key is None else v[key])
        for key in keys:
            interp.assume(ps(key)(0) == 0)
            interp.oblige(name + '.init', cur(key) == ps(key)(0), 'property', lineno=st.lineno)
        shapes = interp.__dict__['_step_shapes']
        choice = interp.choose(len(shapes) + 1, f"loop@{st.lineno} exit / iteration on a step of each shape")
        L.havoc(interp, st, env)
        if keys == [None]:
            env.set(var, fresh(var, RS))
        else:
            env.set(var, {key: fresh(f'{var}_{key}', RS) for key in keys})
        if choice > 0:
            k = fresh('k', IS)
            interp.assume(k >= 0)
            for key in keys:
                interp.assume(cur(key) == ps(key)(k))
            g = generic_step(interp, shapes[choice - 1])
            if interp.__dict__.get('_queried') is not None:
                instantiate_facts(interp, interp.__dict__['_queried'])
            contrib = contribution(interp, g)
            for key in keys:
                interp.assume(ps(key)(k + 1) == ps(key)(k) + contrib[key])
            interp.assign(st.target, g, env)
            try:
                interp.exec_block(st.body, env)
            except ContinueEx:
                pass
            except BreakEx:
                interp.oblige(name + '.no-break', False, 'property', lineno=st.lineno)
                raise PathEnd()
            v = env.lookup(var)
            ok_shape = (is_num(v) and keys == [None]) or (isinstance(v, dict) and list(v) == keys)
            if not ok_shape:
                interp.oblige(name + '.step', False, 'property', lineno=st.lineno)
                raise PathEnd()
            for key in keys:
                interp.oblige(name + '.step', cur(key) == ps(key)(k + 1), 'property', lineno=st.lineno)
            raise PathEnd()
        for key in keys:
            interp.assume(cur(key) == TOTAL[key])
        interp.exec_block(st.orelse, env)
    return handler, TOTAL, ps


def run_used_induction(pid, dest, k, unit):
    """get_substance_used over a step list of arbitrary length: induction step per step shape + the code after the loop
    against TOTAL (= the sum of the specified contributions, which telescopes to the net gain: lemma[telescoping])."""
    from pyvc.symcoll import SymList
    res = []
    case = f"any-number-of-steps|{dest}|{spec_kind(k)}|{unit}"
    name = f'{pid}/Recipe.get_substance_used/'
    dnames = {'plates': ['P'], 'A': ['A'], 'A,P': ['A', 'P'], 'A,B': ['A', 'B']}[dest]

    def body(I):
        clib.assume_world(I)
        results = {'A': mk_state(I, 'A', 'container', 'Aend'), 'B': mk_state(I, 'B', 'container', 'Bend'),
                   'P': mk_state(I, 'P', 'plate', 'Pend')}
        steps = SymList(tag='steps')
        I.assume(steps.n >= 0)
        a, b = z3.Int('stage_from'), z3.Int('stage_to')
        r = mk_recipe(I, [], results, {'all': SliceV(None, None, None), 'stage': SliceV(a, b, None)})
        r.fields['steps'] = steps
        steps.owner = r
        s = z3.Const('s', Sub)
        I.assume(kind(s) == k)
        I.assume(z3.And(mw(s) > 0, dens(s) > 0, sa(s) > 0))
        I.__dict__['_queried'] = s
        I.__dict__['_step_shapes'] = STEP_SHAPES

        def contribution(interp, g):
            c = z3.RealVal(0)
            for n in dnames:
                for pre, post in touched(g, n):
                    c = c + amount(post, s) - amount(pre, s)
            return {None: c + g.trash_amt(s)}
        handler, TOTALS, ps = induction_loop(I, contribution)
        ps(None)
        TOTAL = TOTALS[None]
        I.__dict__.setdefault('list_loop_handlers', {})['list:steps'] = handler
        dests = 'plates' if dest == 'plates' else [results[n] for n in dnames]
        I.writes.clear()
        tf = 'all' if I.choose(2, 'whole recipe / a named stage') == 0 else 'stage'
        out = vc.call(I, 'Recipe.get_substance_used', [r, SubV(s), tf, unit, dests])
        I.oblige('frame', len(I.writes) == 0, 'property', note=f"a tracker wrote {[(str(w[0]), w[1]) for w in I.writes][:3]}")
        S = spec.SubSpec(k, mw(s), dens(s), sa(s))
        from_unit = 'U' if k == 3 else I.cfg.data['moles_storage_unit']
        want = spec.convert_spec(S, TOTAL, from_unit, unit)
        prec = I.cfg.data['precisions'].get(unit, I.cfg.data['precisions']['default'])
        if out.kind == 'return':
            I.oblige('raises[net-decrease]', TOTAL >= 0, 'property', note='a net decrease must raise ValueError')
            I.oblige('ensures[net-gain]', real(out.value) == B.rnd(z3.IntVal(prec), want), 'property',
                     note='reported amount = sum over the steps of the timeframe of (gain of the destinations + discarded), converted and rounded')
        elif out.exc.cls == 'ValueError' and not out.exc.implicit:
            I.oblige('raises[net-decrease]', TOTAL < 0, 'property', note=f'ValueError at line {out.exc.lineno} without a net decrease')
        else:
            I.oblige(f'safe[{out.exc.cls}]', False, 'property', note=f'{out.exc.cls} at line {out.exc.lineno}')
        return out
    n_step = 0
    for I, out in vc.explore(body, contracts=clib.contracts(), max_paths=400):
        if isinstance(out, vc.Outcome) and out.kind == 'unsupported':
            res.append(vc.unsupported_result(name + 'unsupported', case, out.note))
            continue
        rs = vc.discharge(I, name, case, 15000, ladder=qf_ladder, inputs={'placeholder': z3.RealVal(0)},
                          replay_fn=lambda mv, ob: used_replay(k, unit, ob.name))
        n_step += sum(1 for x in rs if x['name'].endswith('.step'))
        res += rs
    res = clib.dedupe(res)
    if not any(x['verdict'] == 'unsupported' for x in res) and n_step == 0:
        res.append(vc.unsupported_result(name + 'unsupported', case, 'the step loop was never reached (no induction step generated)'))
    return native_refute_unknowns(res, used_replay(k, unit, 'undecided clauses'))


def run_flows_induction(pid, unit):
    """get_container_flows of a CONTAINER over a step list of arbitrary length: induction over the step loop with the two
    accumulators flows['in'], flows['out'] (per-well arrays of a plate are outside this induction: the plate cases stay
    with the 1..3-record scenarios)."""
    from pyvc.symcoll import SymList
    res = []
    case = f"any-number-of-steps|A|{unit}"
    name = f'{pid}/Recipe.get_container_flows/'

    def body(I):
        clib.assume_world(I)
        results = {'A': mk_state(I, 'A', 'container', 'Aend'), 'B': mk_state(I, 'B', 'container', 'Bend'),
                   'P': mk_state(I, 'P', 'plate', 'Pend')}
        steps = SymList(tag='steps')
        I.assume(steps.n >= 0)
        r = mk_recipe(I, [], results, {'all': SliceV(None, None, None), 'stage': SliceV(z3.Int('stage_from'), z3.Int('stage_to'), None)})
        r.fields['steps'] = steps
        steps.owner = r
        I.__dict__['_queried'] = None
        I.__dict__['_step_shapes'] = STEP_SHAPES

        def contribution(interp, g):
            inflow, outflow = z3.RealVal(0), z3.RealVal(0)
            to0, frm0 = g.fields['to'][0], g.fields['frm'][0]
            if to0 is not None and to0.fields['name'] == 'A':
                a, b = total_in(interp, g.fields['to'][0], unit)[0], total_in(interp, g.fields['to'][1], unit)[0]
                if isinstance(g.fields['trash'], SymMap):
                    # a discarding step: out += what it discarded (= what the container lost, BOOK) when it discarded anything
                    outflow = outflow + (a - b)
                else:
                    inflow = inflow + (b - a)
            if frm0 is not None and frm0.fields['name'] == 'A':
                a, b = total_in(interp, g.fields['frm'][0], unit)[0], total_in(interp, g.fields['frm'][1], unit)[0]
                outflow = outflow + (a - b)
            return {'in': inflow, 'out': outflow}
        handler, TOTALS, ps = induction_loop(I, contribution, 'FLOW')
        ps('in'), ps('out')
        I.__dict__.setdefault('list_loop_handlers', {})['list:steps'] = handler
        I.writes.clear()
        tf = 'all' if I.choose(2, 'whole recipe / a named stage') == 0 else 'stage'
        out = vc.call(I, 'Recipe.get_container_flows', [r, results['A'], tf, unit])
        I.oblige('frame', len(I.writes) == 0, 'property')
        if out.kind != 'return':
            I.oblige(f'safe[{out.exc.cls}]', False, 'property', note=f'{out.exc.cls} at line {out.exc.lineno} in get_container_flows')
            return out
        fl = out.value
        prec = I.cfg.data['precisions'].get(unit, I.cfg.data['precisions']['default'])
        ok = isinstance(fl, dict) and set(fl) == {'in', 'out'} and all(is_num(fl[k_]) for k_ in fl)
        if not ok:
            I.oblige('ensures[in]', False, 'property', note=f'result {fl!r}')
            return out
        for k_ in ('in', 'out'):
            I.oblige(f'ensures[{k_}]', real(fl[k_]) == B.rnd(z3.IntVal(prec), TOTALS[k_]), 'property',
                     note=f"flows['{k_}'] = sum over the steps of the timeframe of the specified per-step {k_}flow, rounded for display")
        return out
    n_step = 0
    for I, out in vc.explore(body, contracts=clib.contracts(), max_paths=400):
        if isinstance(out, vc.Outcome) and out.kind == 'unsupported':
            res.append(vc.unsupported_result(name + 'unsupported', case, out.note))
            continue
        rs = vc.discharge(I, name, case, 15000, ladder=clib.ladder, inputs={'placeholder': z3.RealVal(0)},
                          replay_fn=lambda mv, ob: flows_replay(unit, ob.name))
        n_step += sum(1 for x in rs if x['name'].endswith('.step'))
        res += rs
    res = clib.dedupe(res)
    if not any(x['verdict'] == 'unsupported' for x in res) and n_step == 0:
        res.append(vc.unsupported_result(name + 'unsupported', case, 'the step loop was never reached (no induction step generated)'))
    return native_refute_unknowns(res, flows_replay(unit, 'undecided clauses'))


def native_refute_unknowns(res, jobs):
    """property obligations the solvers left undecided (quantified facts about abstract records): the replay scenario of
    the function is executed on the real code; if it misbehaves there, the undecided obligations are reported as
    refuted with that concrete input (an undecided obligation alone is never reported as a violation)"""
    unk = [r for r in res if r['kind'] == 'property' and r['verdict'] == 'unknown']
    if not unk:
        return res
    from pyvc import harness
    for job in jobs:
        out = harness.run_replay(job)
        if out.get('ok') is False:
            for r in unk:
                r['verdict'] = 'refuted'
                r['independent'] = True
                r['backend'] = 'native run of the replay scenario (solver: unknown)'
                r['note'] = ((r.get('note') or '') + ' | ' + str(out.get('observed')))[:500]
                r['replays'] = [job]
            break
    return res


def native_fallback(name, case, jobs):
    """the body uses a construct the engine cannot follow (nothing is proved for this case): the replay scenario of the
    clause is still executed on the real code, and a misbehaviour there is a concrete failing input"""
    from pyvc import harness
    for job in jobs:
        out = harness.run_replay(job)
        if out.get('ok') is False:
            return [{'name': name, 'case': case, 'kind': 'property', 'verdict': 'refuted', 'independent': True, 'secs': 0.0,
                     'backend': 'native run of the replay scenario (engine: unsupported construct)',
                     'note': str(out.get('observed'))[:400], 'replays': [job]}]
    return []


def used_replay(k, unit, clause):
    inputs = {'kind': k, 'unit': unit, 'clause': clause}
    code = ("import json\nfrom contracts.tracker_oracle import replay_used\nJ = json.loads(%r)\n"
            "def run():\n    return replay_used(J['kind'], J['unit'])\n" % json.dumps(inputs))
    return [{'inputs': inputs, 'code': code}]


def spec_kind(k):
    return {1: 'solid', 2: 'liquid', 3: 'enzyme'}[k]


def unrounded(v):
    if z3.is_app(v) and v.decl().name() == 'rnd':
        return v.arg(1)
    return None


def run_used_additive(pid, sc):
    """Amounts over consecutive stages add up to the amount over their union (before display rounding)."""
    res = []
    name = f'{pid}/Recipe.get_substance_used/'

    def body(I):
        steps, results, chain = scenario(I, sc)
        r = mk_recipe(I, steps, results, STAGES[sc])
        s = z3.Const('s', Sub)
        I.assume(kind(s) == 1)
        I.assume(z3.And(mw(s) > 0, dens(s) > 0))
        instantiate_facts(I, s)
        vals = {}
        for tf in ('all', 's1', 's2'):
            out = vc.call(I, 'Recipe.get_substance_used', [r, SubV(s), tf, 'umol', [results['P']]])
            if out.kind != 'return':
                return out
            vals[tf] = unrounded(real(out.value))
        ok = all(v is not None for v in vals.values())
        I.oblige('lemma[stage-additivity]', (vals['all'] == vals['s1'] + vals['s2']) if ok else False, 'property',
                 note='used(all) = used(stage 1) + used(stage 2) before display rounding')
        return out
    for I, out in vc.explore(body, contracts=clib.contracts(), max_paths=400):
        if isinstance(out, vc.Outcome) and out.kind == 'unsupported':
            res.append(vc.unsupported_result(name + 'unsupported', sc, out.note))
            continue
        res += vc.discharge(I, name, sc, 15000, ladder=qf_ladder)
    return clib.dedupe(res)


def total_in(I, o, unit):
    """total content of an object (per cell) in `unit`: list of terms (one per cell)"""
    ms = clib.ms_of(I)
    p, b = spec.split_unit(unit)
    from pyvc.symcoll import WS
    k = clib.BASE_WS[b]
    return [WS[k](c.fields['contents'].amt) / spec.num(spec.SI[p]) for c in cells(o)]


def run_flows(pid, sc, tf, objname, unit):
    """get_container_flows / get_amount_remaining against the snapshot chain."""
    res = []
    case = f"{sc}|{tf}|{objname}|{unit}"
    name = f'{pid}/Recipe.'

    def body(I):
        steps, results, chain = scenario(I, sc)
        if objname not in results:
            return vc.Outcome('end')
        r = mk_recipe(I, steps, results, STAGES[sc])
        obj = results[objname]
        prec = I.cfg.data['precisions'].get(unit, I.cfg.data['precisions']['default'])
        idx = list(slice_range(STAGES[sc][tf], len(steps)))
        I.writes.clear()
        out = vc.call(I, 'Recipe.get_container_flows', [r, obj, tf, unit])
        I.oblige('frame', len(I.writes) == 0, 'property')
        ncell = len(cells(obj))
        inflow = [z3.RealVal(0)] * ncell
        outflow = [z3.RealVal(0)] * ncell
        for i in idx:
            st_ = steps[i]
            to0, frm0 = st_.fields['to'][0], st_.fields['frm'][0]
            if to0 is not None and frm0 is not None and to0.fields['name'] == objname == frm0.fields['name']:
                # a transfer inside the object (plate to itself): a well that gained has inflow, one that lost outflow
                a, b = total_in(I, st_.fields['to'][0], unit), total_in(I, st_.fields['to'][1], unit)
                inflow = [x + z3.If(q >= p_, q - p_, 0) for x, p_, q in zip(inflow, a, b)]
                outflow = [x + z3.If(p_ > q, p_ - q, 0) for x, p_, q in zip(outflow, a, b)]
                continue
            if to0 is not None and to0.fields['name'] == objname:
                a, b = total_in(I, st_.fields['to'][0], unit), total_in(I, st_.fields['to'][1], unit)
                if isinstance(st_.fields['trash'], SymMap):
                    # a discarding step: what it took out of each well (of the container) left that well
                    outflow = [o_ + (x - y) for o_, x, y in zip(outflow, a, b)]
                else:
                    inflow = [x + (q - p_) for x, p_, q in zip(inflow, a, b)]
            if frm0 is not None and frm0.fields['name'] == objname:
                a, b = total_in(I, st_.fields['frm'][0], unit), total_in(I, st_.fields['frm'][1], unit)
                outflow = [x + (p_ - q) for x, p_, q in zip(outflow, a, b)]
        if out.kind != 'return':
            I.oblige(f'safe[{out.exc.cls}]', False, 'property', note=f'{out.exc.cls} at line {out.exc.lineno} in get_container_flows')
            return out
        fl = out.value

        def flat(v):
            from pyvc.npmodel import NpArr
            if isinstance(v, NpArr):
                return [x for row in v.data for x in (row if isinstance(row, list) else [row])]
            return [v]
        fin, fout = flat(fl['in']), flat(fl['out'])
        ok_shape = len(fin) == ncell and len(fout) == ncell
        I.oblige('get_container_flows/ensures[per-well]', bool(ok_shape), 'property', note=f'{len(fin)} values for {ncell} wells')
        if ok_shape:
            unr_in = [unrounded(real(v)) if is_sym(v) else real(v) for v in fin]
            unr_out = [unrounded(real(v)) if is_sym(v) else real(v) for v in fout]
            if all(v is not None for v in unr_in + unr_out):
                I.oblige('get_container_flows/ensures[in]', z3.And(*[a == b for a, b in zip(unr_in, inflow)]), 'property',
                         note='inflow = sum of the gains of the object as destination')
                I.oblige('get_container_flows/ensures[out]', z3.And(*[a == b for a, b in zip(unr_out, outflow)]), 'property',
                         note='outflow = sum of the losses of the object as source (+ discarded), per well')
                # balance: in - out = remaining(end) - remaining(start)  (summed over the object)
                first = [p for i in idx for p in touched(steps[i], objname)][:1]
                last = [p for i in idx for p in touched(steps[i], objname)][-1:]
                if first:
                    start = sum(total_in(I, first[0][0], unit), z3.RealVal(0))
                    end = sum(total_in(I, last[0][1], unit), z3.RealVal(0))
                    I.oblige('lemma[flows-balance]', sum(unr_in, z3.RealVal(0)) - sum(unr_out, z3.RealVal(0)) == end - start,
                             'property', note='inflow - outflow = change in amount remaining')
            else:
                I.oblige('get_container_flows/ensures[in]', False, 'property', note='result is not a rounded total')
        # amount remaining at the start / end of the timeframe
        for mode in ('before', 'after'):
            out2 = vc.call(I, 'Recipe.get_amount_remaining', [r, obj, tf, unit, mode])
            tch = [p for i in idx for p in touched(steps[i], objname)]
            if out2.kind != 'return':
                I.oblige(f'safe[{out2.exc.cls}]', False, 'property', note=f'{out2.exc.cls} in get_amount_remaining')
                continue
            if not tch:
                continue
            snap = tch[0][0] if mode == 'before' else tch[-1][1]
            got = flat(out2.value)
            want = total_in(I, snap, unit)
            I.oblige(f'get_amount_remaining/ensures[{mode}]', len(got) == len(want) and z3.And(*[real(a) == b for a, b in zip(got, want)])
                     if len(got) == len(want) else False, 'property',
                     note=f'amount remaining ({mode}) = total content of the object at the {"start" if mode == "before" else "end"} of the timeframe')
        return out
    for I, out in vc.explore(body, contracts=clib.contracts(), max_paths=300):
        if isinstance(out, vc.Outcome) and out.kind in ('unsupported',):
            res.append(vc.unsupported_result(name + 'unsupported', case, out.note))
            continue
        if isinstance(out, vc.Outcome) and out.kind == 'end':
            continue
        res += vc.discharge(I, name, case, 15000, ladder=clib.ladder, inputs={'placeholder': z3.RealVal(0)},
                            replay_fn=lambda mv, ob: flows_replay(unit, ob.name))
    res = clib.dedupe(res)
    if any(r['verdict'] == 'unsupported' for r in res):
        res += native_fallback(name + 'get_container_flows/ensures[in]', case, flows_replay(unit, 'ensures[in]'))
    return native_refute_unknowns(res, flows_replay(unit, 'undecided clauses'))


def flows_replay(unit, clause):
    inputs = {'unit': unit, 'clause': clause}
    code = ("import json\nfrom contracts.tracker_oracle import replay_flows\nJ = json.loads(%r)\n"
            "def run():\n    return replay_flows(J['unit'])\n" % json.dumps(inputs))
    return [{'inputs': inputs, 'code': code}]


def run_canaries(pid):
    res = []

    def body(I):
        # (no quantified bookkeeping facts here, so that the false clause has a plain counter-model)
        steps, results, chain = scenario(I, 'c2p', book=False)
        r = mk_recipe(I, steps, results, STAGES['c2p'])
        s = z3.Const('s', Sub)
        I.assume(kind(s) == 1)
        I.assume(mw(s) > 0)
        I.assume(steps[0].su.mem[s])
        out = vc.call(I, 'Recipe.get_substance_used', [r, SubV(s), 'all', 'umol', 'plates'])
        if out.kind != 'return':
            return out
        A0, A1 = chain['A']
        I.oblige('canary[reports-source-loss-as-plate-gain-without-contract]',
                 unrounded(real(out.value)) == A0.fields['contents'].amt[s] - A1.fields['contents'].amt[s], 'canary-false')
        I.oblige('canary[trivial]', True, 'canary-true')
        return out
    for I, out in vc.explore(body, contracts=clib.contracts()):
        res += [x for x in vc.discharge(I, f'{pid}/Recipe.get_substance_used/', 'canary', 15000, ladder=clib.ladder)
                if x['kind'].startswith('canary')]
    return clib.dedupe(res)
