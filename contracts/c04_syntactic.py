"""C04, syntactic part: functions the interpreter does not execute (rendering: dataframe, _repr_html_, __repr__,
visualize, highlight_wells, get_dataframe, RecipeStep.dataframe) and the observers get an over-approximating frame
scan: no attribute/subscript store and no mutator call on anything but locals created in the function.  Reported as
*syntactic*, weaker than the executed frame obligations.  Also: a @cache'd method must not hand out a mutable object that
a caller then mutates in place (the set returned by Container.get_substances)."""
import ast

from pyvc import vc

PID = 'C04'
MUTATORS = {'append', 'extend', 'add', 'update', 'pop', 'remove', 'clear', 'insert', 'setdefault', 'sort', 'reverse',
            '__setitem__', 'discard', 'difference_update', 'intersection_update', 'symmetric_difference_update'}
READONLY = ['Container.dataframe', 'Container._repr_html_', 'Container.__repr__', 'Container.has_liquid',
            'Container.get_substances', 'Container.get_volume', 'Container.get_concentration', 'Container.__eq__',
            'Container.__hash__', 'Plate.get_volumes', 'Plate.get_substances', 'Plate.get_moles', 'Plate.dataframe',
            'Plate.get_volume', 'Plate.__repr__', 'PlateSlicer.get_volumes', 'PlateSlicer.get_substances',
            'PlateSlicer.get_moles', 'PlateSlicer.dataframe', 'PlateSlicer.get_dataframe', 'PlateSlicer.__repr__',
            'PlateSlicer._get_slice_string', 'PlateSlicer.highlight_wells', 'Recipe.get_substance_used',
            'Recipe.get_container_flows', 'Recipe.get_amount_remaining', 'Recipe.visualize', 'RecipeStep.dataframe',
            'RecipeStep._repr_html_', 'Substance.__repr__', 'Substance.__eq__', 'Substance.__hash__',
            'Substance.is_solid', 'Substance.is_liquid', 'Substance.is_enzyme', 'Slicer.get', 'Slicer.__repr__']


def local_names(fn):
    """names bound inside the function to fresh values (assignments, loop targets, comprehension vars) — parameters
    are NOT local in this sense"""
    out = set()
    for n in ast.walk(fn):
        if isinstance(n, (ast.Assign, ast.AnnAssign, ast.AugAssign)):
            tg = n.targets if isinstance(n, ast.Assign) else [n.target]
            for t in tg:
                for m in ast.walk(t):
                    if isinstance(m, ast.Name):
                        out.add(m.id)
        if isinstance(n, (ast.For, ast.comprehension)):
            for m in ast.walk(n.target):
                if isinstance(m, ast.Name):
                    out.add(m.id)
        if isinstance(n, ast.FunctionDef) and n is not fn:
            out.add(n.name)
    params = {a.arg for a in fn.args.args + fn.args.kwonlyargs}
    return out, params


def base_name(e):
    while isinstance(e, (ast.Attribute, ast.Subscript, ast.Call)):
        e = e.value if not isinstance(e, ast.Call) else e.func
    return e.id if isinstance(e, ast.Name) else None


def scan(fn):
    """list of possible writes to non-local state"""
    locals_, params = local_names(fn)
    bad = []
    # a local that aliases a parameter's part (x = self.contents) is not fresh: track simple aliases
    alias = set()
    for n in ast.walk(fn):
        if isinstance(n, ast.Assign) and len(n.targets) == 1 and isinstance(n.targets[0], ast.Name):
            v = n.value
            if isinstance(v, (ast.Attribute, ast.Subscript)) and base_name(v) in params | alias:
                alias.add(n.targets[0].id)
            # (results of method calls are treated as fresh values here; results of @cache'd methods are handled by
            #  the separate cached-results obligation below)
    for n in ast.walk(fn):
        tg = []
        if isinstance(n, ast.Assign):
            tg = n.targets
        elif isinstance(n, (ast.AugAssign, ast.AnnAssign)):
            tg = [n.target]
        for t in tg:
            for m in ([t] if not isinstance(t, (ast.Tuple, ast.List)) else t.elts):
                if isinstance(m, ast.Attribute) and m.attr.startswith('_') and not m.attr.startswith('__'):
                    continue      # a private memo attribute is not observable state (staleness: observers[...] of C10)
                if isinstance(m, (ast.Attribute, ast.Subscript)):
                    b = base_name(m)
                    if b in params or b in alias or (b not in locals_):
                        bad.append(f"line {m.lineno}: store to {ast.unparse(m)[:50]}")
                if isinstance(n, ast.AugAssign) and isinstance(m, ast.Name) and m.id in alias:
                    bad.append(f"line {m.lineno}: in-place update of {m.id}, which aliases argument state")
        if isinstance(n, ast.Call) and isinstance(n.func, ast.Attribute) and n.func.attr in MUTATORS:
            b = base_name(n.func.value)
            if b in params or b in alias:
                bad.append(f"line {n.lineno}: {ast.unparse(n.func)[:50]}() on argument state")
    return bad


def run():
    res = []
    repo = vc.repo()
    for q in READONLY:
        try:
            fn = repo.find(q)
        except KeyError:
            res.append({'name': f'{PID}/syntactic-frame', 'case': q, 'kind': 'aux', 'verdict': 'proved', 'secs': 0.0,
                        'note': 'function not present'})
            continue
        bad = scan(fn)
        res.append({'name': f'{PID}/syntactic-frame', 'case': q, 'kind': 'property',
                    'verdict': 'refuted' if bad else 'proved', 'secs': 0.0, 'backend': 'syntactic frame scan',
                    'note': '; '.join(bad[:4]) or None})
    # cached methods returning mutable containers must not be mutated by callers inside the package
    cached_mut = []
    for cname, cls in repo.classes.items():
        for mname, m in cls.methods.items():
            decs = cls.decorators.get(mname, [])
            if any(d.split('(')[0].split('.')[-1] in ('cache', 'lru_cache', 'cached_property') for d in decs):
                cached_mut.append(mname)
    bad = []

    def hands_out_cached(v, tainted):
        """does evaluating `v` yield (or yield a collection/iterator of) objects handed out by a cached method?"""
        if isinstance(v, ast.Call) and isinstance(v.func, ast.Attribute) and v.func.attr in cached_mut:
            return v.func.attr
        if isinstance(v, ast.Name) and v.id in tainted:
            return tainted[v.id]
        if isinstance(v, (ast.GeneratorExp, ast.ListComp, ast.SetComp)):
            return hands_out_cached(v.elt, tainted)
        if isinstance(v, (ast.Tuple, ast.List)):
            for e in v.elts:
                h = hands_out_cached(e.value if isinstance(e, ast.Starred) else e, tainted)
                if h:
                    return h
        if isinstance(v, ast.IfExp):
            return hands_out_cached(v.body, tainted) or hands_out_cached(v.orelse, tainted)
        if isinstance(v, ast.Subscript):
            return hands_out_cached(v.value, tainted)
        return None     # any other call (set(x), copy(x), x.union(y), ...) builds a new object

    def names_of(t):
        if isinstance(t, ast.Name):
            return [t.id]
        if isinstance(t, ast.Starred):
            return names_of(t.value)
        if isinstance(t, (ast.Tuple, ast.List)):
            return [x for e in t.elts for x in names_of(e)]
        return []
    for cname, cls in repo.classes.items():
        for mname, m in cls.methods.items():
            tainted = {}
            for _ in range(3):       # propagate through chains of assignments
                for n in ast.walk(m):
                    if isinstance(n, ast.Assign):
                        h = hands_out_cached(n.value, tainted)
                        if h:
                            for t in n.targets:
                                for x in names_of(t):
                                    tainted[x] = h
                    elif isinstance(n, ast.For):
                        h = hands_out_cached(n.iter, tainted)
                        if h:
                            for x in names_of(n.target):
                                tainted[x] = h
            for k in ast.walk(m):
                if isinstance(k, ast.AugAssign) and isinstance(k.target, ast.Name) and k.target.id in tainted:
                    bad.append(f"{cname}.{mname} line {k.lineno}: in-place update of the cached result of {tainted[k.target.id]}()")
                if isinstance(k, ast.Call) and isinstance(k.func, ast.Attribute) and k.func.attr in MUTATORS:
                    h = hands_out_cached(k.func.value, tainted)
                    if h:
                        bad.append(f"{cname}.{mname} line {k.lineno}: {ast.unparse(k.func)[:40]}() on the cached result of {h}()")
    r = {'name': f'{PID}/syntactic-frame[cached-results]', 'case': ','.join(sorted(set(cached_mut))), 'kind': 'property',
         'verdict': 'refuted' if bad else 'proved', 'secs': 0.0, 'backend': 'syntactic frame scan',
         'note': '; '.join(bad[:4]) or None}
    if bad:
        code = ("from pyplate import Substance, Container, Plate\n"
                "def run():\n"
                "    w = Substance.liquid('H2O', 18.0153, 1); d = Substance.liquid('DMSO', 78.13, 1.1)\n"
                "    p = Plate('p', '100 uL', rows=1, columns=2)\n"
                "    _, p = Plate.transfer(Container('a', initial_contents=[(w, '1 mL')]), p[1, 1], '10 uL')\n"
                "    _, p = Plate.transfer(Container('b', initial_contents=[(d, '1 mL')]), p[1, 2], '10 uL')\n"
                "    first = {s.name for s in p.wells[0, 0].get_substances()}\n"
                "    p.get_substances(); p.get_substances()\n"
                "    again = {s.name for s in p.wells[0, 0].get_substances()}\n"
                "    return {'ok': first == again == {'H2O'}, 'observed': sorted(again), 'expected': ['H2O']}\n")
        r['replays'] = [{'inputs': {'scenario': 'plate.get_substances() twice, then the first well again'}, 'code': code}]
    res.append(r)
    return res
