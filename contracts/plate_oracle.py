"""Replay side of the plate-level contracts: runs the scenario of a refuted obligation on the real package and judges
it by the property statements (C01 conservation, C07 well-by-well equivalence and locality, C04 immutability)."""
from pyplate import Substance, Container, Plate

from contracts.c13_spec import select
from contracts.container_oracle import close

water = Substance.liquid('water', 18.0153, 1)
salt = Substance.solid('salt', 58.44)
dmso = Substance.liquid('dmso', 78.13, 1.1)

GEOMS = {
    'plate': 'PLATE', 'all': slice(None), 'row1': 1, 'rowB': 'B', 'single': 'A:2', 'single-t': (2, 3),
    'rect': (slice(1, 2), slice(2, 3)), 'col2': (slice(None), 2), 'stepped': (slice(None), slice(1, None, 2)),
    'list2': ['A:1', 'B:3'], 'list1': [(1, 2)], 'listdup': ['A:1', 'B:3', 'A:1'],
    'rows12': slice(1, 2), 'rows23': slice(2, 3), 'row3': 3,
}


def mk_plate(name, base, rows=2):
    p = Plate(name, '500 uL', rows=rows, columns=3)
    k = 0
    for r in range(1, rows + 1):
        for c in (1, 2, 3):
            k += 1
            src = Container('stock', initial_contents=[(water, f'{base + 10 * k} uL'), (salt, f'{k} umol'), (dmso, f'{3 * k} uL')])
            _, p = Plate.transfer(src, p[r, c], f'{base + 10 * k} uL')
    return p


def wells(p):
    return [[{s.name: v for s, v in w.contents.items()} for w in row] for row in p.wells]


def wells_text(p):
    return [[w.instructions for w in row] for row in p.wells]


def totals(objs):
    t = {}
    for o in objs:
        ws = [o] if isinstance(o, Container) else list(o.wells.flatten())
        for w in ws:
            for s, v in w.contents.items():
                t[s.name] = t.get(s.name, 0) + v
    return t


def same(a, b):
    return set(a) == set(b) and all(close(a[k], b[k], 1e-7, 1e-6) for k in a)


def sel(p, g):
    """the operand the caller hands in; a slice has already been looked at by the caller (shape, contents), as in the
    contract-side scenario"""
    item = GEOMS[g]
    if item == 'PLATE':
        return p
    s = p[item]
    s.get()
    s.shape
    s.size
    return s


def cells(p, g):
    item = GEOMS[g]
    return select(slice(None) if item == 'PLATE' else item, p.row_names, p.column_names)


def shape(p, g):
    cs = cells(p, g)
    if isinstance(GEOMS[g], list):
        return cs, (len(cs),)
    return cs, (len({r for r, c in cs}), len({c for r, c in cs}))


def replay_transfer(mode, ga, gb):
    P1 = mk_plate('P1', 100, 3 if mode == 'same' else 2)
    fails = []
    q = '7 uL'
    before = {'P1': wells(P1)}
    if mode in ('c2p', 'p2c'):
        C = Container('C', '5 mL', [(water, '1 mL'), (salt, '20 umol')])
        cb = {s.name: v for s, v in C.contents.items()}
        tot0 = totals([C, P1])
        try:
            if mode == 'c2p':
                C2, R1 = Plate.transfer(C, sel(P1, ga), q)
            else:
                R1, C2 = Container.transfer(sel(P1, ga), C, q)
        except Exception as e:
            return {'ok': False, 'observed': repr(e), 'expected': 'a documented source/destination kind is accepted'}
        if wells(P1) != before['P1'] or {s.name: v for s, v in C.contents.items()} != cb:
            fails.append('argument modified')
        if not same(tot0, totals([C2, R1])):
            fails.append(f'not conserved: {tot0} -> {totals([C2, R1])}')
        # well-by-well reference
        ref_c, ref = C, [[w for w in row] for row in P1.wells]
        for r, c in cells(P1, ga):
            if mode == 'c2p':
                ref_c, ref[r][c] = Container.transfer(ref_c, ref[r][c], q)
            else:
                ref[r][c], ref_c = Container.transfer(ref[r][c], ref_c, q)
        for r in range(2):
            for c in range(3):
                if not same({s.name: v for s, v in ref[r][c].contents.items()}, wells(R1)[r][c]):
                    fails.append(f'well [{r},{c}] differs from the stand-alone operation')
        if not same({s.name: v for s, v in ref_c.contents.items()}, {s.name: v for s, v in C2.contents.items()}):
            fails.append('container differs from the well-by-well reference')
        return {'ok': not fails, 'observed': fails[:4] or 'as the well-by-well reference', 'expected': 'well-by-well'}
    P2 = mk_plate('P2' if mode == 'p2p' else 'P1', 200) if mode in ('p2p', 'p2p-samename') else P1
    before['P2'] = wells(P2)
    (sc, ss), (dc, ds) = shape(P1, ga), shape(P2, gb)
    if len(sc) == 1:
        pairs = [(0, j) for j in range(len(dc))]
    elif len(dc) == 1:
        pairs = [(i, 0) for i in range(len(sc))]
    elif ss == ds:
        pairs = [(i, i) for i in range(len(sc))]
    else:
        pairs = None
    two = mode in ('p2p', 'p2p-samename')
    tot0 = totals([P1, P2] if two else [P1])
    try:
        R1, R2 = Plate.transfer(sel(P1, ga), sel(P2, gb), q)
    except ValueError as e:
        return {'ok': pairs is None, 'observed': f'ValueError: {e}', 'expected': 'rejected' if pairs is None else 'accepted'}
    except Exception as e:
        return {'ok': False, 'observed': repr(e), 'expected': 'rejected with ValueError' if pairs is None else 'accepted'}
    if pairs is None:
        return {'ok': False, 'observed': 'accepted', 'expected': 'shapes that cannot be paired are rejected'}
    nrows = len(P1.row_names)
    if wells(P1) != before['P1'] or wells(P2) != before['P2']:
        fails.append('argument modified')
    # every well keeps its own preparation text (C19): the result's instructions extend the original's
    for tag, P, R in (('source plate', P1, R1), ('destination plate', P2, R2)):
        for r in range(len(P.row_names)):
            for c in range(3):
                if not R.wells[r, c].instructions.startswith(P.wells[r, c].instructions):
                    fails.append(f'{tag} well [{r},{c}]: instructions {R.wells[r, c].instructions!r} do not continue '
                                 f'its own text {P.wells[r, c].instructions!r}')
    tot1 = totals([R1, R2] if two else [R1])
    if not same(tot0, tot1):
        fails.append(f'not conserved: {tot0} -> {tot1}')
    if two:
        ref1 = [[w for w in row] for row in P1.wells]
        ref2 = [[w for w in row] for row in P2.wells]
        for i, j in pairs:
            (r1, c1), (r2, c2) = sc[i], dc[j]
            ref1[r1][c1], ref2[r2][c2] = Container.transfer(ref1[r1][c1], ref2[r2][c2], q)
        for r in range(nrows):
            for c in range(3):
                if not same({s.name: v for s, v in ref1[r][c].contents.items()}, wells(R1)[r][c]):
                    fails.append(f'source plate well [{r},{c}] differs from the stand-alone operation')
                if not same({s.name: v for s, v in ref2[r][c].contents.items()}, wells(R2)[r][c]):
                    fails.append(f'destination plate well [{r},{c}] differs from the stand-alone operation')
    return {'ok': not fails, 'observed': fails[:4] or 'as the well-by-well reference', 'expected': 'well-by-well, conserved'}


def replay_unary(op, g, via):
    P1 = mk_plate('P1', 100)
    before = wells(P1)
    target = sel(P1, g)
    fails = []
    try:
        R = target.remove(water) if op == 'remove' else target.fill_to(water, '400 uL')
    except Exception as e:
        return {'ok': False, 'observed': repr(e), 'expected': 'accepted'}
    if wells(P1) != before:
        fails.append('argument plate modified')
    if hasattr(target, 'plate') and target.plate is not P1:
        fails.append('the slice object handed in was re-pointed to another plate')
    cs = cells(P1, g)
    for r in range(2):
        for c in range(3):
            if not wells_text(R)[r][c].startswith(P1.wells[r, c].instructions):
                fails.append(f'well [{r},{c}]: instructions do not continue its own text')
            w = P1.wells[r, c]
            exp = (w.remove(water) if op == 'remove' else w.fill_to(water, '400 uL')) if (r, c) in cs else w
            if not same({s.name: v for s, v in exp.contents.items()}, wells(R)[r][c]):
                fails.append(f'well [{r},{c}] differs from the stand-alone operation')
    return {'ok': not fails, 'observed': fails[:4] or 'as the well-by-well reference', 'expected': 'well-by-well'}
