"""C09 / C15 = bookkeeping obligations of bake (contracts/bake.py) + the tracker contracts (contracts/trackers.py)."""
from contracts import bake, trackers

FUNCTIONS = {p: bake.FUNCTIONS['C08'] + trackers.FUNCTIONS['C09'] for p in ('C09', 'C15')}


def tasks(tier, pid):
    t = [('bake',) + x for x in bake.tasks(tier, pid) if x[0] in ('step', 'canaries')]
    t += [('tracker',) + x for x in trackers.tasks(tier, pid) if x[0] != 'canaries']
    t.append(('tracker', 'canaries'))
    from contracts import propsets
    t += propsets.unit_contract_tasks(tier, pid)      # the trackers convert through Unit.convert's specification
    return t


def run(pid, which, *args):
    if which == 'bake':
        return bake.run(pid, *args)
    if which == 'unit_contract':
        from contracts import propsets
        return propsets.run_unit_contract(pid, *args)
    return trackers.run(pid, *args)
