"""The documented grammar of quantity and concentration strings, written from
docs/source/users_guide/units_and_concentrations.rst and the property text — not from the parser.
Pure Python (no z3): used by replay jobs and by the bounded rejection check under the repository's interpreter.

quantity       ::= number ' ' prefix base            base in {mol, g, L}  |  number ' U'  |  number ' ' prefix 'M'
concentration  ::= number ' ' prefix 'M'             (molar,  mol/L)
                 | number ' ' prefix 'm'             (molal,  mol/kg)
                 | number ' ' unit '/' [number ' '] unit      unit ::= prefix base, base in {mol, g, L, U}
                 | number ' ' ('%w/w' | '%v/v' | '%w/v')     (parts per hundred; %w/v in default_weight_volume_units)
number         ::= any text float() accepts
Blanks: tokens are separated by blanks; extra blanks between tokens and around '/' do not change the meaning.
"""
import math
from fractions import Fraction as F

SI = {'n': F(1, 10 ** 9), 'u': F(1, 10 ** 6), 'µ': F(1, 10 ** 6), 'm': F(1, 1000), 'c': F(1, 100), 'd': F(1, 10),
      '': F(1), 'da': F(10), 'k': F(1000), 'M': F(10 ** 6)}


def number(tok):
    try:
        f = float(tok)
    except ValueError:
        return None
    if tok != tok.strip():
        return None
    if math.isinf(f) or math.isnan(f):
        return f
    try:
        return F(tok.lower().replace('_', ''))
    except (ValueError, ZeroDivisionError):
        return F(repr(f))


def unit(tok, bases=('mol', 'g', 'L', 'U')):
    for b in bases:
        if tok.endswith(b) and tok[:-len(b)] in SI:
            return SI[tok[:-len(b)]], b
    return None


def quantity_denotation(text):
    toks = text.split(' ')
    if len(toks) != 2:
        return None
    v = number(toks[0])
    if v is None:
        return None
    if toks[1] == 'U':
        return v, 'U'
    u = unit(toks[1], ('mol', 'g', 'L', 'M'))
    if u is None:
        return None
    return v * u[0], u[1]


def concentration_denotation(text, wv='g/mL'):
    if text.count('/') == 0 or text.split()[-1:] and text.split()[-1] in ('%w/w', '%v/v', '%w/v'):
        toks = text.split()
        if len(toks) != 2:
            return None
        v = number(toks[0])
        if v is None:
            return None
        t = toks[1]
        if t in ('%w/w', '%v/v', '%w/v'):
            if text != text.rstrip():
                return None
            if t == '%w/w':
                return v / 100, 'g', 'g'
            if t == '%v/v':
                return v / 100, 'L', 'L'
            n, d = wv.split('/')
            un, ud = unit(n), unit(d)
            return v / 100 * un[0] / ud[0], un[1], ud[1]
        if text != text.rstrip():
            return None       # the shorthand letter must end the string
        if t.endswith('M') and t[:-1] in SI:
            return v * SI[t[:-1]], 'mol', 'L'
        if t.endswith('m') and t[:-1] in SI:
            return v * SI[t[:-1]] / 1000, 'mol', 'g'
        return None
    if text.count('/') != 1:
        return None
    left, right = text.split('/')
    lt, rt = left.split(), right.split()
    if len(lt) != 2 or len(rt) not in (1, 2):
        return None
    v = number(lt[0])
    un = unit(lt[1])
    if v is None or un is None:
        return None
    w = F(1)
    if len(rt) == 2:
        w = number(rt[0])
        if w is None or w == 0:
            return None
    ud = unit(rt[-1])
    if ud is None:
        return None
    if isinstance(v, float) or isinstance(w, float):
        return None
    return v * un[0] / (w * ud[0]), un[1], ud[1]


def classify(text):
    """Coarse class of a malformed concentration string (used to identify findings by input class)."""
    if text.count('/') == 1:
        left, right = text.split('/')
        lt, rt = left.split(), right.split()
        if len(lt) > 2 and len(rt) in (1, 2):
            return 'numerator-trailing-tokens'
        if len(lt) == 2 and len(rt) > 2:
            return 'denominator-trailing-tokens'
        if len(lt) > 2 and len(rt) > 2:
            return 'both-sides-trailing-tokens'
        return 'malformed-ratio'
    if text.count('/') == 0:
        if len(text.split()) > 2:
            return 'shorthand-trailing-tokens'
        return 'malformed-shorthand'
    if text.split() and text.split()[-1] in ('%w/w', '%v/v', '%w/v') or '%' in text:
        return 'malformed-percent'
    return 'several-slashes'
