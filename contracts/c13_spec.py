"""Documented addressing of wells (docs/source/users_guide/locations.rst, Slicer class docstring, property C13),
as a pure-Python reference: selector -> list of 0-based (row, col) in selection order, or None = must be rejected.
No z3 here: also used by replay jobs under the repository's interpreter."""


def resolve(x, labels):
    """1-based integer index or label -> 0-based index, None if out of range / unknown / wrong type."""
    if isinstance(x, bool):
        return None
    if isinstance(x, int):
        return x - 1 if 1 <= x <= len(labels) else None
    if isinstance(x, str):
        return labels.index(x) if x in labels else None
    return None


def axis(sel, labels):
    """Selection along one axis: int/label -> one index; slice -> inclusive 1-based range with positive step."""
    n = len(labels)
    if isinstance(sel, slice):
        a, b, k = sel.start, sel.stop, sel.step
        if k is None:
            k = 1
        if isinstance(k, bool) or not isinstance(k, int) or k < 1:
            return None
        lo = 0 if a is None else resolve(a, labels)
        hi = n - 1 if b is None else resolve(b, labels)
        if lo is None or hi is None:
            return None
        return list(range(lo, hi + 1, k))
    i = resolve(sel, labels)
    return None if i is None else [i]


def single(elem, rows, cols):
    if isinstance(elem, str) and ':' in elem:
        parts = elem.split(':')
        if len(parts) != 2:
            return None
        elem = tuple(parts)
    if isinstance(elem, tuple) and len(elem) == 2 and not any(isinstance(e, slice) for e in elem):
        r, c = resolve(elem[0], rows), resolve(elem[1], cols)
        if r is None or c is None:
            return None
        return (r, c)
    return None


def select(item, rows, cols):
    """wells addressed by plate[item], row-major (lists: in the order given); None = rejected."""
    if isinstance(item, list):
        out = []
        for e in item:
            s = single(e, rows, cols)
            if s is None:
                return None
            out.append(s)
        return out
    if isinstance(item, str) and ':' in item:
        s = single(item, rows, cols)
        return None if s is None else [s]
    if isinstance(item, tuple):
        if len(item) != 2:
            return None
        rs, cs = axis(item[0], rows), axis(item[1], cols)
    else:
        rs, cs = axis(item, rows), list(range(len(cols)))
    if rs is None or cs is None:
        return None
    return [(r, c) for r in rs for c in cs]
