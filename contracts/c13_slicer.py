"""C13 — Every documented way of addressing wells selects the documented wells.

Functions under contract: Slicer.__init__, parse_single, parse_tuple, parse_slice, resolve_labels, get,
PlateSlicer.__init__, Plate.__getitem__, Plate.__init__.
Plate shape (R, C >= 1), every integer inside a selector and every label are symbolic; labels are an abstract
injective list.  The postcondition is `self.slices == documented 0-based slices` (or rejection), proved per selector
form; numpy basic slicing (T3) then gives "exactly those wells, row-major".
"""
import itertools
import json

import z3

from pyvc import vc, harness
from pyvc.values import *   # noqa: F401,F403
from pyvc.symcoll import LabelList, label_str
from pyvc.npmodel import GridArr

PID = 'C13'
FUNCTIONS = ['Slicer.__init__', 'Slicer.parse_single', 'Slicer.parse_tuple', 'Slicer.parse_slice',
             'Slicer.resolve_labels', 'Slicer.get', 'PlateSlicer.__init__', 'Plate.__getitem__', 'Plate.__init__']
TIMEOUT = 20000
ASSUMPTIONS = ["labels contain no ':' (the documented 'row:col' string form could not address them otherwise)",
               "T3 numpy basic slicing a[sr, sc] selects range(*sr.indices(R)) x range(*sc.indices(C)) in row-major order",
               "slice steps are positive integers or None (the property says 'a positive step')"]
EXPLANATION = ("proof over symbolic plate sizes, labelings and selector contents for every selector form; default "
               "labels / well names bounded (Plate.__init__ executed for shapes up to the stated bound)")

END_KINDS = ('none', 'int', 'label')


# ------------------------------------------------------------------------------------------------ templates
class Ctx:
    """Symbolic inputs of one case: builds the selector value, its documented meaning, and a replay literal."""

    def __init__(self, I):
        self.I = I
        self.rows = LabelList(I, 'r')
        self.cols = LabelList(I, 'c')
        self.grid = GridArr(self.rows.n, self.cols.n)
        self.vars = {}     # name -> term (for models)
        self.n = 0

    def fresh_int(self, hint):
        self.n += 1
        v = z3.Int(f'{hint}{self.n}')
        self.vars[str(v)] = v
        return v

    def fresh_label(self, hint, labels):
        self.n += 1
        t = z3.Const(f'{hint}{self.n}', Name)
        self.vars[f'pos:{hint}{self.n}'] = labels.pos(t)
        return t

    # element on an axis: returns (value, valid, idx, replay)
    def elem(self, kind, labels, axis):
        if kind == 'int':
            v = self.fresh_int('i')
            return v, z3.And(v >= 1, v <= labels.n), v - 1, ('int', str(v))
        t = self.fresh_label('l', labels)
        p = labels.pos(t)
        return label_str(t), z3.And(p >= 0, p < labels.n), p, ('label', f'pos:{t}', axis)

    def slice_(self, sk, ek, stepk, labels, axis):
        """slice with start/stop of the given kinds -> (SliceV, valid, expected SliceV, replay)"""
        valid = []
        s = e = k = None
        es = ee = None
        rs = re_ = None
        if sk != 'none':
            s, v, idx, rs = self.elem(sk, labels, axis)
            valid.append(v)
            es = idx
        if ek != 'none':
            e, v, idx, re_ = self.elem(ek, labels, axis)
            valid.append(v)
            ee = idx + 1
        rk = None
        if stepk == 'int':
            k = self.fresh_int('k')
            self.I.assume(k >= 1)
            rk = ('int', str(k))
        return (SliceV(s, e, k), z3.And(*valid) if valid else True, SliceV(es, ee, k), ('slice', rs, re_, rk))


def sl1(idx):
    return SliceV(idx, idx + 1, None)


ALL = SliceV(None, None, None)


def build(cx, tmpl):
    """tmpl -> (item value, valid (z3/bool), expected slices, replay template)"""
    kind = tmpl[0]
    if kind == 'row':                       # plate[i] / plate['A']
        v, ok, idx, rp = cx.elem(tmpl[1], cx.rows, 'r')
        return v, ok, (sl1(idx), ALL), rp
    if kind == 'pairstr':                   # 'A:1'
        a = cx.fresh_label('l', cx.rows)
        b = cx.fresh_label('l', cx.cols)
        pa, pb = cx.rows.pos(a), cx.cols.pos(b)
        ok = z3.And(pa >= 0, pa < cx.rows.n, pb >= 0, pb < cx.cols.n)
        return (SegStr([LabelHole(a), ':', LabelHole(b)]), ok, (sl1(pa), sl1(pb)),
                ('pairstr', f'pos:{a}', f'pos:{b}'))
    if kind == 'tuple':                     # (x, y)
        x, okx, ix, rx = cx.elem(tmpl[1], cx.rows, 'r')
        y, oky, iy, ry = cx.elem(tmpl[2], cx.cols, 'c')
        return (x, y), z3.And(okx, oky), (sl1(ix), sl1(iy)), ('tuple', rx, ry)
    if kind == 'slice':                     # plate[a:b:k]
        s, ok, exp, rp = cx.slice_(tmpl[1], tmpl[2], tmpl[3], cx.rows, 'r')
        return s, ok, (exp, ALL), rp
    if kind == 'slice2':                    # plate[a:b:k, c:d:m]
        s1, ok1, e1, r1 = cx.slice_(tmpl[1], tmpl[2], tmpl[3], cx.rows, 'r')
        s2, ok2, e2, r2 = cx.slice_(tmpl[4], tmpl[5], tmpl[6], cx.cols, 'c')
        return (s1, s2), z3.And(boolz(ok1), boolz(ok2)), (e1, e2), ('tuple', r1, r2)
    if kind == 'slice_elem':                # plate[a:b:k, y]
        s1, ok1, e1, r1 = cx.slice_(tmpl[1], tmpl[2], tmpl[3], cx.rows, 'r')
        y, oky, iy, ry = cx.elem(tmpl[4], cx.cols, 'c')
        return (s1, y), z3.And(boolz(ok1), oky), (e1, sl1(iy)), ('tuple', r1, ry)
    if kind == 'elem_slice':                # plate[x, c:d:m]
        x, okx, ix, rx = cx.elem(tmpl[1], cx.rows, 'r')
        s2, ok2, e2, r2 = cx.slice_(tmpl[2], tmpl[3], tmpl[4], cx.cols, 'c')
        return (x, s2), z3.And(okx, boolz(ok2)), (sl1(ix), e2), ('tuple', rx, r2)
    if kind == 'list':                      # plate[[e1, e2, ...]]
        items, oks, exps, rps = [], [], [], []
        for t in tmpl[1]:
            v, ok, exp, rp = build(cx, t)
            items.append(v)
            oks.append(boolz(ok))
            exps.append(exp)
            rps.append(rp)
        return items, z3.And(*oks), exps, ('list', rps)
    if kind == 'labelat':                   # interchangeability: the label found at 1-based position i
        i = cx.fresh_int('i')
        if tmpl[1] == 'row':
            cx.I.assume(z3.And(i >= 1, i <= cx.rows.n))
            return cx.rows.sym_getitem(cx.I, i - 1), True, (sl1(i - 1), ALL), ('labelat', str(i), 'r')
        j = cx.fresh_int('i')
        cx.I.assume(z3.And(i >= 1, i <= cx.rows.n, j >= 1, j <= cx.cols.n))
        a = cx.rows.sym_getitem(cx.I, i - 1)
        b = cx.cols.sym_getitem(cx.I, j - 1)
        if tmpl[1] == 'tuple':
            return (a, b), True, (sl1(i - 1), sl1(j - 1)), ('tuple', ('labelat', str(i), 'r'), ('labelat', str(j), 'c'))
        if tmpl[1] == 'mixed':
            return (a, j), True, (sl1(i - 1), sl1(j - 1)), ('tuple', ('labelat', str(i), 'r'), ('int', str(j)))
        if tmpl[1] == 'slice':
            return (SliceV(a, None, None), SliceV(None, b, None)), True, \
                (SliceV(i - 1, None, None), SliceV(None, j, None)), \
                ('tuple', ('slice', ('labelat', str(i), 'r'), None, None), ('slice', None, ('labelat', str(j), 'c'), None))
    if kind == 'junk':
        return tmpl[1], False, None, ('junk', tmpl[2])
    raise ValueError(tmpl)


def templates(tier):
    ts = []
    for k in ('int', 'label'):
        ts.append(('row', k))
    ts.append(('pairstr',))
    for a in ('int', 'label'):
        for b in ('int', 'label'):
            ts.append(('tuple', a, b))
    for sk in END_KINDS:
        for ek in END_KINDS:
            for st in ('none', 'int'):
                ts.append(('slice', sk, ek, st))
                for y in ('int', 'label'):
                    ts.append(('slice_elem', sk, ek, st, y))
                    ts.append(('elem_slice', y, sk, ek, st))
    combos = [(sk, ek, st) for sk in END_KINDS for ek in END_KINDS for st in ('none', 'int')]
    for c1 in combos:
        for c2 in combos:
            ts.append(('slice2',) + c1 + c2)
    singles = [('pairstr',)] + [('tuple', a, b) for a in ('int', 'label') for b in ('int', 'label')]
    for n in (1, 2, 3):
        for combo in itertools.product(singles, repeat=n):
            ts.append(('list', list(combo)))
    for w in ('row', 'tuple', 'mixed', 'slice'):
        ts.append(('labelat', w))
    return ts


def junk_templates():
    from fractions import Fraction
    return [
        ('junk', Fraction(3, 2), '1.5'), ('junk', None, 'None'), ('junk', (1, 2, 3), '(1, 2, 3)'),
        ('junk', (1,), '(1,)'), ('junk', [1], '[1]'), ('junk', ['A'], "['A']"), ('junk', {}, '{}'),
        ('junk', (None, 1), '(None, 1)'), ('junk', (1, None), '(1, None)'),
        ('junk', SliceV(Fraction(3, 2), None, None), 'slice(1.5, None)'),
        ('junk', SliceV(None, Fraction(5, 2), None), 'slice(None, 2.5)'),
        ('junk', SliceV(None, None, Fraction(1, 2)), 'slice(None, None, 0.5)'),
        ('junk', (SliceV(None, None, None), Fraction(1, 2)), '(slice(None), 0.5)'),
        ('junk', [(1, 2, 3)], '[(1, 2, 3)]'), ('junk', [(SliceV(None, None, None), 1)], '[(slice(None), 1)]'),
        ('junk', 0, '0'), ('junk', (0, 1), '(0, 1)'), ('junk', (1, 0), '(1, 0)'), ('junk', -1, '-1'),
        ('junk', SliceV(0, None, None), 'slice(0, None)'), ('junk', SliceV(None, 0, None), 'slice(None, 0)'),
    ]


def tasks(tier):
    ts = templates(tier)
    n = 32
    t = [('templates', i, n) for i in range(n)]
    t.append(('junk',))
    t.append(('get',))
    t.append(('canaries',))
    t.append(('plate_init_bounded', 30 if tier == 'quick' else 120))
    t.append(('native_bounded', 4 if tier == 'quick' else 6))
    return t


def run(kind, *args):
    return globals()['run_' + kind](*args)


def case_name(t):
    return json.dumps(t, default=str).replace('"', '')


# ------------------------------------------------------------------------------------------------ the main obligations
def run_one(tmpl, via_plate=False):
    res = []
    case = case_name(tmpl)
    holder = {}

    def body(I):
        cx = Ctx(I)
        holder['cx'] = cx
        item, valid, expected, rp = build(cx, tmpl)
        holder['rp'] = rp
        I.oblige('cover', True, 'cover')
        if via_plate:
            plate = I.new_obj('Plate', fresh_=False, tag='plate')
            plate.fields.update(name=NameV(z3.Const('pname', Name)), wells=cx.grid, row_names=cx.rows,
                                column_names=cx.cols, n_rows=cx.rows.n, n_columns=cx.cols.n)
            out = vc.call(I, 'Plate.__getitem__', [plate, item])
            getter = lambda: out.value.fields.get('slices')   # noqa: E731
        else:
            o = I.new_obj('Slicer')
            out = vc.call(I, 'Slicer.__init__', [o, cx.grid, cx.rows, cx.cols, item])
            getter = lambda: o.fields.get('slices')   # noqa: E731
        if out.kind == 'return':
            got = getter()
            if expected is None:
                I.oblige('raises[range]', False, 'property', note='malformed selector accepted')
            else:
                eq = I.equals(got, expected)
                I.oblige('ensures[slices]', z3.And(boolz(valid), boolz(eq)), 'property',
                         note=f'slices={got!r} expected={expected!r}')
        else:
            I.oblige('raises[range]', z3.Not(boolz(valid)), 'property',
                     note=f'{out.exc.cls} at line {out.exc.lineno} for a selector inside the plate')
        return out

    for I, out in vc.explore(body, max_paths=3000):
        if isinstance(out, vc.Outcome) and out.kind == 'unsupported':
            res.append(vc.unsupported_result(f'{PID}/Slicer.__init__/ensures[slices]', case, out.note))
            continue
        cx = holder['cx']
        inputs = dict(cx.vars)
        inputs['n_r'] = cx.rows.n
        inputs['n_c'] = cx.cols.n
        rp = holder['rp']

        def replay(mv, ob, rp=rp):
            return make_replay(mv, rp)
        fn = 'Plate.__getitem__' if via_plate else 'Slicer.__init__'
        small = [[cx.rows.n <= k, cx.cols.n <= k] for k in (3, 6, 12, 40)]
        res += vc.discharge(I, f'{PID}/{fn}/', case, TIMEOUT, inputs, replay, prefer=small)
    return res


def run_templates(i, n):
    res = []
    ts = templates('quick')
    for j, t in enumerate(ts):
        if j % n == i:
            res += run_one(t)
            if t[0] in ('row', 'pairstr', 'tuple', 'slice', 'labelat') or (t[0] == 'list' and len(t[1]) == 1):
                res += run_one(t, via_plate=True)
    return res


def run_junk():
    res = []
    for t in junk_templates():
        res += run_one(t)
    return res


# ------------------------------------------------------------------------------------------------ replay
REPLAY_CODE = r'''
import json
from pyplate import Plate
from contracts.c13_spec import select
J = json.loads(%r)
def lit(t, rows, cols):
    k = t[0]
    if k == 'int': return J['vals'][t[1]]
    if k == 'label':
        labels = rows if t[2] == 'r' else cols
        p = J['vals'][t[1]]
        return labels[p] if 0 <= p < len(labels) else 'no-such-label'
    if k == 'labelat':
        labels = rows if t[2] == 'r' else cols
        return labels[J['vals'][t[1]] - 1]
    if k == 'pairstr':
        a = rows[J['vals'][t[1]]] if 0 <= J['vals'][t[1]] < len(rows) else 'nolabel'
        b = cols[J['vals'][t[2]]] if 0 <= J['vals'][t[2]] < len(cols) else 'nolabel'
        return a + ':' + b
    if k == 'tuple': return (lit(t[1], rows, cols), lit(t[2], rows, cols))
    if k == 'slice': return slice(*[None if x is None else lit(x, rows, cols) for x in t[1:4]])
    if k == 'list': return [lit(x, rows, cols) for x in t[1]]
    if k == 'junk': return eval(t[1])
def run():
    R_, C_ = max(1, min(J['n_r'], 40)), max(1, min(J['n_c'], 40))
    plate = Plate('p', '10 uL', rows=R_, columns=C_)
    rows, cols = plate.row_names, plate.column_names
    item = lit(J['tmpl'], rows, cols)
    exp = select(item, rows, cols)
    try:
        got = plate[item].get()
    except Exception as e:
        return {'ok': exp is None, 'observed': repr(e), 'expected': exp, 'item': repr(item), 'shape': [R_, C_]}
    names = [w.name for w in got.flatten()]
    if exp is None:
        return {'ok': False, 'observed': names[:8], 'expected': 'rejected', 'item': repr(item), 'shape': [R_, C_]}
    expn = ['well %%s,%%s' %% (rows[r], cols[c]) for r, c in exp]
    return {'ok': names == expn, 'observed': names[:12], 'expected': expn[:12], 'item': repr(item), 'shape': [R_, C_]}
'''


def make_replay(mv, rp):
    vals = {}
    for k, v in mv.items():
        try:
            vals[k] = int(v)
        except (TypeError, ValueError):
            pass
    n_r, n_c = vals.get('n_r', 1), vals.get('n_c', 1)
    if n_r > 40 or n_c > 40:
        return []
    inputs = {'tmpl': rp, 'vals': vals, 'n_r': n_r, 'n_c': n_c}
    return [{'inputs': inputs, 'code': REPLAY_CODE % json.dumps(inputs)}]


# ------------------------------------------------------------------------------------------------ get()
def run_get():
    """Slicer.get returns array[slices] (the numpy view) — so T3 turns `slices` into the wells."""
    res = []
    for shape in ((3, 4),):
        def body(I):
            cells = [[I.new_obj('Container', fresh_=False, tag=f'w{r},{c}') for c in range(shape[1])]
                     for r in range(shape[0])]
            grid = GridArr.concrete(cells, fresh_=False)
            o = I.new_obj('Slicer')
            o.fields.update(array=grid, slices=(SliceV(1, 3, None), SliceV(0, None, 2)))
            out = vc.call(I, 'Slicer.get', [o])
            ok = out.kind == 'return' and isinstance(out.value, GridArr) and \
                [[c.tag for c in r] for r in out.value.cells] == [['w1,0', 'w1,2'], ['w2,0', 'w2,2']]
            I.oblige('ensures[view]', ok, 'property', note=repr(out))
            o.fields['slices'] = [(SliceV(2, 3, None), SliceV(3, 4, None)), (SliceV(0, 1, None), SliceV(1, 2, None))]
            out = vc.call(I, 'Slicer.get', [o])
            ok = out.kind == 'return' and [c.tag for c in out.value.items] == ['w2,3', 'w0,1']
            I.oblige('ensures[list-order]', ok, 'property', note=repr(out))
            return out
        for I, out in vc.explore(body):
            if isinstance(out, vc.Outcome) and out.kind == 'unsupported':
                res.append(vc.unsupported_result(f'{PID}/Slicer.get/ensures[view]', str(shape), out.note))
                continue
            res += vc.discharge(I, f'{PID}/Slicer.get/', str(shape), TIMEOUT)
    return res


# ------------------------------------------------------------------------------------------------ canaries
def run_canaries():
    res = []

    def body(I):
        cx = Ctx(I)
        i = cx.fresh_int('i')
        o = I.new_obj('Slicer')
        out = vc.call(I, 'Slicer.__init__', [o, cx.grid, cx.rows, cx.cols, i])
        if out.kind == 'return':
            got = o.fields.get('slices')
            I.oblige('canary[zero-based]', boolz(I.equals(got, (SliceV(i, i + 1, None), ALL))), 'canary-false')
            I.oblige('canary[one-based]', boolz(I.equals(got, (SliceV(i - 1, i, None), ALL))), 'canary-true')
        return out
    for I, out in vc.explore(body):
        res += [r for r in vc.discharge(I, f'{PID}/Slicer.__init__/', 'int', TIMEOUT) if r['kind'].startswith('canary')]
    return res


# ------------------------------------------------------------------------------------------------ bounded parts
def spreadsheet_label(i):
    """the i-th default row label (1-based): A..Z, AA, AB, ... — bijective base 26, most significant letter first (the
    convention of 1536-well plates and spreadsheets; what makes label 'AB' and integer 28 interchangeable)"""
    out = ''
    while i > 0:
        i, r = divmod(i - 1, 26)
        out = chr(ord('A') + r) + out
    return out


NATIVE_LABELS = r'''
from pyplate import Plate
from contracts.c13_slicer_labels import spreadsheet_label
def run():
    fails = []
    for R_, C_ in %r:
        p = Plate('p', '10 uL', rows=R_, columns=C_)
        if list(p.row_names) != [spreadsheet_label(i) for i in range(1, R_ + 1)]:
            fails.append('rows of %%dx%%d: %%r' %% (R_, C_, list(p.row_names)[-4:]))
        if list(p.column_names) != [str(i) for i in range(1, C_ + 1)]:
            fails.append('columns of %%dx%%d: %%r' %% (R_, C_, list(p.column_names)[-4:]))
        for r in range(R_):
            for c in range(C_):
                if p.wells[r, c].name != 'well %%s,%%s' %% (p.row_names[r], p.column_names[c]):
                    fails.append('well name %%r at %%d,%%d' %% (p.wells[r, c].name, r, c))
    return {'ok': not fails, 'observed': fails[:3] or 'documented labels', 'expected': 'A..Z, AA, AB, ... / 1, 2, ...'}
'''


def run_plate_init_bounded(nmax):
    """Bounded: Plate.__init__ executed (in the interpreter, on the real AST) for plate shapes up to nmax rows/columns:
    default labels are distinct, non-blank, 'A'.. / '1'..; wells[r,c].name == 'well <row>,<col>'."""
    res = []
    bound = f"rows, columns <= {nmax} (default labels); custom labels of 3 rows x 2 columns"
    shapes = [(1, 1), (2, 3), (nmax, 2), (3, nmax), (27, 1), (26, 1)]
    for (R, C) in shapes:
        def body(I):
            p = I.new_obj('Plate')
            out = vc.call(I, 'Plate.__init__', [p, 'p', '10 uL'], {'rows': R, 'columns': C})
            if out.kind != 'return':
                return ('fail', f'{out.exc.cls} line {out.exc.lineno}')
            rn, cn = p.fields['row_names'], p.fields['column_names']
            if len(rn) != R or len(cn) != C or len(set(rn)) != R or len(set(cn)) != C:
                return ('fail', 'labels not distinct / wrong count')
            if cn != [str(i + 1) for i in range(C)]:
                return ('fail', f'column labels {cn[:5]}')
            if rn != [spreadsheet_label(i) for i in range(1, R + 1)] or any(not x.strip() for x in rn):
                return ('fail', f'row labels {rn[:3]} .. {rn[-3:]}')
            w = p.fields['wells']
            for r in range(R):
                for c in range(C):
                    nm = w.cells[r][c].fields['name']
                    if nm != f"well {rn[r]},{cn[c]}":
                        return ('fail', f'well name {nm!r} at {r},{c}')
            return ('ok', None)
        for I, out in vc.explore(body, max_paths=50):
            if isinstance(out, vc.Outcome):
                v, note = ('unknown', out.note) if out.kind == 'unsupported' else ('unknown', repr(out))
            else:
                v, note = ('proved' if out[0] == 'ok' else 'refuted'), out[1]
            res.append({'name': f'{PID}/Plate.__init__/bounded[labels,wells]', 'case': f'{R}x{C}', 'kind': 'bounded',
                        'verdict': v, 'note': note, 'count': 1, 'bound': bound, 'secs': 0.0})
    if any(r['verdict'] == 'unknown' for r in res):
        # the constructor uses something the engine cannot follow: the same shapes are constructed natively (refutation only)
        from pyvc import harness
        job = {'inputs': {'shapes': shapes}, 'code': NATIVE_LABELS % (shapes,)}
        out = harness.run_replay(job)
        if out.get('ok') is False:
            res.append({'name': f'{PID}/Plate.__init__/bounded[labels,wells]', 'case': 'native', 'kind': 'bounded', 'verdict': 'refuted',
                        'note': str(out.get('observed'))[:300], 'count': 1, 'bound': bound, 'secs': 0.0, 'replays': [job]})
    # custom labels: duplicates / blanks / empty are refused, good ones are kept
    for rows, cols, good in ([['x', 'y', 'z'], ['1', 'b'], True], [['x', 'x'], ['1'], False], [['x', ' '], ['1'], False],
                             [[], ['1'], False], [['x'], ['a', 'a'], False], [['x'], [''], False]):
        def body(I, rows=rows, cols=cols):
            p = I.new_obj('Plate')
            out = vc.call(I, 'Plate.__init__', [p, 'p', '10 uL'], {'rows': list(rows), 'columns': list(cols)})
            if out.kind != 'return':
                return ('raise', out.exc.cls)
            return ('ok', (p.fields['row_names'], p.fields['column_names']))
        for I, out in vc.explore(body, max_paths=50):
            if isinstance(out, vc.Outcome):
                v, note = 'unknown', out.note
            elif good:
                v = 'proved' if out == ('ok', (rows, cols)) else 'refuted'
                note = repr(out)
            else:
                v = 'proved' if out[0] == 'raise' else 'refuted'
                note = repr(out)
            res.append({'name': f'{PID}/Plate.__init__/bounded[custom-labels]', 'case': f'{rows}x{cols}',
                        'kind': 'bounded', 'verdict': v, 'note': note, 'count': 1, 'bound': bound, 'secs': 0.0})
    return res


NATIVE_CODE = r'''
import itertools, json
from pyplate import Plate
from contracts.c13_spec import select
N = %d
def run():
    fails = []; count = 0
    for R_ in range(1, N + 1):
        for C_ in range(1, N + 1):
            for custom in (False, True):
                if custom:
                    plate = Plate('p', '10 uL', rows=['r%%d' %% (R_ - i) for i in range(R_)], columns=['%%d' %% (C_ - i) for i in range(C_)])
                else:
                    plate = Plate('p', '10 uL', rows=R_, columns=C_)
                rows, cols = plate.row_names, plate.column_names
                ends_r = [None] + list(range(0, R_ + 2)) + rows[:] + ['zz']
                ends_c = [None] + list(range(0, C_ + 2)) + cols[:] + ['zz']
                elems_r = list(range(0, R_ + 2)) + rows + ['zz']
                elems_c = list(range(0, C_ + 2)) + cols + ['zz']
                items = list(elems_r)
                items += [(a, b) for a in elems_r for b in elems_c]
                items += ['%%s:%%s' %% (a, b) for a in rows + ['zz'] for b in cols + ['zz']]
                sl_r = [slice(a, b, k) for a in ends_r for b in ends_r for k in (None, 1, 2)]
                sl_c = [slice(a, b, k) for a in ends_c for b in ends_c for k in (None, 2)]
                items += sl_r
                items += [(s, c) for s in sl_r[::3] for c in elems_c]
                items += [(r, s) for r in elems_r for s in sl_c[::2]]
                if R_ <= 3 and C_ <= 3:
                    items += [(s1, s2) for s1 in sl_r for s2 in sl_c]
                else:
                    items += [(s1, s2) for s1 in sl_r[::5] for s2 in sl_c[::3]]
                singles = [(a, b) for a in elems_r[1:3] + rows[:1] for b in elems_c[1:3] + cols[:1]] + ['%%s:%%s' %% (rows[0], cols[-1])]
                items += [[x] for x in singles] + [[x, y] for x in singles for y in singles][:80]
                for item in items:
                    count += 1
                    exp = select(item, rows, cols)
                    try:
                        got = [w.name for w in plate[item].get().flatten()]
                    except Exception as e:
                        if exp is not None:
                            fails.append({'item': repr(item), 'shape': [R_, C_], 'custom': custom, 'observed': repr(e), 'expected': exp[:6]})
                        continue
                    expn = None if exp is None else ['well %%s,%%s' %% (rows[r], cols[c]) for r, c in exp]
                    if got != expn:
                        fails.append({'item': repr(item), 'shape': [R_, C_], 'custom': custom, 'observed': got[:6], 'expected': expn and expn[:6]})
    return {'ok': True, 'count': count, 'nfail': len(fails), 'failures': fails[:20]}
'''


def run_native_bounded(n):
    """Bounded cross-check on the real package: every documented selector over plates up to n x n (default and
    custom labels) against the pure-Python reference of the documentation."""
    out = harness.run_replay({'inputs': {'n': n}, 'code': NATIVE_CODE % n}, timeout=3000)
    bound = f"complete enumeration of selectors (ints 0..n+1, labels, 'a:b', tuples, slices with step None/1/2, lists <= 2) for plates up to {n}x{n}"
    name = f'{PID}/plate[selector].get()/bounded[enumeration]'
    if out.get('ok') is None:
        return [{'name': name, 'case': f'n<={n}', 'kind': 'bounded', 'verdict': 'unknown',
                 'note': str(out.get('error'))[-400:], 'count': 0, 'bound': bound, 'secs': 0.0}]
    res = [{'name': name, 'case': f'n<={n}', 'kind': 'bounded', 'verdict': 'proved',
            'count': out['count'] - out['nfail'], 'bound': bound, 'secs': 0.0}]
    for f in out['failures'][:3]:
        code = ("from pyplate import Plate\nfrom contracts.c13_spec import select\n"
                f"def run():\n    R_, C_ = {f['shape']!r}\n"
                + ("    plate = Plate('p', '10 uL', rows=['r%d' % (R_ - i) for i in range(R_)], columns=['%d' % (C_ - i) for i in range(C_)])\n"
                   if f['custom'] else "    plate = Plate('p', '10 uL', rows=R_, columns=C_)\n") +
                f"    item = {f['item']}\n    rows, cols = plate.row_names, plate.column_names\n"
                "    exp = select(item, rows, cols)\n"
                "    try:\n        got = [w.name for w in plate[item].get().flatten()]\n"
                "    except Exception as e:\n        return {'ok': exp is None, 'observed': repr(e), 'expected': exp}\n"
                "    expn = None if exp is None else ['well %s,%s' % (rows[r], cols[c]) for r, c in exp]\n"
                "    return {'ok': got == expn, 'observed': got[:8], 'expected': expn and expn[:8]}\n")
        res.append({'name': name, 'case': f"{f['item']} on {f['shape']}{' custom' if f['custom'] else ''}",
                    'kind': 'bounded', 'verdict': 'refuted', 'count': 1, 'bound': bound, 'secs': 0.0,
                    'note': f"observed {f['observed']} expected {f['expected']}",
                    'replays': [{'inputs': {'item': f['item'], 'shape': f['shape'], 'custom': f['custom']}, 'code': code}]})
    return res
