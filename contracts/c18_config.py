"""C18 — Answers in user units do not depend on the internal storage configuration.

Relational over whole scripts, so decided through configuration-parametric contracts: every clause of the other
properties is phrased over the abstraction (amounts in base units, volumes in litres) and over user-unit results, and
mentions the storage factors ms, vs only inside the abstraction.  This check re-proves the obligations of the
configuration-dependent functions under every documented setting of moles_storage_unit / volume_storage_unit.
Lemma (paper): if every operation's contract is alpha_cfg(result) = F(alpha_cfg(args), strings) with F free of cfg, and
the accept/refuse conditions are predicates of alpha_cfg(args) only, then two runs of one script under two
configurations stay alpha-related and return equal user-unit answers (induction over the script).
"""
from pyvc import vc, spec
from contracts import c06_units, container_transfer as CT, container_ops as CO, solutions as SOL, trackers as TR

PID = 'C18'
FUNCTIONS = ['Config.__init__', 'Unit.convert_to_storage', 'Unit.convert_from_storage', 'Container._transfer', 'Container._add',
             'Container._self_add', 'Container.fill_to', 'Container.remove', 'Container.get_volume',
             'Container.get_concentration', 'Container.dilute', 'Container.create_solution',
             'Container.create_solution_from', 'Container.__init__', 'Recipe.get_substance_used',
             'Recipe.get_container_flows', 'Recipe.get_amount_remaining']
ASSUMPTIONS = ["lifting from per-operation parametricity to whole scripts is a paper lemma (induction over the script)",
               "internal_precision and display precisions: rounding to the internal precision is the identity (A2); "
               "display rounding is the uninterpreted rnd(p, .) — 'within rounding' is not quantified further"]
EXPLANATION = "the same obligations as C02/C03/C05/C10/C11/C12 re-proved under each storage-unit setting"


def settings(tier):
    shipped = vc.repo().config_data
    m0, v0 = shipped['moles_storage_unit'], shipped['volume_storage_unit']
    out = []
    if tier == 'thorough':
        for pm in spec.PREFIXES:
            for pv in spec.PREFIXES:
                out.append((pm + 'mol', pv + 'L'))
        return out
    for pm in spec.PREFIXES:
        out.append((pm + 'mol', v0))
    for pv in spec.PREFIXES:
        if (m0, pv + 'L') not in out:
            out.append((m0, pv + 'L'))
    return out


def inner_tasks(tier, heavy):
    t = [('storage',)]
    t += [('transfer', False, 'mL', 'range', 'finite'), ('transfer', False, 'mmol', 'range', 'inf')]
    # "the same accept/refuse decisions": the refusal boundaries under every setting (over-draw by volume / mass / moles,
    # a fill below the current quantity)
    t += [('transfer', False, 'nL', 'over', 'inf'), ('transfer', False, 'mg', 'over', 'finite'),
          ('transfer', False, 'mmol', 'over', 'inf'), ('op', 'fill_to', (2, 'mL', 'below', 'inf'))]
    t += [('op', 'add', (2, 'mL', 'pos', 'finite')), ('op', 'add', (1, 'mmol', 'pos', 'inf')),
          ('op', 'fill_to', (2, 'mL', 'above', 'finite')), ('op', 'fill_to', (1, 'mol', 'above', 'inf')),
          ('op', 'remove', (2, 'finite')), ('op', 'get_volume', ('mL',)), ('op', 'get_volume', (None,)),
          ('op', 'get_concentration', (1, 'M')), ('op', 'get_concentration', (2, '%w/w')),
          ('op', 'init', ('finite', ((2, 'mL'),)))]
    t += [('tracker', 'used', 'c2p', 'all', 'plates', 1, 'umol'), ('tracker', 'used', 'c2p,remove', 'all', 'A,P', 1, 'mg'),
          ('tracker', 'flows', 'c2p', 'all', 'P', 'uL')]
    if heavy:
        t += [('sol', 'dilute', (1, ('g', 'g'), 'ternary', 'inf')),
              ('sol', 'create_from', ('substance', ('mol', 'L'), 'mL', 'binary')),
              ('sol', 'create_solution', ((1,), ('c', 't'), ('mol', 'L'), 'g', 'mL', 'substance')),
              ('sol', 'create_solution', ((1,), ('c', 't'), ('g', 'g'), 'g', 'g', 'container'))]
        if tier == 'thorough':
            t += [('sol', 'dilute', (1, ('mol', 'L'), 'binary', 'inf')),
                  ('sol', 'create_from', ('container', ('mol', 'L'), 'mL', 'binary'))]
    return t


def tasks(tier):
    t = []
    for i, (mu, vu) in enumerate(settings(tier)):
        shipped = vc.repo().config_data
        heavy = tier == 'thorough' or mu in ('mol', 'mmol') or vu == 'L'
        for it in inner_tasks(tier, heavy):
            t.append((mu, vu) + it)
    t.append((None, None, 'canaries'))
    return t


def run(mu, vu, kind_, *args):
    if kind_ == 'canaries':
        return canaries()
    cfg = dict(vc.repo().config_data)
    cfg['moles_storage_unit'], cfg['volume_storage_unit'] = mu, vu
    vc.CFG_OVERRIDE = cfg
    tag = f"[{mu},{vu}]"
    try:
        if kind_ == 'storage':
            res = c06_units.run_storage(cfg, PID)
        elif kind_ == 'transfer':
            res = CT.run_case(None, *args)
        elif kind_ == 'op':
            res = CO.run(args[0], None, args[1])
        elif kind_ == 'sol':
            res = SOL.run(args[0], None, args[1])
        elif kind_ == 'tracker':
            res = TR.run(PID, *args)
        else:
            raise ValueError(kind_)
    finally:
        vc.CFG_OVERRIDE = None
    out = []
    for r in res:
        r = dict(r)
        if not r['name'].startswith(PID):
            r['name'] = f'{PID}/' + r['name']
        if tag not in str(r.get('case', '')):
            r['case'] = f"{r.get('case', '')}{tag}"
        for j in r.get('replays') or []:
            j.setdefault('config_yaml', c06_units.yaml_of(cfg))
        out.append(r)
    return out


def canaries():
    """Under moles_storage_unit = mmol a stored amount is NOT micromoles: the claim 'from_storage(x, umol) = x' must be
    refuted; and the trivial true one must verify."""
    import z3
    from pyvc.values import real
    cfg = dict(vc.repo().config_data)
    cfg['moles_storage_unit'] = 'mmol'
    res = []

    def body(I):
        v = z3.Real('v')
        I.assume(v != 0)
        out = vc.call(I, 'Unit.convert_from_storage', [v, 'umol'])
        if out.kind == 'return':
            I.oblige('canary[storage-is-always-umol]', real(out.value) == v, 'canary-false')
            I.oblige('canary[trivial]', v * 2 == v + v, 'canary-true')
        return out
    for I, out in vc.explore(body, cfg=cfg):
        res += [r for r in vc.discharge(I, f'{PID}/Unit.convert_from_storage/', 'canary', 10000) if r['kind'].startswith('canary')]
    return res
