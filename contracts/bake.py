"""Recipe.bake under contract (C08, and the bookkeeping half of C09 / C15 / C17 / C07 / C04).

Induction over the step loop: each case takes an ARBITRARY recipe state (symbolic dom(results), used, stages, number of
earlier steps; the current state of every involved name is an arbitrary abstract object, different from the object the
user handed to the step-adding call), adds ONE step of a given kind through the real step-adding method, and runs the real
bake loop body for it.  The direct operations (Container.transfer, Plate.transfer, Container.create_solution, ...,
constructors) are used modularly: each call is an event with fresh abstract results.  Obligations (the loop invariant
SIM + BOOK of DESIGN Appendix D, per branch):
  resolve      every container/plate operand handed to the direct operation is results[<its name>] at that moment
               (a slice: the same selector on the current plate)
  same-op      the operation and the remaining operands are the step's own
  store        outcomes are stored under the operands' names; nothing else in results changes
  snapshots    step.frm / step.to = [state before, state after] of the touched names
  objects-used, used, substances-used, trash   the per-step bookkeeping the trackers rely on
  frame        objects handed in by the user are not written
"""
import json

import z3

from pyvc import vc
from pyvc.values import *   # noqa: F401,F403
from pyvc import builtins_ as B
from pyvc.symcoll import SymMap, SymSubSet, NameDict
from pyvc.npmodel import GridArr
from contracts import clib
from contracts import c16_recipe as R16

PID = 'C08'
FUNCTIONS = {p: ['Recipe.bake', 'Recipe.uses', 'Recipe.transfer', 'Recipe.create_container', 'Recipe.create_solution',
                 'Recipe.create_solution_from', 'Recipe.remove', 'Recipe.dilute', 'Recipe.fill_to', 'RecipeStep.__init__']
             for p in ('C08', 'C09', 'C15', 'C17', 'C07', 'C04')}
SERVES = {'resolve': ['C08', 'C07', 'C03', 'C17'], 'same-op': ['C08', 'C07', 'C03', 'C17'], 'store': ['C08', 'C07', 'C03', 'C17'], 'names': ['C08'],
          'snapshots': ['C09', 'C15'], 'objects-used': ['C09', 'C15'], 'used': ['C16', 'C08'],
          'substances-used': ['C09', 'C17'], 'trash': ['C09', 'C17', 'C15'], 'frame': ['C04'], 'no-effect-before-bake': ['C08'],
          'safe': ['C08'], 'filed-under-own-name': ['C09', 'C15'], 'steps-kept': ['C08', 'C09', 'C15', 'C16']}


OBSERVABLE = ('name', 'contents', 'volume', 'max_volume', 'wells', 'experimental_conditions')


class Event:
    def __init__(self, kind_, args, kwargs, outputs, lineno):
        self.kind, self.args, self.kwargs, self.outputs, self.lineno = kind_, args, kwargs, outputs, lineno
        # what the direct operation handed back (identity of every observable field of its results): bake must file these
        # very objects, not edited versions of them
        self.snap = [{k: o.fields.get(k) for k in OBSERVABLE if isinstance(o, Obj)} for o in
                     (outputs if isinstance(outputs, (tuple, list)) else (outputs,))]

    def edited(self):
        out = []
        outs = self.outputs if isinstance(self.outputs, (tuple, list)) else (self.outputs,)
        for o, snap in zip(outs, self.snap):
            if not isinstance(o, Obj):
                continue
            for k, v in snap.items():
                cur = o.fields.get(k)
                if cur is v or (z3.is_expr(cur) and z3.is_expr(v) and cur.eq(v)):
                    continue
                if z3.is_expr(cur) or z3.is_expr(v) or isinstance(cur, (Obj, dict)) or type(cur) is not type(v) or cur != v:
                    out.append(f"{o.tag or o.cls.name}.{k} was changed after the {self.kind} operation returned it")
        return out


def abstract_container(I, name, tag, fresh_=True):
    o = I.new_obj('Container', fresh_=fresh_, tag=tag)
    m = SymMap(fresh_=fresh_, tag=tag)
    m.owner = o
    o.fields.update(name=name, contents=m, volume=fresh('vol', RS), max_volume=fresh('cap', RS),
                    instructions=SegStr([OpaqueHole('instructions')]), experimental_conditions={})
    clib.init_defaults(I, o)
    return o


def abstract_plate(I, name, tag, fresh_=True, shape=(1, 2)):
    p = I.new_obj('Plate', fresh_=fresh_, tag=tag)
    rows = ['A', 'B', 'C'][:shape[0]]
    cols = ['1', '2', '3'][:shape[1]]
    cells = [[abstract_container(I, f'well {r},{c}', f'{tag}.{r}{c}', fresh_) for c in cols] for r in rows]
    p.fields.update(name=name, make='generic', n_rows=len(rows), n_columns=len(cols), row_names=rows, column_names=cols,
                    max_volume_per_well=fresh('mv', RS), wells=GridArr.concrete(cells, fresh_=fresh_))
    clib.init_defaults(I, p)
    return p


def like(I, o, suffix="'"):
    if o.cls.name == 'Container':
        return abstract_container(I, o.fields['name'], (o.tag or '?') + suffix)
    if o.cls.name == 'Plate':
        return abstract_plate(I, o.fields['name'], (o.tag or '?') + suffix,
                              shape=(o.fields['n_rows'], o.fields['n_columns']))
    if o.cls.name == 'PlateSlicer':
        return like(I, o.fields['plate'], suffix)
    raise Unsupported(f"result like {o!r}")


def log(I):
    return I.__dict__.setdefault('events', [])


def ev_static(kind_, result_fn):
    def f(I, args, kwargs, node):
        outs = result_fn(I, args, kwargs)
        log(I).append(Event(kind_, list(args), dict(kwargs), outs, getattr(node, 'lineno', None)))
        return outs if len(outs) != 1 else outs[0]
    return f


def _transfer_results(I, args, kwargs):
    src, dst = args[0], args[1]
    return (like(I, src), like(I, dst))


def _solution_results(I, args, kwargs):
    solute, solvent, name = args[0], args[1], args[2] if len(args) > 2 else kwargs.get('name')
    new = abstract_container(I, name, 'solution')
    if isinstance(solvent, Obj) and solvent.cls.name == 'Container':
        return (like(I, solvent), new)
    return (new,)


def _solution_from_results(I, args, kwargs):
    source, solvent = args[0], args[3]
    name = args[5] if len(args) > 5 else kwargs.get('name')
    new = abstract_container(I, name, 'solution')
    if isinstance(solvent, Obj) and solvent.cls.name == 'Container':
        return (like(I, source), like(I, solvent), new)
    return (like(I, source), new)


def _unary_results(I, args, kwargs):
    r = like(I, args[0])
    return (r,)


def _fill_results(I, args, kwargs):
    """fill_to: by its contract the named solvent is a key of every (addressed) well of the result (possibly with amount
    0).  dilute gives NO such guarantee: a target equal to the current concentration returns the container as it is, and
    the solvent may be absent from it."""
    r = like(I, args[0])
    is_dilute = len(args) > 3
    solvent = args[1] if not is_dilute else args[3]     # fill_to(self, solvent, q) / dilute(self, solute, c, solvent, name)
    if is_dilute and len(args) > 4 and args[4] is not None:
        r.fields['name'] = args[4]                     # contract of Container.dilute: the result carries the new name
    if isinstance(solvent, SubV) and not is_dilute:
        cells = [r] if r.cls.name == 'Container' else [c for row in r.fields['wells'].cells for c in row]
        for c in cells:
            I.assume(c.fields['contents'].mem[solvent.term])
    return (r,)


def _ctor(I, args, kwargs, node):
    self = args[0]
    name = args[1]
    tmp = abstract_container(I, name, 'created')
    self.fields.update(tmp.fields)
    self.fields['contents'].owner = self
    self.__dict__['produced'] = True
    log(I).append(Event('construct', list(args[1:]), dict(kwargs), (self,), getattr(node, 'lineno', None)))
    return None


def contracts():
    c = clib.contracts()
    c['Container.transfer'] = ev_static('Container.transfer', _transfer_results)
    c['Plate.transfer'] = ev_static('Plate.transfer', _transfer_results)
    c['Container.create_solution'] = ev_static('Container.create_solution', _solution_results)
    c['Container.create_solution_from'] = ev_static('Container.create_solution_from', _solution_from_results)
    for k in ('Container.remove', 'Plate.remove', 'PlateSlicer.remove'):
        c[k] = ev_static(k, _unary_results)
    for k in ('Container.dilute', 'Container.fill_to', 'Plate.fill_to', 'PlateSlicer.fill_to'):
        c[k] = ev_static(k, _fill_results)
    c['Container.__init__'] = _ctor
    return c


def bake_loop(interp, st, env, lst, sl):
    """The step loop of bake for the induction step: the earlier steps are summarised by the arbitrary state; the body is
    executed for the steps appended in this run."""
    for step in lst.appended:
        interp.assign(st.target, step, env)
        interp.exec_block(st.body, env)


# ------------------------------------------------------------------------------------------------ cases
KINDS = ['transfer:sub-slice', 'remove:sub-slice', 'solution:two-solutes', 'transfer:cc', 'transfer:cp', 'transfer:cs', 'transfer:pc', 'transfer:sc', 'transfer:ss', 'transfer:ps',
         'transfer:same-plate', 'create_container', 'create_container:contents', 'solution', 'solution:container-solvent',
         'solution_from', 'remove:c', 'remove:p', 'remove:s', 'remove:class', 'dilute', 'dilute:rename', 'fill_to:c',
         'fill_to:p', 'fill_to:s']


def tasks(tier, pid=None):
    t = [('step', k) for k in KINDS] + [('no_effect',), ('canaries',)]
    for m in R16.STEP_ADDING:
        for v in R16.METHODS[m]:
            t.append(('refusal', m, v))
    return t


def run(pid, kind_, *args):
    if kind_ == 'step':
        return run_step(pid, *args)
    if kind_ == 'no_effect':
        return run_no_effect(pid)
    if kind_ == 'canaries':
        return run_canaries(pid)
    if kind_ == 'refusal':
        out = []
        for x in R16.run_method(args[0], args[1], False):
            if 'refusal-unchanged' in x['name'] or x['verdict'] == 'unsupported':
                out.append(dict(x, name=x['name'].replace('C16/', f'{pid}/').replace('ensures[refusal-unchanged]', 'no-effect-before-bake[refused-call-adds-no-step]')))
        return out
    raise ValueError(kind_)


def serves(name, pid):
    cl = name.partition('[')[0].split('/')[-1]
    if cl not in SERVES:
        raise RuntimeError(f"clause {name!r} is mapped to no property (SERVES)")     # never drop a clause silently
    return pid is None or pid in SERVES[cl]


class Ctx:
    pass


def setup(I):
    clib.assume_world(I)
    st = R16.mk_recipe(I, locked=z3.BoolVal(False))
    cx = Ctx()
    cx.st = st
    cx.cur = {}       # name term id -> current state object
    cx.user = {}      # label -> object handed in by the user
    I.__dict__.setdefault('list_loop_handlers', {})['iter:self.steps'] = bake_loop
    return cx


def declare(I, cx, label, kind_, shape=(1, 2)):
    """A declared object: the user's handle (declaration-time state) and a different current state in results."""
    st = cx.st
    nm = z3.Const(f'name_{label}', Name)
    name = NameV(nm)
    if kind_ == 'container':
        user = abstract_container(I, name, f'user:{label}', fresh_=False)
        cur = abstract_container(I, name, f'cur:{label}', fresh_=False)
    else:
        user = abstract_plate(I, name, f'user:{label}', fresh_=False, shape=shape)
        cur = abstract_plate(I, name, f'cur:{label}', fresh_=False, shape=shape)
    I.assume(st.results.mem[nm])
    st.results.known.append((nm, cur))
    cx.cur[label] = cur
    cx.user[label] = user
    return user, cur, nm


def slice_of(I, plate, item):
    out = vc.call(I, 'Plate.__getitem__', [plate, item])
    if out.kind != 'return':
        raise Unsupported('slice construction failed')
    out.value.fresh = False
    return out.value


def results_value(I, st, nm):
    """latest object stored in results under name nm (syntactic name term match)"""
    for kt, v in reversed(st.results.known):
        if kt.eq(nm):
            return v
    return None


def run_step(pid, kind_):
    res = []
    case = kind_

    def body(I):
        cx = setup(I)
        st = cx.st
        r = st.obj
        I.__dict__['event_failures'] = False
        w = SubV(z3.Const('water', Sub))
        salt = SubV(z3.Const('salt', Sub))
        q = SegStr([NumHole(z3.Real('q')), ' ', 'uL'])
        op, _, var = kind_.partition(':')
        exp = {'inputs': {}, 'outputs': {}, 'event': None, 'operands': [], 'n_events': 1}
        # ---------------- add the step through the real step-adding method
        if op == 'transfer' and var == 'sub-slice':
            ua, ca, na = declare(I, cx, 'A', 'plate', shape=(2, 2))
            ub, cb, nb = declare(I, cx, 'B', 'container')
            I.assume(na != nb)
            base = slice_of(I, ua, (SliceV(1, 2, None), SliceV(1, 2, None)))
            sub_ = vc.call(I, 'Slicer.__getitem__', [base, (SliceV(0, 1, None), SliceV(1, 2, None))]).value
            sub_.fresh = False
            out = vc.call(I, 'Recipe.transfer', [r, sub_, ub, q])
            exp.update(event='Container.transfer', inputs={'A': (ca, sub_), 'B': (cb, ub)}, operands=[q],
                       names={'A': na, 'B': nb}, frm='A', to='B', subs_from=None)
        elif op == 'remove' and var == 'sub-slice':
            ua, ca, na = declare(I, cx, 'A', 'plate', shape=(2, 2))
            base = slice_of(I, ua, (SliceV(1, 2, None), SliceV(1, 2, None)))
            sub_ = vc.call(I, 'Slicer.__getitem__', [base, (SliceV(0, 1, None), SliceV(1, 2, None))]).value
            sub_.fresh = False
            out = vc.call(I, 'Recipe.remove', [r, sub_, w])
            exp.update(event='PlateSlicer.remove', inputs={'A': (ca, sub_)}, operands=[w], names={'A': na}, frm=None, to='A')
        elif op == 'solution' and var == 'two-solutes':
            nm = z3.Const('name_N', Name)
            I.assume(z3.Not(st.results.mem[nm]))
            s1 = vc.call(I, 'Substance.solid', ['zinc sulfate', 161]).value
            s2 = vc.call(I, 'Substance.solid', ['ammonium chloride', 53]).value
            sol_list = [s1, s2]            # deliberately not in alphabetical order
            kwargs = {'concentration': ['1 M', '2 M'], 'total_quantity': '10 mL'}
            out = vc.call(I, 'Recipe.create_solution', [r, sol_list, w, NameV(nm)], kwargs)
            exp.update(event='Container.create_solution', inputs={}, names={'N': nm}, operands=[kwargs], frm=None, to='N',
                       created='N', subs_result='N', solute_order=[s1, s2])
        elif op == 'transfer':
            kinds = {'cc': ('container', 'container'), 'cp': ('container', 'plate'), 'cs': ('container', 'slice'),
                     'pc': ('plate', 'container'), 'sc': ('slice', 'container'), 'ss': ('slice', 'slice'),
                     'ps': ('plate', 'slice'), 'same-plate': ('slice', 'slice')}[var]
            ua, ca, na = declare(I, cx, 'A', 'container' if kinds[0] == 'container' else 'plate')
            if var == 'same-plate':
                ub, cb, nb = ua, ca, na
            else:
                ub, cb, nb = declare(I, cx, 'B', 'container' if kinds[1] == 'container' else 'plate')
                I.assume(na != nb)
            src = slice_of(I, ua, (1, 1)) if kinds[0] == 'slice' else ua
            dst = slice_of(I, ub, (1, 2)) if kinds[1] == 'slice' else ub
            out = vc.call(I, 'Recipe.transfer', [r, src, dst, q])
            exp.update(event='Container.transfer' if kinds[1] == 'container' else 'Plate.transfer',
                       inputs={'A': (ca, src), 'B': (cb, dst)}, operands=[q], names={'A': na, 'B': nb},
                       frm='A', to='B', subs_from='A')
        elif op == 'create_container':
            nm = z3.Const('name_N', Name)
            I.assume(z3.Not(st.results.mem[nm]))
            ic = [(w, SegStr([NumHole(z3.Real('v')), ' ', 'mL']))] if var == 'contents' else None
            out = vc.call(I, 'Recipe.create_container', [r, NameV(nm), '10 mL', ic])
            exp.update(event='construct', inputs={}, operands=['10 mL', ic], names={'N': nm}, frm=None, to='N',
                       created='N', subs_result='N')
        elif op == 'solution':
            nm = z3.Const('name_N', Name)
            I.assume(z3.Not(st.results.mem[nm]))
            kwargs = {'concentration': '1 M', 'total_quantity': '10 mL'}
            if var == 'container-solvent':
                uy, cy, ny = declare(I, cx, 'Y', 'container')
                I.assume(ny != nm)
                out = vc.call(I, 'Recipe.create_solution', [r, salt, uy, NameV(nm)], kwargs)
                exp.update(inputs={'Y': (cy, uy)}, names={'N': nm, 'Y': ny})
            else:
                out = vc.call(I, 'Recipe.create_solution', [r, salt, w, NameV(nm)], kwargs)
                exp.update(inputs={}, names={'N': nm})
            exp.update(event='Container.create_solution', operands=[salt, kwargs], frm=None, to='N', created='N',
                       subs_result='N')
        elif op == 'solution_from':
            nm = z3.Const('name_N', Name)
            I.assume(z3.Not(st.results.mem[nm]))
            ua, ca, na = declare(I, cx, 'A', 'container')
            I.assume(na != nm)
            # concrete constants so that the value checks of the step-adding method pass
            for s_, consts in ((salt.term, (1, '5844/100', '1')), (w.term, (2, '180153/10000', '1'))):
                I.assume(z3.And(kind(s_) == consts[0], mw(s_) == z3.RealVal(consts[1]), dens(s_) == z3.RealVal(consts[2])))
            out = vc.call(I, 'Recipe.create_solution_from', [r, ua, salt, '0.5 M', w, '5 mL', NameV(nm)])
            exp.update(event='Container.create_solution_from', inputs={'A': (ca, ua)}, operands=[salt, '0.5 M', w, '5 mL'],
                       names={'A': na, 'N': nm}, frm='A', to='N', created='N', subs_result='N')
        elif op == 'remove':
            what = 2 if var == 'class' else w
            tk = {'c': 'container', 'class': 'container', 'p': 'plate', 's': 'plate'}[var]
            ua, ca, na = declare(I, cx, 'A', tk)
            tgt = slice_of(I, ua, (1, 1)) if var == 's' else ua
            out = vc.call(I, 'Recipe.remove', [r, tgt, what])
            exp.update(event={'container': 'Container.remove', 'plate': 'Plate.remove'}[tk] if var != 's' else 'PlateSlicer.remove',
                       inputs={'A': (ca, tgt)}, operands=[what], names={'A': na}, frm=None, to='A', remove=what)
        elif op == 'dilute':
            ua, ca, na = declare(I, cx, 'A', 'container')
            for s_, consts in ((salt.term, (1, '5844/100', '1')), (w.term, (2, '180153/10000', '1'))):
                I.assume(z3.And(kind(s_) == consts[0], mw(s_) == z3.RealVal(consts[1]), dens(s_) == z3.RealVal(consts[2])))
            new_name = NameV(z3.Const('name_R', Name)) if var == 'rename' else None
            out = vc.call(I, 'Recipe.dilute', [r, ua, salt, '0.5 M', w, new_name])
            exp.update(event='Container.dilute', inputs={'A': (ca, ua)}, operands=[salt, '0.5 M', w, new_name],
                       names={'A': na}, frm=None, to='A', subs={'water'})
        elif op == 'fill_to':
            tk = {'c': 'container', 'p': 'plate', 's': 'plate'}[var]
            ua, ca, na = declare(I, cx, 'A', tk)
            tgt = slice_of(I, ua, (1, 1)) if var == 's' else ua
            out = vc.call(I, 'Recipe.fill_to', [r, tgt, w, q])
            exp.update(event={'container': 'Container.fill_to', 'plate': 'Plate.fill_to'}[tk] if var != 's' else 'PlateSlicer.fill_to',
                       inputs={'A': (ca, tgt)}, operands=[w, q], names={'A': na}, frm=None, to='A', subs={'water'})
        else:
            raise ValueError(kind_)
        if out.kind != 'return':
            I.oblige('safe[step-adding]', False, 'property', note=f'{out.exc.cls} at line {out.exc.lineno} while adding the step')
            return out
        # ---------------- no effect before bake
        I.oblige('no-effect-before-bake', len(log(I)) == 0 or all(e.kind == 'construct' for e in log(I)), 'property',
                 note='adding a step must not perform the operation')
        pre_events = len(log(I))
        step = st.steps.appended[-1]
        I.writes[:] = [wr for wr in I.writes if wr[0] is not st.obj]
        known_before = len(st.results.known)
        # ---------------- bake
        out = vc.call(I, 'Recipe.bake', [r])
        if out.kind != 'return':
            ex = out.exc
            if ex.cls == 'ValueError' and not ex.implicit:
                return out          # "something declared was not used": depends on the arbitrary earlier state
            I.oblige(f'safe[{ex.cls}]', False, 'property', note=f'{ex.cls} at line {ex.lineno} in bake')
            return out
        evs = log(I)[pre_events:]
        judge(I, cx, exp, step, evs, known_before)
        return out

    for I, out in vc.explore(body, contracts=contracts(), max_paths=300):
        if isinstance(out, vc.Outcome) and out.kind == 'unsupported':
            res.append(vc.unsupported_result(f'Recipe.bake/unsupported', case, out.note))
            continue
        I.obls = [ob for ob in I.obls if ob.kind != 'property' or serves(ob.name, pid)]
        res += vc.discharge(I, 'Recipe.bake/', case, 10000, replay_fn=lambda mv, ob: replay_for(kind_, ob.name))
    res = clib.dedupe(res)
    clause = {'C04': 'frame', 'C09': 'substances-used trash', 'C15': 'snapshots objects-used', 'C17': 'resolve trash'}.get(pid, 'resolve')
    res = clib.native_fallback(res, f'Recipe.bake/{clause.split()[0]}', case, replay_for(kind_, clause + ' objects-used'))
    return [dict(x, name=f'{pid}/' + x['name']) for x in res]


def same_selector(I, a, b):
    return B.equals(I, a.fields.get('slices'), b.fields.get('slices')) is True


def judge(I, cx, exp, step, evs, known_before):
    st = cx.st
    r = st.obj
    foreign = [(str(w[0]), w[1], w[2]) for w in I.writes if w[0] is not st.obj and not str(w[0]).startswith('<RecipeStep')]
    I.oblige('frame', len(foreign) == 0, 'property', note=f"objects handed in by the user were written: {foreign[:4]}")
    # ---- the baked recipe keeps its steps, all of them, in order: the stage windows (Recipe.stages: name -> slice of
    # step positions) and the step-by-step trackers mean what they meant when the stages were closed
    from pyvc.symcoll import SymListDerived
    now = st.obj.fields.get('steps')
    base = now
    while isinstance(base, SymListDerived) and not base.filtered:
        base = base.base
    I.oblige('steps-kept', base is st.steps, 'property',
             note='after bake, recipe.steps is no longer the list of all steps added (stage windows are positions in it)')
    # ---- the operation performed
    main = [e for e in evs if e.kind != 'construct' or exp['event'] == 'construct']
    if exp['event'].endswith('.fill_to') and len(main) == 2 and main[1].args[0] is main[0].outputs[0] \
            and main[0].kind == main[1].kind == exp['event'] and all(a is b for a, b in zip(main[0].args[1:], main[1].args[1:])):
        # bake fills twice with the same operands, the second time on the result of the first: by the contract of fill_to
        # (total = target, only solvent added) the second application adds nothing — accepted as one operation
        exp = dict(exp)
        exp['inputs'] = dict(exp['inputs'])
        exp['idempotent_first'] = main[0]
        main = [main[0]]
        evs_last = evs[-1]
    I.oblige('same-op[count]', len(main) == exp['n_events'], 'property',
             note=f"{len(main)} direct operation(s) {[e.kind for e in main]} for one step ({exp['event']})")
    if not main:
        return
    e = main[-1] if exp['event'] != 'construct' else main[-1]
    I.oblige('same-op[kind]', e.kind == exp['event'] and all(m.kind == exp['event'] for m in main), 'property',
             note=f"performed {[m.kind for m in main]}, expected {exp['event']}")
    # ---- resolve: object operands are the CURRENT states
    bad = []
    objs = [a for a in e.args if isinstance(a, Obj) and a.cls.name in ('Container', 'Plate', 'PlateSlicer')]
    for m in main:
        for a in [x for x in m.args if isinstance(x, Obj) and x.cls.name in ('Container', 'Plate', 'PlateSlicer')]:
            hit = None
            for label, (cur, handle) in exp['inputs'].items():
                if a is cur:
                    hit = label
                elif a.cls.name == 'PlateSlicer' and a.fields.get('plate') is cur:
                    cands = [h for l2, (c2, h) in exp['inputs'].items() if c2 is cur]
                    ok_sel = False
                    for h in cands:
                        if h.cls.name == 'PlateSlicer' and same_selector(I, a, h):
                            ok_sel = True
                        if h.cls.name != 'PlateSlicer' and same_selector(I, a, slice_of(I, cur, SliceV(None, None, None))):
                            ok_sel = True
                    if not ok_sel and f"slice on the plate of {label} with a selector the step does not have" not in bad:
                        bad.append(f"slice on the plate of {label} with a selector the step does not have")
                    hit = label
                elif a is handle or (a.cls.name == 'PlateSlicer' and handle.cls.name == 'PlateSlicer'
                                     and a.fields.get('plate') is handle.fields.get('plate')):
                    bad.append(f"{label}: the declaration-time object was used instead of the current state")
                    hit = label
            if hit is None and exp['event'] != 'construct':
                bad.append(f"operand {a!r} is not the current state of any involved name")
    I.oblige('resolve', len(bad) == 0, 'property', note='; '.join(bad[:3]))
    # ---- same operands
    others = [a for a in e.args if not (isinstance(a, Obj) and a.cls.name in ('Container', 'Plate', 'PlateSlicer'))]
    others += list(e.kwargs.values())
    want = [o for o in exp['operands']]
    okops = True
    for wv in want:
        if isinstance(wv, dict):
            okops = okops and all(any(x is v or x == v for x in others) for v in wv.values())
        elif wv is None:
            continue
        else:
            okops = okops and any(x is wv or (not is_sym(x) and not isinstance(x, (Obj, SubV, SegStr)) and x == wv) or
                                  (isinstance(x, SubV) and isinstance(wv, SubV) and x == wv) for x in others)
    if exp.get('solute_order'):
        got = e.args[0] if e.args else None
        okops = okops and isinstance(got, list) and len(got) == len(exp['solute_order']) and \
            all(a is b for a, b in zip(got, exp['solute_order']))
    I.oblige('same-op[operands]', bool(okops), 'property', note=f"operands {others!r:.200} vs step {want!r:.200}")
    # ---- store
    outs = list(e.outputs)
    stored_ok = True
    notes = []
    names = exp['names']
    # which output belongs to which name
    out_for = {}
    if exp['event'] in ('Container.transfer', 'Plate.transfer'):
        out_for = {'A': outs[0], 'B': outs[1]}
        if names['A'].eq(names['B']):
            out_for = {'A': outs[1]}          # same plate: both results are the one plate
    elif exp['event'] == 'Container.create_solution':
        out_for = {'N': outs[-1]}
        if 'Y' in names:
            out_for['Y'] = outs[0]
    elif exp['event'] == 'Container.create_solution_from':
        out_for = {'A': outs[0], 'N': outs[-1]}
    elif exp['event'] == 'construct':
        out_for = {'N': outs[0]}
    else:
        out_for = {'A': outs[0]}
    twice = exp.get('idempotent_first')
    if twice is not None:
        # filled twice (idempotent): the stored state is the second application's result
        second = [m for m in evs if m.kind == exp['event']][-1]
        out_for = {'A': second.outputs[0]}
    for label, o in out_for.items():
        got = results_value(I, st, names[label])
        if got is not o and not (exp['event'] == 'Plate.transfer' and names.get('A') is not None and got in outs):
            stored_ok = False
            notes.append(f"results[{label}] is {got!r}, expected the operation's result {o!r}")
    new_keys = [kt for kt, v in st.results.known[known_before:]]
    extra = [str(kt) for kt in new_keys if not any(kt.eq(n) for n in names.values())]
    I.oblige('store', stored_ok and not extra, 'property', note='; '.join(notes[:3]) + (f' extra names stored: {extra}' if extra else ''))
    edits = [x for m in evs for x in m.edited()]
    I.oblige('store[results-unedited]', not edits, 'property', note='; '.join(edits[:3]))
    # ---- the trackers find the objects of a step by NAME (step.to[0].name == container.name ...): every object filed in
    # results must carry the name it is filed under, or later steps on it become invisible to them
    misfiled = []
    for label, o in out_for.items():
        got = results_value(I, st, names[label])
        nm = got.fields.get('name') if isinstance(got, Obj) else None
        same_name = (isinstance(nm, NameV) and nm.term.eq(names[label])) or (isinstance(nm, str) and str(names[label]) == nm)
        if not same_name:
            misfiled.append(f"results[{names[label]}] holds an object named {nm!r}")
    I.oblige('filed-under-own-name', not misfiled, 'property', note='; '.join(misfiled[:3]))
    # ---- snapshots
    snap = []
    to_l, frm_l = exp['to'], exp['frm']
    def pre_of(label):
        return exp['inputs'][label][0] if label in exp['inputs'] else None
    tgt_pre = pre_of(to_l)
    if exp.get('created') == to_l:
        tgt_pre = 'declared-empty'
    sto = step.fields['to']
    sfrm = step.fields['frm']
    if tgt_pre != 'declared-empty' and (len(sto) < 2 or sto[0] is not tgt_pre):
        snap.append(f"step.to[0] is not the state of the destination before the step")
    post_ok = len(sto) >= 2 and (sto[1] is results_value(I, st, names[to_l]) or
                                 (twice is not None and sto[1] is twice.outputs[0]))
    if not post_ok:
        snap.append("step.to[1] is not the state of the destination after the step")
    if frm_l is not None:
        if len(sfrm) < 2 or sfrm[0] is not pre_of(frm_l):
            snap.append("step.frm[0] is not the state of the source before the step")
        if len(sfrm) < 2 or sfrm[1] is not results_value(I, st, names[frm_l]):
            snap.append("step.frm[1] is not the state of the source after the step")
    else:
        if len(sfrm) < 2 or sfrm[0] is not None:
            if 'Y' not in names:
                snap.append("step.frm should be [None, None] for a step without source")
    if 'Y' in names:
        # a solvent container is drawn on: its before/after states must be recorded so that flows can see it
        if not (len(sfrm) >= 2 and sfrm[0] is pre_of('Y') and sfrm[1] is results_value(I, st, names['Y'])):
            snap.append("the solvent container's states before/after are not recorded in the step")
    I.oblige('snapshots', len(snap) == 0, 'property', note='; '.join(snap[:3]))
    # ---- objects_used / used
    ou = step.fields['objects_used']
    want_names = list(names.values())
    ok_ou = isinstance(ou, B.SetV) and all(B.set_contains(I, ou, NameV(n)) is True or
                                           any(isinstance(x, NameV) and x.term.eq(n) for x in ou.items) for n in want_names) \
        and len(ou.items) == len({str(n) for n in want_names})
    I.oblige('objects-used', bool(ok_ou), 'property', note=f"objects_used = {ou!r:.200}, involved names {want_names}")
    used = r.fields['used']
    I.oblige('used', z3.And(*[used.mem[n] for n in want_names]), 'property', note='every involved name is marked used')
    # ---- substances_used / trash
    su = step.fields['substances_used']
    x = z3.Const('x!su', Sub)
    if exp.get('subs_from'):
        cur, handle = exp['inputs'][exp['subs_from']]
        if handle.cls.name == 'PlateSlicer':
            # a slice as source: the substances of the addressed wells (the handle addresses well [0, 0] here)
            x_ = z3.Const('x!ks', Sub)
            want_mem = cur.fields['wells'].cells[0][0].fields['contents'].mem
        else:
            want_mem = keyset(I, cur)
        I.oblige('substances-used', isinstance(su, SymSubSet) and z3.ForAll([x], su.mem[x] == want_mem[x]) if isinstance(su, SymSubSet) else False,
                 'property', note='substances_used = substances of the source before the step')
    elif exp.get('subs_result'):
        res_obj = results_value(I, st, names[exp['subs_result']])
        want_mem = keyset(I, res_obj)
        I.oblige('substances-used', isinstance(su, SymSubSet) and z3.ForAll([x], su.mem[x] == want_mem[x]) if isinstance(su, SymSubSet) else False,
                 'property', note='substances_used = substances of the created container')
    elif exp.get('subs'):
        ok = isinstance(su, B.SetV) and len(su.items) == 1 and isinstance(su.items[0], SubV) and str(su.items[0].term) == 'water'
        I.oblige('substances-used', bool(ok), 'property', note=f'substances_used = {{solvent}}, got {su!r:.100}')
    if 'remove' in exp:
        what = exp['remove']
        pre = exp['inputs']['A'][0]
        post = results_value(I, st, names['A'])
        trash = step.fields['trash']
        sel = (lambda t: t == what.term) if isinstance(what, SubV) else (lambda t: kind(t) == what)
        # discarded amount of x = (amount before) - (amount after), summed over the wells of the object
        def total(o, t):
            if o.cls.name == 'Container':
                return o.fields['contents'].amt[t]
            return z3.Sum([c.fields['contents'].amt[t] for row in o.fields['wells'].cells for c in row])
        # the modular remove gives no facts about `post`; state what the contract of remove guarantees for the
        # addressed wells (selected gone, others kept) so that `trash` can be judged
        handle = exp['inputs']['A'][1]
        addressed = None
        if handle.cls.name == 'PlateSlicer':
            addressed = [(0, 0)]
        pre_cells = [pre] if pre.cls.name == 'Container' else [c for row in pre.fields['wells'].cells for c in row]
        post_cells = [post] if post.cls.name == 'Container' else [c for row in post.fields['wells'].cells for c in row]
        idx = 0
        for pc, qc in zip(pre_cells, post_cells):
            is_addr = addressed is None or (idx // pre.fields['n_columns'], idx % pre.fields['n_columns']) in addressed \
                if pre.cls.name == 'Plate' else True
            idx += 1
            pm, qm = pc.fields['contents'], qc.fields['contents']
            I.assume(z3.ForAll([x], z3.Implies(z3.Not(pm.mem[x]), pm.amt[x] == 0)))
            if is_addr:
                I.assume(z3.ForAll([x], z3.If(sel(x), z3.And(z3.Not(qm.mem[x]), qm.amt[x] == 0),
                                              z3.And(qm.mem[x] == pm.mem[x], qm.amt[x] == pm.amt[x]))))
            else:
                I.assume(z3.ForAll([x], z3.And(qm.mem[x] == pm.mem[x], qm.amt[x] == pm.amt[x])))
        if isinstance(trash, dict) and not trash:
            tr_amt = lambda t: z3.RealVal(0)      # noqa: E731
        elif isinstance(trash, SymMap):
            tr_amt = lambda t: trash.amt[t]       # noqa: E731
        else:
            tr_amt = None
        if tr_amt is None:
            I.oblige('trash', False, 'property', note=f'trash has an unexpected form: {trash!r:.100}')
        else:
            I.oblige('trash', z3.ForAll([x], tr_amt(x) == total(pre, x) - total(post, x)), 'property',
                     note='trash[s] = amount of s the step discarded (before - after, over the addressed wells)')
        if isinstance(su, SymSubSet):
            I.oblige('substances-used', z3.ForAll([x], z3.Implies(total(pre, x) != total(post, x), su.mem[x])), 'property',
                     note='every substance whose amount the remove step changed is in substances_used')
        else:
            I.oblige('substances-used', False, 'property', note=f'substances_used = {su!r:.100}')


def keyset(I, o):
    if o.cls.name == 'Container':
        return o.fields['contents'].mem
    x = z3.Const('x!ks', Sub)
    return z3.Lambda([x], z3.Or(*[c.fields['contents'].mem[x] for row in o.fields['wells'].cells for c in row]))


def run_no_effect(pid):
    """Declaring an object stores a deep copy: the user's object is never aliased into results."""
    res = []

    def body(I):
        cx = setup(I)
        st = cx.st
        u = abstract_container(I, NameV(z3.Const('name_U', Name)), 'user:U', fresh_=False)
        I.assume(z3.Not(st.results.mem[u.fields['name'].term]))
        out = vc.call(I, 'Recipe.uses', [st.obj, u])
        if out.kind != 'return':
            return out
        got = results_value(I, st, u.fields['name'].term)
        I.oblige('no-effect-before-bake[uses-copies]', got is not None and got is not u and got.fresh and
                 got.fields['contents'] is not u.fields['contents'], 'property',
                 note='uses() must store a deep copy of the declared object')
        return out
    for I, out in vc.explore(body, contracts=clib.contracts()):
        I.obls = [ob for ob in I.obls if ob.kind != 'property' or serves(ob.name, pid)]
        res += vc.discharge(I, 'Recipe.uses/', 'uses', 10000)
    return [dict(x, name=f'{pid}/' + x['name']) for x in clib.dedupe(res)]


def run_canaries(pid):
    res = []

    def body(I):
        cx = setup(I)
        st = cx.st
        I.__dict__['event_failures'] = False
        ua, ca, na = declare(I, cx, 'A', 'container')
        ub, cb, nb = declare(I, cx, 'B', 'container')
        I.assume(na != nb)
        q = SegStr([NumHole(z3.Real('q')), ' ', 'uL'])
        out = vc.call(I, 'Recipe.transfer', [st.obj, ua, ub, q])
        out = vc.call(I, 'Recipe.bake', [st.obj])
        if out.kind != 'return':
            return out
        e = log(I)[-1]
        I.oblige('canary[uses-declaration-time-object]', e.args[0] is ua, 'canary-false')
        I.oblige('canary[trivial]', True, 'canary-true')
        return out
    for I, out in vc.explore(body, contracts=contracts()):
        res += [x for x in vc.discharge(I, 'Recipe.bake/', 'canary', 10000) if x['kind'].startswith('canary')]
    return [dict(x, name=f'{pid}/' + x['name']) for x in clib.dedupe(res)]


def replay_for(kind_, clause):
    inputs = {'kind': kind_, 'clause': clause}
    code = ("import json\nfrom contracts.bake_oracle import replay\nJ = json.loads(%r)\n"
            "def run():\n    return replay(J['kind'], J['clause'])\n" % json.dumps(inputs))
    return [{'inputs': inputs, 'code': code}]
