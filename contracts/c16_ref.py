"""Replay side of C16: witness templates for refuted lifecycle obligations and the bounded enumeration of call
sequences against a reference state machine written from the property statement.  Runs under the repository's
interpreter (no z3)."""
import itertools

from pyplate import Substance, Container, Plate, Recipe

water = Substance.liquid('water', 18.0153, 1)
salt = Substance.solid('salt', 58.44)


def objs():
    A = Container('A', '20 mL', [(water, '10 mL'), (salt, '5 mmol')])
    Bc = Container('B', '20 mL')
    P = Plate('P', '2 mL', rows=2, columns=2)
    return A, Bc, P


def fp(r):
    return (len(r.steps), tuple(sorted(r.results)), r.locked, r.current_stage, tuple(sorted(r.stages)), tuple(sorted(r.used)))


def baked_recipe():
    A, Bc, P = objs()
    r = Recipe().uses(A, Bc, P)
    r.transfer(A, Bc, '1 mL')
    r.transfer(A, P, '10 uL')
    r.bake()
    return r, A, Bc, P


def call(r, method, variant, A, Bc, P, declared=True, newname='N'):
    X = A if declared else Container('undeclared', '20 mL', [(water, '5 mL'), (salt, '1 mmol')])
    XP = P if declared else Plate('undeclaredP', '2 mL', rows=2, columns=2)
    pick = {'container': X, 'plate': XP, 'slice': XP[1]}
    if method == 'uses':
        return r.uses(Container(newname, '5 mL')) if variant != 'list2' else r.uses([Container(newname, '5 mL'), Plate(newname + 'p', '1 mL')])
    if method == 'transfer':
        a, b = eval(variant) if isinstance(variant, str) and variant.startswith('(') else variant
        src = {'container': X, 'plate': XP, 'slice': XP[1]}[a]
        dst = {'container': Bc, 'plate': P, 'slice': P[2]}[b]
        return r.transfer(src, dst, '1 uL')
    if method == 'create_container':
        return r.create_container(newname, '10 mL', [(water, '1 mL')] if variant == 'with-contents' else None)
    if method == 'create_solution':
        solvent = X if variant == 'container-solvent' else water
        return r.create_solution(salt, solvent, newname, concentration='0.1 M', total_quantity='1 mL')
    if method == 'create_solution_from':
        return r.create_solution_from(X, salt, '0.1 M', water, '2 mL', newname)
    if method == 'remove':
        return r.remove(pick[variant], water)
    if method == 'dilute':
        return r.dilute(X, salt, '0.1 M', water)
    if method == 'fill_to':
        return r.fill_to(pick[variant], water, '1.5 mL' if variant != 'container' else '15 mL')
    if method == 'start_stage':
        return r.start_stage('stage1')
    if method == 'end_stage':
        return r.end_stage('all' if variant == 'all' else 'stage1')
    if method == 'bake':
        return r.bake()
    raise ValueError(method)


def witness(method, variant, locked, clause):
    """Replays the scenario behind a refuted obligation; ok == False means the real code violates the clause."""
    c = clause.split('/')[-1]
    if locked:
        r, A, Bc, P = baked_recipe()
        before = fp(r)
        try:
            call(r, method, variant, A, Bc, P, declared=True)
        except RuntimeError:
            return {'ok': fp(r) == before, 'observed': 'RuntimeError', 'expected': 'RuntimeError, state unchanged'}
        except Exception as e:
            return {'ok': False, 'observed': repr(e), 'expected': 'RuntimeError'}
        return {'ok': False, 'observed': f'accepted after bake (steps {before[0]} -> {len(r.steps)})',
                'expected': 'RuntimeError'}
    A, Bc, P = objs()
    r = Recipe().uses(A, Bc, P)
    before = fp(r)
    if 'undeclared' in c:
        try:
            call(r, method, variant, A, Bc, P, declared=False)
        except ValueError:
            return {'ok': True, 'observed': 'ValueError'}
        except Exception as e:
            return {'ok': False, 'observed': repr(e), 'expected': 'ValueError'}
        return {'ok': False, 'observed': f'undeclared operand accepted (steps {before[0]} -> {len(r.steps)}, '
                                         f'results {sorted(r.results)})', 'expected': 'ValueError'}
    if 'duplicate' in c:
        try:
            call(r, method, variant, A, Bc, P, declared=True, newname='A')
        except ValueError:
            return {'ok': True, 'observed': 'ValueError'}
        except Exception as e:
            return {'ok': False, 'observed': repr(e), 'expected': 'ValueError'}
        return {'ok': False, 'observed': 'second object named A accepted', 'expected': 'ValueError'}
    if 'stage-rules' in c or 'accept' in c or 'stage' in c:
        if method == 'end_stage':
            try:
                call(r, method, variant, A, Bc, P)
            except ValueError:
                return {'ok': True, 'observed': 'ValueError'}
            return {'ok': False, 'observed': f"end_stage({'all' if variant == 'all' else 'stage1'}) accepted with no "
                                             f"such stage open; stages={r.stages}", 'expected': 'ValueError'}
        if method == 'start_stage':
            r.start_stage('other')
            try:
                call(r, method, variant, A, Bc, P)
            except ValueError:
                return {'ok': True, 'observed': 'ValueError'}
            return {'ok': False, 'observed': 'second stage opened', 'expected': 'ValueError'}
    try:
        call(r, method, variant, A, Bc, P)
    except Exception as e:
        return {'ok': None, 'error': f'no witness template for {clause}: {e!r}'}
    return {'ok': None, 'error': f'no witness template for {clause}'}


# ------------------------------------------------------------------------------------------------ bounded enumeration
ALPHABET = ['uses A', 'uses B', 'create N', 'transfer A B', 'transfer N B', 'remove B', 'fill A', 'start s', 'end s',
            'end all', 'bake']


class Ref:
    """Reference lifecycle machine (from the property text)."""

    def __init__(self):
        self.declared, self.used, self.steps = [], set(), []
        self.open, self.stages, self.locked = None, {'all'}, False
        self.ambiguous = False

    def step(self, op):
        """returns expected outcome: 'ok' | exception class name"""
        k = op.split()
        if self.locked:
            return 'RuntimeError'
        if k[0] == 'uses':
            if k[1] in self.declared:
                return 'ValueError'
            self.declared.append(k[1])
            return 'ok'
        if k[0] == 'create':
            if k[1] in self.declared:
                return 'ValueError'
            self.declared.append(k[1])
            self.steps.append(op)
            return 'ok'
        if k[0] in ('transfer', 'remove', 'fill'):
            if any(n not in self.declared for n in k[1:]):
                return 'ValueError'
            self.steps.append(op)
            return 'ok'
        if k[0] == 'start':
            if self.open is not None or k[1] in self.stages:
                return 'ValueError'
            self.open = k[1]
            return 'ok'
        if k[0] == 'end':
            if self.open is None or self.open != k[1]:
                return 'ValueError'
            self.stages.add(k[1])
            self.open = None
            return 'ok'
        if k[0] == 'bake':
            used = set()
            for s in self.steps:
                used |= set(s.split()[1:])
            # eager feasibility of the steps
            feasible = eager_ok(self.steps)
            if not feasible or used != set(self.declared):
                if self.open is not None:
                    # the property does not say whether a *failed* bake leaves the stage open: either is accepted
                    self.ambiguous = True
                return 'ValueError'
            if self.open is not None:
                self.stages.add(self.open)
                self.open = None
            self.locked = True
            return 'ok'
        raise ValueError(op)


def eager_ok(steps):
    A, Bc, P = objs()
    env = {'A': A, 'B': Bc}
    try:
        for s in steps:
            k = s.split()
            if k[0] == 'create':
                env['N'] = Container('N', '10 mL', [(water, '3 mL')])
            elif k[0] == 'transfer':
                env[k[1]], env[k[2]] = Container.transfer(env[k[1]], env[k[2]], '1 mL')
            elif k[0] == 'remove':
                env[k[1]] = env[k[1]].remove(water)
            elif k[0] == 'fill':
                env[k[1]] = env[k[1]].fill_to(water, '15 mL')
    except ValueError:
        return False
    return True


def real_step(r, env, op):
    k = op.split()
    if k[0] == 'uses':
        r.uses(env[k[1]])
    elif k[0] == 'create':
        env['N'] = r.create_container('N', '10 mL', [(water, '3 mL')])
    elif k[0] == 'transfer':
        r.transfer(env[k[1]], env[k[2]], '1 mL')
    elif k[0] == 'remove':
        r.remove(env[k[1]], water)
    elif k[0] == 'fill':
        r.fill_to(env[k[1]], water, '15 mL')
    elif k[0] == 'start':
        r.start_stage(k[1])
    elif k[0] == 'end':
        r.end_stage(k[1])
    elif k[0] == 'bake':
        return r.bake()


def run_sequence(seq):
    A, Bc, P = objs()
    env = {'A': A, 'B': Bc, 'N': Container('N', '10 mL')}
    r = Recipe()
    ref = Ref()
    for i, op in enumerate(seq):
        exp = ref.step(op)
        nsteps = len(r.steps)
        try:
            out = real_step(r, env, op)
            got = 'ok'
        except Exception as e:
            got = type(e).__name__
        if ref.ambiguous and op.split()[0] in ('start', 'end') and got in ('ok', 'ValueError'):
            # resynchronise the reference with whichever choice the implementation made
            ref.open = None if r.current_stage == 'all' else r.current_stage
            ref.stages = set(r.stages)
            ref.ambiguous = False
            continue
        if ref.ambiguous and op == 'bake':
            ref.open = None if r.current_stage == 'all' else r.current_stage
            ref.stages = set(r.stages)
            ref.ambiguous = False
        if got != exp:
            return {'ok': False, 'observed': f"call {i} ({op}): {got}", 'expected': exp, 'class': f"{op.split()[0]}:{exp}->{got}"}
        if got != 'ok' and len(r.steps) != nsteps and op != 'bake':
            return {'ok': False, 'observed': f"call {i} ({op}) refused but changed the number of steps", 'expected': exp,
                    'class': f"{op.split()[0]}:refusal-changed-state"}
        if op == 'bake' and got == 'ok':
            if sorted(out) != sorted(ref.declared):
                return {'ok': False, 'observed': f"bake returned {sorted(out)}", 'expected': sorted(ref.declared),
                        'class': 'bake:names'}
            if r.current_stage != 'all' or not r.locked:
                return {'ok': False, 'observed': 'bake left a stage open / recipe unlocked', 'expected': 'closed, locked',
                        'class': 'bake:lifecycle'}
    return {'ok': True, 'observed': 'as the reference machine'}


def enumerate_sequences(depth):
    count, fails = 0, []
    for n in range(1, depth + 1):
        for seq in itertools.product(ALPHABET, repeat=n):
            # prune: nothing interesting happens before a declaration unless it is a refusal; keep everything up to
            # depth 3, beyond that only sequences containing a bake or a stage operation
            if n > 3 and not any(s in seq for s in ('bake', 'end all', 'start s')):
                continue
            count += 1
            r = run_sequence(list(seq))
            if not r['ok']:
                fails.append({'seq': list(seq), 'observed': r['observed'], 'class': r.get('class', '?')})
    return {'ok': True, 'count': count, 'nfail': len(fails), 'failures': fails[:200]}
