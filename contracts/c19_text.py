"""C19 — Instructions and human-readable quantities state the true amounts.

A. Unit.get_human_readable_unit and Unit.convert_from_storage_to_standard_format against their specification
   `value' * SI(prefix') [base] = the physical amount handed in` — for every unit spelling / substance kind, symbolic value
   (the rescaling loops are bounded by the code's own `multiplier > 1e-6` guard and are unrolled).
B. The instruction line appended by Container.__init__, _transfer, fill_to, dilute, create_solution_from is a structured
   text term; its number (before display rounding) times the SI factor of its unit prefix equals the amount actually
   added / transferred / filled, and the display precision is the configured one for that unit.  In these runs the two
   helpers are used through the contract proved in A (one fork per possible prefix).
Out of reach: the literal characters of the text, `collapse`'s well-range wording, HTML/pandas output.
"""
import json

import z3

from pyvc import vc, spec
from pyvc.values import *   # noqa: F401,F403
from pyvc import builtins_ as B
from pyvc import symcoll
from contracts import clib
from contracts.container_ops import assume_distinct

PID = 'C19'
FUNCTIONS = ['Unit.get_human_readable_unit', 'Unit.convert_from_storage_to_standard_format', 'Container.__init__',
             'Container._transfer', 'Container.fill_to', 'Container.dilute', 'Container.create_solution_from',
             'Recipe.bake', 'PlateSlicer._transfer', 'Container._transfer_slice', 'Slicer.apply']
ASSUMPTIONS = ["A3: f'{x}' of a number prints repr(x) and float(repr(x)) == x",
               "display rounding is the uninterpreted rnd(p, x) with |rnd(p,x) - x| <= 0.5*10^-p"]
EXPLANATION = "helpers proved against their spec; instruction lines as structured terms compared with the true amounts"
TIMEOUT = 20000


def tasks(tier):
    t = [('hr', b) for b in ('L', 'mol', 'g', 'U')]
    t += [('std', k) for k in ('solid', 'liquid', 'enzyme', 'container')]
    t += [('line', 'init', k, u) for k, u in ((1, 'g'), (1, 'mmol'), (2, 'mL'), (2, 'g'), (3, 'U'), (3, 'mg'))]
    t += [('line', 'init-repeat', k, u) for k, u in ((2, 'mL'), (1, 'mg'), (3, 'U'))]
    t += [('line', 'transfer', k, u) for k in ('liquid', 'solid', 'mixed') for u in ('mL', 'mg', 'mmol')]
    t += [('line', 'transfer', k, u) for k in ('solid+enzyme', 'enzyme') for u in ('mg', 'U')]     # liquid-free sources holding an enzyme
    t += [('line', 'fill_to', 2, u) for u in ('mL', 'g', 'mol')]
    t += [('line', 'dilute', 1, 'mol/L'), ('line', 'dilute', 2, 'g/g')]
    t += [('line', 'create_from', 1, 'mL'), ('line', 'create_from', 1, 'g')]
    t += [('bake_line', 'fill_to'), ('bake_line', 'dilute')]
    t.append(('bounded_step_text', 6 if tier != 'thorough' else 40))
    # every well keeps its own preparation text through plate operations (text provenance; contracts/plate_ops.py)
    from contracts import plate_ops as PO
    t += [('plate_text',) + c for c in PO.transfer_cases(tier)]
    from contracts import propsets
    t += propsets.unit_contract_tasks(tier, PID)     # amounts in the text are converted through Unit.convert_from's specification
    t.append(('canaries',))
    return t


def run(kind_, *args):
    return globals()['run_' + kind_](*args)


def run_unit_contract(*args):
    from contracts import propsets
    return propsets.run_unit_contract(PID, *args)


def run_bounded_step_text(n):
    """bounded stand-in (the per-well wording of a plate fill_to step goes through `collapse`, out of the engine's reach):
    native recipes, every stated amount against the amount the well really received"""
    from pyvc import harness
    code = ("from contracts.bake_oracle import plate_fill_text\ndef run():\n    return plate_fill_text(%d)\n" % n)
    out = harness.run_replay({'inputs': {'n': n}, 'code': code}, timeout=600)
    name = f'{PID}/bounded[plate-fill-step-text]'
    bound = f'{n} x 6 recipes with a whole-plate fill_to on a 2x2 plate with unequal wells (whole and fractional display units)'
    if out.get('ok') is None:
        return [{'name': name, 'case': f'n<={n}', 'kind': 'bounded', 'verdict': 'unknown', 'note': str(out.get('error'))[-300:],
                 'count': 0, 'bound': bound, 'secs': 0.0}]
    res = [{'name': name, 'case': f'n<={n}', 'kind': 'bounded', 'verdict': 'proved', 'count': out.get('count', 0), 'bound': bound, 'secs': 0.0}]
    if out.get('ok') is False:
        res.append({'name': name, 'case': 'stated-amount', 'kind': 'bounded', 'verdict': 'refuted', 'count': len(out.get('failures', [])),
                    'bound': bound, 'secs': 0.0, 'note': '; '.join(out.get('failures', [])[:2])[:500],
                    'replays': [{'inputs': {'n': n}, 'code': code}]})
    return res


def run_plate_text(*case):
    from contracts import plate_ops as PO
    return [r for r in PO.run_transfer(PID, *case) if r['kind'] != 'cover']


# ------------------------------------------------------------------------------------------------ A. the helpers
def run_hr(base):
    res = []
    for p in spec.PREFIXES:
        if base == 'U' and p != '':
            continue
        unit = p + base
        v = z3.Real('v')

        def body(I):
            out = vc.call(I, 'Unit.get_human_readable_unit', [v, unit])
            if out.kind != 'return':
                I.oblige(f'safe[{out.exc.cls}]', False, 'property', note=f'{out.exc.cls} at line {out.exc.lineno}')
                return out
            nv, nu = out.value
            ok_unit = isinstance(nu, str)
            try:
                np_, nb = spec.split_unit(nu) if ok_unit else (None, None)
            except ValueError:
                ok_unit = False
            if not ok_unit or nb != base:
                I.oblige('ensures[same-amount]', False, 'property', note=f'returned unit {nu!r} for {unit!r}')
                return out
            absv = z3.If(v >= 0, v, -v)
            I.oblige('ensures[same-amount]', real(nv) * spec.num(spec.SI[np_]) == absv * spec.num(spec.SI[p]), 'property',
                     note=f"value' * SI({np_!r}) {base} = |value| * SI({p!r}) {base}")
            return out

        def replay(mv, ob):
            inputs = {'v': str(mv.get('v')), 'unit': unit}
            code = ("import json\nfrom fractions import Fraction as F\nfrom pyplate import Unit\nfrom pyvc import spec, replaylib as R\n"
                    "J = json.loads(%r)\n"
                    "def run():\n    v = float(F(J['v'])); u = J['unit']\n    nv, nu = Unit.get_human_readable_unit(v, u)\n"
                    "    a = abs(v) * float(spec.SI[spec.split_unit(u)[0]])\n"
                    "    try:\n        b = nv * float(spec.SI[spec.split_unit(nu)[0]])\n"
                    "    except Exception as e:\n        return {'ok': False, 'observed': [nv, nu], 'expected': 'a unit of the grammar'}\n"
                    "    return {'ok': R.close(a, b) and spec.split_unit(nu)[1] == spec.split_unit(u)[1], 'observed': [nv, nu], 'expected': '%r %s' % (a, spec.split_unit(u)[1])}\n"
                    % json.dumps(inputs))
            return [{'inputs': inputs, 'code': code}]
        prefs = [[z3.Or(z3.And(v >= z3.RealVal('1/1000000000'), v <= 1000), z3.And(-v >= z3.RealVal('1/1000000000'), -v <= 1000))]]
        for I, out in vc.explore(body, max_paths=200):
            if isinstance(out, vc.Outcome) and out.kind == 'unsupported':
                res.append(vc.unsupported_result(f'{PID}/Unit.get_human_readable_unit/ensures[same-amount]', unit, out.note))
                continue
            res += vc.discharge(I, f'{PID}/Unit.get_human_readable_unit/', unit, TIMEOUT, {'v': v}, replay, prefer=prefs)
    return clib.dedupe_by_case(res) if hasattr(clib, 'dedupe_by_case') else res


def run_std(what):
    res = []
    q = z3.Real('q')

    def body(I):
        clib.assume_world(I)
        I.assume(q >= 0)
        ms, vs = spec.num(clib.ms_of(I)), spec.num(clib.vs_of(I))
        if what == 'container':
            arg = clib.mk_container(I, 'C', 'finite', wf=False).obj
            true_amt, base = q * vs, 'L'
        else:
            k = {'solid': 1, 'liquid': 2, 'enzyme': 3}[what]
            s = z3.Const('s', Sub)
            I.assume(kind(s) == k)
            arg = SubV(s)
            S = spec.SubSpec(k, mw(s), dens(s), sa(s))
            if k == 3:
                true_amt, base = q, 'U'
            elif k == 1:
                true_amt, base = q * ms * spec.num(spec.factor(S, 'mol', 'g')), 'g'
            else:
                true_amt, base = q * ms * spec.num(spec.factor(S, 'mol', 'L')), 'L'
        out = vc.call(I, 'Unit.convert_from_storage_to_standard_format', [arg, q])
        if out.kind != 'return':
            I.oblige(f'safe[{out.exc.cls}]', False, 'property', note=f'{out.exc.cls} at line {out.exc.lineno}')
            return out
        nv, nu = out.value
        try:
            np_, nb = spec.split_unit(nu)
        except (ValueError, TypeError):
            I.oblige('ensures[same-amount]', False, 'property', note=f'returned unit {nu!r}')
            return out
        I.oblige('ensures[same-amount]', z3.And(nb == base, real(nv) * spec.num(spec.SI[np_]) == true_amt), 'property',
                 note=f"value' * SI(prefix') = the stored quantity expressed in {base}")
        return out
    for I, out in vc.explore(body, max_paths=200):
        if isinstance(out, vc.Outcome) and out.kind == 'unsupported':
            res.append(vc.unsupported_result(f'{PID}/Unit.convert_from_storage_to_standard_format/ensures[same-amount]', what, out.note))
            continue
        res += vc.discharge(I, f'{PID}/Unit.convert_from_storage_to_standard_format/', what, TIMEOUT)
    return clib.dedupe(res)


# ------------------------------------------------------------------------------------------------ B. instruction lines
def hr_precise(I, args, kwargs, node):
    """contract proved in A: same physical amount, prefix one of '', m, u"""
    value, unit = args
    if not (is_num(value) and isinstance(unit, str)):
        raise Unsupported("human readable unit of non-number")
    p, base = spec.split_unit(unit)
    if is_conc_num(value):
        from contracts.unit_summaries import _inline
        return _inline(I, 'Unit.get_human_readable_unit', args, kwargs, node)
    if I.decide(real(value) == 0, 'value == 0'):
        return (value, unit)
    k = I.choose(3, 'human-readable prefix')
    np_ = ('', 'm', 'u')[k]
    absv = z3.If(real(value) >= 0, real(value), -real(value))
    return (absv * spec.num(spec.SI[p]) / spec.num(spec.SI[np_]), np_ + base)


def std_precise(I, args, kwargs, node):
    what, q = args
    ms, vs = spec.num(clib.ms_of(I)), spec.num(clib.vs_of(I))
    if B.is_substance(what):
        t = B.sub_term(I, what)
        if I.decide(kind(t) == 3, 'enzyme'):
            base, amt = 'U', real(q)
        elif I.decide(kind(t) == 1, 'solid'):
            base, amt = 'g', real(q) * ms * mw(t)
        else:
            base, amt = 'L', real(q) * ms * mw(t) / dens(t) / 1000
    else:
        base, amt = 'L', real(q) * vs
    k = I.choose(3, 'standard-format prefix')
    np_ = ('', 'm', 'u')[k]
    return (amt / spec.num(spec.SI[np_]), np_ + base)


def text_contracts():
    c = clib.contracts()
    c['Unit.get_human_readable_unit'] = hr_precise
    c['Unit.convert_from_storage_to_standard_format'] = std_precise
    return c


def numbers_in(text):
    """[(value term before display rounding, precision, following text)] for every number printed in a text term"""
    out = []
    if not isinstance(text, SegStr):
        return out
    ps = text.parts
    for i, p in enumerate(ps):
        if isinstance(p, NumHole):
            v = p.value
            prec = None
            if is_sym(v) and z3.is_app(v) and v.decl().name() == 'rnd':
                prec = v.arg(0).as_long()
                v = v.arg(1)
            after = ps[i + 1] if i + 1 < len(ps) and isinstance(ps[i + 1], str) else ''
            out.append((v, prec, after))
    return out


def unit_after(after):
    tok = after.strip().split(' ')[0].rstrip('.,;') if after.strip() else ''
    try:
        return tok, spec.split_unit(tok)
    except ValueError:
        return tok, None


def check_number(I, name, entry, true_amount, base, note):
    v, prec, after = entry
    tok, su = unit_after(after)
    if su is None or su[1] != base:
        I.oblige(name, False, 'property', note=f"{note}: the line prints the unit {tok!r}, expected a {base} unit")
        return
    want_prec = I.cfg.data['precisions'].get(tok, I.cfg.data['precisions']['default'])
    I.oblige(name, z3.And(real(v) * spec.num(spec.SI[su[0]]) == true_amount, prec == want_prec if prec is not None else True),
             'property', note=f"{note} (printed in {tok}, display precision {prec})")


def run_line(op, k, unit):
    res = []
    case = f"{op}|{k}|{unit}"
    holder = {}

    def body(I):
        clib.assume_world(I)
        ms, vs = spec.num(clib.ms_of(I)), spec.num(clib.vs_of(I))
        if op == 'init-repeat':
            # the same substance listed twice (and another one in between): every item of the line states ITS portion
            s, t = z3.Const('s', Sub), z3.Const('t', Sub)
            I.assume(s != t)
            I.assume(z3.And(kind(s) == k, kind(t) == 1))
            v1, v2, v3 = z3.Real('v1'), z3.Real('v2'), z3.Real('v3')
            I.assume(z3.And(v1 > 0, v2 > 0, v3 > 0))
            o = I.new_obj('Container')
            out = vc.call(I, 'Container.__init__', [o, NameV(z3.Const('nm', Name)), 'inf L',
                                                    [(SubV(s), SegStr([NumHole(v1), ' ', unit])), (SubV(t), SegStr([NumHole(v2), ' ', 'mg'])),
                                                     (SubV(s), SegStr([NumHole(v3), ' ', unit]))]])
            if out.kind != 'return':
                return out
            S = spec.SubSpec(k, mw(s), dens(s), sa(s))
            base = {1: 'g', 2: 'L', 3: 'U'}[k]
            nums = numbers_in(o.fields['instructions'])
            # the line names each substance once, with the TOTAL of it that went into the container
            if len(nums) != 2:
                I.oblige('ensures[line/items]', False, 'property',
                         note=f"{len(nums)} amounts for two substances in {o.fields['instructions']!r:.160} (the stated amounts do not add up to the contents)")
                return out
            I.oblige('ensures[line/items]', True, 'property')
            total = spec.convert_spec(S, v1, unit, base) + spec.convert_spec(S, v3, unit, base)
            check_number(I, 'ensures[line/repeated]', nums[0], total, base,
                         'a substance listed twice: the line states the total of it that was added')
            return out
        if op == 'init':
            s = z3.Const('s', Sub)
            I.assume(kind(s) == k)
            v = z3.Real('v')
            I.assume(v > 0)
            o = I.new_obj('Container')
            out = vc.call(I, 'Container.__init__', [o, NameV(z3.Const('nm', Name)), 'inf L', [(SubV(s), SegStr([NumHole(v), ' ', unit]))]])
            if out.kind != 'return':
                return out
            S = spec.SubSpec(k, mw(s), dens(s), sa(s))
            base = {1: 'g', 2: 'L', 3: 'U'}[k]
            nums = numbers_in(o.fields['instructions'])
            if not nums:
                I.oblige('ensures[line]', False, 'property', note=f"no amount in {o.fields['instructions']!r:.120}")
                return out
            check_number(I, 'ensures[line]', nums[0], spec.convert_spec(S, v, unit, base), base,
                         'the constructor line states the amount added')
            return out
        if op == 'transfer':
            kinds = {'liquid': [2], 'solid': [1], 'mixed': [2, 1], 'solid+enzyme': [1, 3], 'enzyme': [3]}[k]
            keys = [z3.Const(f's{i}', Sub) for i in range(len(kinds))]
            assume_distinct(I, keys)
            for s, kk in zip(keys, kinds):
                I.assume(kind(s) == kk)
            S = clib.mk_container(I, 'S', 'inf', keys, [True] * len(keys))
            T = clib.mk_container(I, 'T', 'inf', keys, [False] * len(keys))
            for s in keys:
                I.assume(S.amt[s] > 0)
            q = z3.Real('q')
            p, b = spec.split_unit(unit)
            qbase = q * spec.num(spec.SI[p])
            mS = clib.finite_measure(I, clib.BASE_WS[b], keys, S.amt)
            I.assume(z3.And(q > 0, qbase <= mS))
            out = vc.call(I, 'Container._transfer', [T.obj, S.obj, SegStr([NumHole(q), ' ', unit])])
            if out.kind != 'return':
                return out
            src, to = out.value
            r = qbase / mS
            nums = numbers_in(to.fields['instructions'])
            if not nums:
                I.oblige('ensures[line]', False, 'property', note='no amount in the transfer line')
                return out
            if 2 in kinds:
                check_number(I, 'ensures[line]', nums[-1], r * clib.finite_measure(I, 'vol', keys, S.amt), 'L',
                             'the transfer line states the transferred volume')
            else:
                check_number(I, 'ensures[line]', nums[-1], r * clib.finite_measure(I, 'mass', keys, S.amt), 'g',
                             'the transfer line states the transferred mass')
            return out
        if op == 'fill_to':
            s = z3.Const('s0', Sub)
            I.assume(kind(s) == 2)
            C = clib.mk_container(I, 'C', 'inf', [s], [True])
            q = z3.Real('q')
            p, b = spec.split_unit(unit)
            qbase = q * spec.num(spec.SI[p])
            cur = clib.finite_measure(I, clib.BASE_WS[b], [s], C.amt)
            I.assume(z3.And(q > 0, qbase > cur, C.amt[s] >= 0))
            out = vc.call(I, 'Container.fill_to', [C.obj, SubV(s), SegStr([NumHole(q), ' ', unit])])
            if out.kind != 'return':
                return out
            S_ = spec.SubSpec(2, mw(s), dens(s), sa(s))
            nums = numbers_in(out.value.fields['instructions'])
            if not nums:
                I.oblige('ensures[line]', False, 'property', note='no amount in the fill line')
                return out
            check_number(I, 'ensures[line]', nums[-1], (qbase - cur) * spec.num(spec.factor(S_, b, 'L')), 'L',
                         'the fill line states the volume of solvent added')
            return out
        if op == 'dilute':
            solute, solvent = z3.Const('solute', Sub), z3.Const('solvent', Sub)
            assume_distinct(I, [solute, solvent])
            I.assume(kind(solute) == k)
            I.assume(kind(solvent) == 2)
            C = clib.mk_container(I, 'C', 'inf', [solute, solvent], [True, True])
            I.assume(z3.And(C.amt[solute] > 0, C.amt[solvent] > 0))
            c = z3.Real('c')
            I.assume(c > 0)
            out = vc.call(I, 'Container.dilute', [C.obj, SubV(solute), SegStr([NumHole(c), ' ', unit]), SubV(solvent)])
            if out.kind != 'return':
                return out
            r = out.value
            if r is C.obj or r.fields['instructions'] is C.obj.fields['instructions']:
                return out
            added = None
            for kk, a in r.fields['contents'].items():
                if kk.term.eq(solvent):
                    added = real(a) - C.amt[solvent]
            S_ = spec.SubSpec(2, mw(solvent), dens(solvent), sa(solvent))
            nums = numbers_in(r.fields['instructions'])
            if not nums or added is None:
                return out
            check_number(I, 'ensures[line]', nums[-1], added * ms * spec.num(spec.factor(S_, 'mol', 'L')), 'L',
                         'the dilute line states the volume of solvent added')
            return out
        if op == 'create_from':
            solute, solvent = z3.Const('solute', Sub), z3.Const('solvent', Sub)
            assume_distinct(I, [solute, solvent])
            I.assume(kind(solute) == 1)
            I.assume(kind(solvent) == 2)
            S = clib.mk_container(I, 'S', 'inf', [solute, solvent], [True, True])
            I.assume(z3.And(S.amt[solute] > 0, S.amt[solvent] > 0))
            c, q = z3.Real('c'), z3.Real('q')
            I.assume(z3.And(c > 0, q > 0))
            from contracts import solutions as SOL
            out = vc.call(I, 'Container.create_solution_from', [S.obj, SubV(solute), SegStr([NumHole(c), ' ', 'mol/L']),
                                                                 SubV(solvent), SegStr([NumHole(q), ' ', unit]),
                                                                 NameV(z3.Const('nn', Name))])
            if out.kind != 'return':
                return out
            src2, sol = out.value
            nums = numbers_in(sol.fields['instructions'])
            if len(nums) < 2:
                I.oblige('ensures[line]', False, 'property', note='the line does not state both amounts')
                return out
            # "Add y mL of solvent to x mL of source": x = volume drawn from the stock, y = volume of pure solvent added
            drawn = clib.finite_measure(I, 'vol', [solute, solvent], S.amt) - \
                clib.finite_measure(I, 'vol', [solute, solvent], {kk.term: real(a) for kk, a in src2.fields['contents'].items()})
            check_number(I, 'ensures[line/source]', nums[1], drawn, 'L', 'the line states the volume taken from the stock')
            return out
        raise ValueError(op)

    ctr = text_contracts()
    if op == 'create_from':
        from contracts import solutions as SOL
        ctr['Container._transfer'] = SOL.mod_transfer
        ctr['Container.__init__'] = SOL.mod_init
    for I, out in vc.explore(body, contracts=ctr, max_paths=600):
        if isinstance(out, vc.Outcome) and out.kind == 'unsupported':
            res.append(vc.unsupported_result(f'{PID}/instructions/unsupported', case, out.note))
            continue
        res += vc.discharge(I, f'{PID}/instructions/{op}/', case, TIMEOUT)
    return clib.dedupe(res)


def run_canaries():
    res = []
    v = z3.Real('v')

    def body(I):
        I.assume(z3.And(v > 0, v < 1))
        out = vc.call(I, 'Unit.get_human_readable_unit', [v, 'L'])
        if out.kind != 'return':
            return out
        nv, nu = out.value
        I.oblige('canary[value-unchanged]', real(nv) == v, 'canary-false')
        I.oblige('canary[trivial]', v + 1 > v, 'canary-true')
        return out
    for I, out in vc.explore(body):
        res += [r for r in vc.discharge(I, f'{PID}/Unit.get_human_readable_unit/', 'canary', TIMEOUT) if r['kind'].startswith('canary')]
    return clib.dedupe(res)


def run_bake_line(op):
    """The instruction of a baked dilute / fill_to step on a container states the volume of solvent the step added:
    (amount after the step) - (amount BEFORE THE STEP, i.e. in the current state, not in the declaration-time object)."""
    from contracts import bake as BK
    res = []

    def body(I):
        cx = BK.setup(I)
        st = cx.st
        I.__dict__['event_failures'] = False
        w = SubV(z3.Const('water', Sub))
        salt = SubV(z3.Const('salt', Sub))
        for s_, consts in ((salt.term, (1, '5844/100', '1')), (w.term, (2, '180153/10000', '1'))):
            I.assume(z3.And(kind(s_) == consts[0], mw(s_) == z3.RealVal(consts[1]), dens(s_) == z3.RealVal(consts[2])))
        ua, ca, na = BK.declare(I, cx, 'A', 'container')
        q = SegStr([NumHole(z3.Real('q')), ' ', 'mL'])
        if op == 'fill_to':
            out = vc.call(I, 'Recipe.fill_to', [st.obj, ua, w, q])
        else:
            out = vc.call(I, 'Recipe.dilute', [st.obj, ua, salt, '0.5 M', w, None])
        if out.kind != 'return':
            return out
        step = st.steps.appended[-1]
        out = vc.call(I, 'Recipe.bake', [st.obj])
        if out.kind != 'return':
            return out
        post = BK.results_value(I, st, na)
        first = [e for e in BK.log(I) if e.kind.endswith(op)][0].outputs[0]
        ms = spec.num(clib.ms_of(I))
        nums = numbers_in(step.fields['instructions'])
        if not nums:
            I.oblige('ensures[line]', False, 'property', note=f"no amount in {step.fields['instructions']!r:.150}")
            return out
        held = lambda c_: z3.If(c_.fields['contents'].mem[w.term], c_.fields['contents'].amt[w.term], 0)      # noqa: E731
        added = held(first) - held(ca)
        I.assume(added >= 0)      # contract of dilute / fill_to (C11 only-solvent): the solvent never decreases
        S_ = spec.SubSpec(2, mw(w.term), dens(w.term), sa(w.term))
        # the amount printed is the last number of the line ("... by adding <v> <unit> ...")
        entry = [n for n in nums if unit_after(n[2])[1] is not None][-1]
        check_number(I, 'ensures[line]', entry, added * ms * spec.num(spec.factor(S_, 'mol', 'L')), 'L',
                     'the step instruction states the volume of solvent the step added to the current state')
        return out
    ctr = BK.contracts()
    ctr['Unit.get_human_readable_unit'] = hr_precise
    ctr['Unit.convert_from_storage_to_standard_format'] = std_precise
    for I, out in vc.explore(body, contracts=ctr, max_paths=300):
        if isinstance(out, vc.Outcome) and out.kind == 'unsupported':
            res.append(vc.unsupported_result(f'{PID}/instructions/unsupported', f'bake:{op}', out.note))
            continue
        res += vc.discharge(I, f'{PID}/instructions/bake/', f'bake:{op}', TIMEOUT)
    return clib.dedupe(res)
