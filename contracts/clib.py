"""Shared vocabulary for the container-level contracts (DESIGN §4.2): symbolic containers, the representation
invariant wf, the abstraction measures, Sigma-algebra hint instances, and concretisation for replay."""
import itertools
import json
from fractions import Fraction

import z3

from pyvc import vc, spec, solve
from pyvc.values import *   # noqa: F401,F403
from pyvc import symcoll
from pyvc.symcoll import SymMap, WS, ArrR, ArrB
from contracts import unit_summaries

X = z3.Const('x!q', Sub)


def cfg_of(I):
    return I.cfg.data


def ms_of(I):
    return spec.SI[spec.split_unit(I.cfg.data['moles_storage_unit'])[0]]


def vs_of(I):
    return spec.SI[spec.split_unit(I.cfg.data['volume_storage_unit'])[0]]


def assume_world(I):
    """Every substance satisfies the type invariant of the three factories (positive constants)."""
    old = I.cur_tag
    I.cur_tag = 'world'
    I.assume(z3.ForAll([X], symcoll.sub_wf_term(X)))
    I.cur_tag = old


class CState:
    """Handle on a symbolic container object plus the terms of its initial state."""

    def __init__(self, obj, amt, mem, volume, cap, name):
        self.obj, self.amt, self.mem, self.volume, self.cap, self.name = obj, amt, mem, volume, cap, name


def mk_container(I, tag, cap='finite', finite_keys=None, present=None, wf=True):
    """A symbolic Container argument (non-fresh).  cap: 'inf' | 'finite'.
    finite_keys: list of Sub terms -> contents is an explicit dict over those present (finite instantiation)."""
    o = I.new_obj('Container', fresh_=False, tag=tag)
    name = NameV(z3.Const(f'name_{tag}', Name))
    vol = z3.Real(f'vol_{tag}')
    capv = INF if cap == 'inf' else z3.Real(f'cap_{tag}')
    vs, ms = vs_of(I), ms_of(I)
    if finite_keys is None:
        m = SymMap(tag=tag)
        m.owner = o
        amt, mem = m.amt, m.mem
        contents = m
        if wf:
            I.assume(m.wf())
            I.assume(vol * spec.num(vs) == WS['vol'](amt))
            for k in WS:
                I.assume(WS[k](amt) >= 0)          # Sigma-pos (Lean: Sigma.lean sum_nonneg) under amt >= 0, weights >= 0
    else:
        contents = {}
        amt, mem = {}, {}
        total_vol = z3.RealVal(0)
        for s, p in zip(finite_keys, present):
            mem[s] = p
            if p:
                a = z3.Real(f'a_{tag}_{s}')
                amt[s] = a
                contents[SubV(s)] = a
                if wf:
                    I.assume(a >= 0)
                total_vol = total_vol + symcoll.weight('vol', s, ms) * a
            else:
                amt[s] = z3.RealVal(0)
        from pyvc.builtins_ import declare_owner
        declare_owner(I, contents, o, 'contents')
        if wf:
            I.assume(vol * spec.num(vs) == total_vol)
    if wf:
        I.assume(vol >= 0)
        if cap != 'inf':
            I.assume(capv > 0)
            I.assume(vol <= capv)
    o.fields.update(name=name, contents=contents, volume=vol, max_volume=capv,
                    instructions=SegStr([OpaqueHole(f'instructions of {tag}', {f'text:{tag}'})]), experimental_conditions={})
    init_defaults(I, o)
    return CState(o, amt, mem, vol, capv, name)


def finite_measure(I, k, keys, amtdict):
    ms = ms_of(I)
    t = z3.RealVal(0)
    for s in keys:
        t = t + symcoll.weight(k, s, ms) * amtdict[s]
    return t


def contents_terms(c):
    """(amt, mem) of a container object as it is now (arrays for SymMap, dicts for finite)."""
    m = c.fields['contents']
    if isinstance(m, SymMap):
        return m.amt, m.mem
    return m, None


BASE_WS = {'L': 'vol', 'g': 'mass', 'mol': 'mol', 'U': 'act'}


def lin_hint(k, c, a, b, al, be):
    """Sigma-lin instance: (forall x. c[x] = al*a[x] + be*b[x]) => WS_k(c) = al*WS_k(a) + be*WS_k(b)."""
    return z3.Implies(z3.ForAll([X], c[X] == al * a[X] + be * b[X]), WS[k](c) == al * WS[k](a) + be * WS[k](b))


def point_hint(I, k, a, s, v):
    """Sigma-point instance: WS_k(Store(a, s, v)) = WS_k(a) + W_k(s) * (v - a[s])."""
    return WS[k](z3.Store(a, s, v)) == WS[k](a) + symcoll.weight(k, s, ms_of(I)) * (v - a[s])


def contracts():
    return dict(unit_summaries.MODULAR)


# ------------------------------------------------------------------------------------------------ replay helpers
REPLAY_HEAD = ("import json\nfrom fractions import Fraction as F\nfrom pyvc import replaylib as R, spec\n"
               "from pyplate import Unit, Substance, Container, Plate, Recipe\nJ = json.loads({inputs!r})\n")

MK_CONTAINERS = r'''
def mk_sub(d, name):
    return R.mksub(d['kind'], d.get('mw'), d.get('dens'), d.get('sa'), name)
def mk_container(spec_, subs, name):
    ic = []
    for key, amt in spec_['contents'].items():
        s = subs[key]
        ic.append((s, '%r %s' % (float(F(amt)), 'U' if s.is_enzyme() else STORAGE_MOL)))
    cap = spec_.get('cap')
    if cap is None:
        return Container(name, initial_contents=ic or None)
    return Container(name, '%r %s' % (float(F(cap)), STORAGE_VOL), ic or None)
import pyplate.pyplate as _pp
STORAGE_MOL = _pp.config.moles_storage_unit
STORAGE_VOL = _pp.config.volume_storage_unit
def amounts(c):
    return {s.name: v for s, v in c.contents.items()}
'''


def model_subs(mv, keys):
    out = {}
    for s in keys:
        out[str(s)] = {'kind': int(mv[f'kind_{s}']), 'mw': str(mv[f'mw_{s}']), 'dens': str(mv[f'dens_{s}']),
                       'sa': str(mv[f'sa_{s}'])}
    return out


def sub_inputs(keys):
    d = {}
    for s in keys:
        d[f'kind_{s}'] = kind(s)
        d[f'mw_{s}'] = mw(s)
        d[f'dens_{s}'] = dens(s)
        d[f'sa_{s}'] = sa(s)
    return d


def presence_patterns(nkeys, maps=2):
    """All membership patterns of `maps` maps over nkeys keys where every key occurs in at least one map."""
    pats = []
    for bits in itertools.product([True, False], repeat=nkeys * maps):
        rows = [bits[i * nkeys:(i + 1) * nkeys] for i in range(maps)]
        if all(any(r[j] for r in rows) for j in range(nkeys)):
            pats.append(rows)
    return pats


def nice_model_prefs(keys, amounts, scalars):
    """Preference constraints for counter-models that survive the library's 10-digit internal rounding: physical
    constants and amounts of moderate magnitude (tried from strict to loose; the unconstrained model is the last
    resort)."""
    def rng(t, lo, hi):
        return z3.And(t >= lo, t <= hi)
    out = []
    for (alo, ahi, qlo) in ((1, 100000, z3.RealVal('1/100')), (z3.RealVal('1/100'), 10 ** 7, z3.RealVal('1/10000'))):
        cs = []
        for s in keys:
            cs += [rng(mw(s), 10, 300), rng(dens(s), z3.RealVal('1/2'), 2), rng(sa(s), 1, 1000)]
        for a in amounts:
            cs.append(z3.Or(a == 0, rng(a, alo, ahi)))
        for q in scalars:
            cs.append(z3.Or(q == 0, rng(q, qlo, 10 ** 5), rng(-q, qlo, 10 ** 5)))
        out.append(cs)
    return out


_INIT_CONSTS = {}


def init_defaults(I, obj):
    """attributes that the real __init__ sets to a constant (None, 0, '', True ...) and that a hand-built symbolic object
    does not carry: objects reachable in CPython always went through __init__, so they have them"""
    import ast as _ast
    cname = obj.cls.name
    if cname not in _INIT_CONSTS:
        consts = {}
        try:
            node = I.repo.find(f'{cname}.__init__')
            for st in node.body:
                if isinstance(st, _ast.AnnAssign) and st.value is not None:          # self.x: T = value
                    st = _ast.Assign(targets=[st.target], value=st.value)
                if isinstance(st, _ast.Assign) and len(st.targets) == 1 and isinstance(st.targets[0], _ast.Attribute) \
                        and isinstance(st.targets[0].value, _ast.Name) and st.targets[0].value.id == 'self' \
                        and isinstance(st.value, _ast.Constant):
                    consts[st.targets[0].attr] = st.value.value
                elif isinstance(st, _ast.Assign) and len(st.targets) == 1 and isinstance(st.targets[0], _ast.Attribute) \
                        and isinstance(st.targets[0].value, _ast.Name) and st.targets[0].value.id == 'self' \
                        and st.targets[0].attr.startswith('_') and _empty_container(st.value) is not None:
                    # a private memo field initialised to an EMPTY container: every object starts with its own empty one
                    consts[st.targets[0].attr] = _EmptyOf(_empty_container(st.value))
        except KeyError:
            pass
        _INIT_CONSTS[cname] = consts
    for k, v in _INIT_CONSTS[cname].items():
        if k not in obj.fields:
            obj.fields[k] = v.make() if isinstance(v, _EmptyOf) else v
    return obj


class _EmptyOf:
    def __init__(self, kind_):
        self.kind = kind_

    def make(self):
        from pyvc.builtins_ import SetV
        return {'dict': dict, 'list': list, 'set': SetV}[self.kind]()


def _empty_container(e):
    import ast as _ast
    if isinstance(e, _ast.Dict) and not e.keys:
        return 'dict'
    if isinstance(e, _ast.List) and not e.elts:
        return 'list'
    if isinstance(e, _ast.Call) and isinstance(e.func, _ast.Name) and e.func.id in ('dict', 'list', 'set') and not e.args and not e.keywords:
        return e.func.id
    return None


def native_fallback(res, name, case, jobs, which_pid_serves=None):
    """some path of this case uses a construct the engine cannot follow, so nothing is proved for it (the `unsupported`
    result stays and makes the check UNDECIDED at best); the replay scenario of the case is still executed on the real
    code, and a misbehaviour there is a concrete failing input, reported as a refutation with its replay"""
    if not any(r['verdict'] == 'unsupported' for r in res):
        return res
    from pyvc import harness
    for job in jobs:
        out = harness.run_replay(job)
        if out.get('ok') is False:
            res.append({'name': name, 'case': case, 'kind': 'property', 'verdict': 'refuted', 'independent': True, 'secs': 0.0,
                        'backend': 'native run of the replay scenario (engine: unsupported construct)',
                        'note': str(out.get('observed'))[:400], 'replays': [job]})
            break
    return res


# ---- observers with a history: the arguments have already been asked (memoised answers exist) when the operation runs,
# and the results must answer by definition
_ANY_LIQ = None


def prequery(I, *objs):
    """the caller has already used the observers of these objects (so any memoised answer is in place)"""
    for o in objs:
        if isinstance(o, Obj) and o.cls.name == 'Container':
            vc.call(I, 'Container.has_liquid', [o])
            vc.call(I, 'Container.get_substances', [o])


def oblige_observers(I, label, obj):
    """has_liquid() of a result = `any substance of ITS contents is a liquid` (evaluated by the engine on the result's own
    contents with the library's own generator expression)"""
    global _ANY_LIQ
    import ast as _ast
    from pyvc.interp import Env
    if _ANY_LIQ is None:
        _ANY_LIQ = _ast.parse("any(substance.is_liquid() for substance in c)", mode='eval').body
    got = vc.call(I, 'Container.has_liquid', [obj])
    if got.kind != 'return':
        I.oblige(f'observers[has_liquid/{label}]', False, 'property', note=f'has_liquid raised {got.exc.cls}')
        return
    env = Env(None, I.globals)
    env.set('c', obj.fields['contents'])
    want = I.ev(_ANY_LIQ, env)
    I.oblige(f'observers[has_liquid/{label}]', boolz(got.value) == boolz(want), 'property',
             note=f'has_liquid() of the {label} is stale: it does not answer for its own contents')
    # get_substances() of a result = the key set of ITS contents
    from pyvc.symcoll import SymSubSet, SymMap
    from pyvc.builtins_ import SetV
    got = vc.call(I, 'Container.get_substances', [obj])
    if got.kind != 'return':
        I.oblige(f'observers[get_substances/{label}]', False, 'property', note=f'get_substances raised {got.exc.cls}')
        return
    cont, v = obj.fields['contents'], got.value
    x = z3.Const('x!gs', Sub)
    if isinstance(v, SymSubSet) and isinstance(cont, SymMap):
        I.oblige(f'observers[get_substances/{label}]', v.mem[x] == cont.mem[x], 'property',
                 note=f'get_substances() of the {label} is stale: it does not list the keys of its own contents')
    elif isinstance(v, SetV) and isinstance(cont, dict):
        I.oblige(f'observers[get_substances/{label}]', {str(getattr(k_, 'term', k_)) for k_ in v.items} == {str(getattr(k_, 'term', k_)) for k_ in cont},
                 'property', note=f'get_substances() of the {label} is stale: it does not list the keys of its own contents')
    else:
        raise Unsupported(f'get_substances() returned {type(v).__name__} for contents {type(cont).__name__}')


# Callee contracts a property RELIES on (modular verification: a caller is checked against the callee's contract, so the
# check of the caller's property re-discharges the clauses of that contract it uses; a change inside the callee that
# breaks one of them is then reported under every property that depends on it, not only under the callee's own).
_TRANSFER_CONTRACT = ('conserve', 'uniform', 'size', 'nothing-moved', 'cap', 'refuse', 'accept', 'safe', 'vol', 'nonneg')
_INIT_CONTRACT = ('nonneg', 'cap', 'refuse', 'accept', 'safe', 'vol', 'contents')
DEPENDS = {
    'C12': {'Container._transfer': _TRANSFER_CONTRACT, 'Container.__init__': _INIT_CONTRACT},     # mod_transfer / mod_init
    'C05': {'Container._transfer': _TRANSFER_CONTRACT, 'Container.__init__': _INIT_CONTRACT},
    'C02': {'Container._transfer': ('vol',)},    # chains of transfers: the next transfer's size relies on volume = sum
    'C03': {'Container._transfer': ('vol',), 'Container.remove': ('vol',), 'Container._add': ('vol',),
            'Container.fill_to': ('vol',), 'Container.__init__': ('vol',)},    # capacity checks and refusals by volume compare with the STORED volume
}


# ================================================================================================ generic operation contracts
class Op:
    """A function under contract.  Subclasses provide setup / invoke / emit and, for refutation, finite configurations
    with a replay builder.  run_op() does: explore all paths on symbolic maps of arbitrary size and discharge with a
    short budget; send what is not proved to the finite-instantiation search (explicit key sets) where counterexamples
    are concrete and replayable; retry the rest with the full budget and fallback solvers."""
    FN = '?'
    PROPS_OF = {}
    TIMEOUT = 30000
    MAX_PATHS = 800

    def case_name(self, case):
        return '|'.join(str(c) for c in case)

    def setup(self, I, case, finite=None):
        raise NotImplementedError

    def invoke(self, I, st, case):
        raise NotImplementedError

    def emit(self, I, out, st, case, finite=None):
        raise NotImplementedError

    def finite_configs(self, case, nmax):
        return []

    def inputs(self, I, st, case, finite):
        return {}

    def prefs(self, I, st, case, finite):
        return None

    def replay(self, mv, st, case, finite, clause):
        return []

    def keep(self, I, pid):
        """the obligations of this path that serve `pid`; a property clause that serves NO property at all is a bug in
        the clause table (it would be dropped silently from every check): fail loudly instead"""
        allp = {p for ps in self.PROPS_OF.values() for p in ps}
        for ob in I.obls:
            if ob.kind == 'property' and not any(self.serves(ob.name, p) for p in allp):
                raise RuntimeError(f"clause {ob.name!r} of {self.FN} is mapped to no property (PROPS_OF)")
        return [ob for ob in I.obls if ob.kind in ('aux', 'cover') or self.serves(ob.name, pid)]

    def clause_of(self, name):
        """last path component of an obligation name; a '/' inside [...] (e.g. ensures[conc/0]) is not a separator"""
        head, br, tail = name.partition('[')
        return head.split('/')[-1] + br + tail

    def serves(self, name, pid):
        if pid is None:
            return True
        cl = self.clause_of(name)
        dep = DEPENDS.get(pid, {}).get(self.FN, ())
        for key, pids in self.PROPS_OF.items():
            if cl == key or cl.startswith(key + '[') or cl.startswith(key + '/') or f'[{key}' in cl:
                if pid in pids or key in dep:
                    return True
        return False


def ladder(I, ob, hyps):
    tags = I.hyp_tags[:ob.nhyps] + ['extra'] * len(ob.extra)
    first = [h for h, t in zip(hyps, tags) if t != 'enum']
    rest = [h for h, t in zip(hyps, tags) if t == 'enum']
    return [first, rest] if rest else [first]


def dedupe(res):
    order = {'refuted': 0, 'unknown': 1, 'unsupported': 1, 'unsat': 2, 'proved': 3, 'sat': 3}
    best, count = {}, {}
    for r in res:
        k = (r['name'], r['kind'])
        count[k] = count.get(k, 0) + 1
        if k not in best or order.get(r['verdict'], 1) < order.get(best[k]['verdict'], 1):
            if k in best:
                r['secs'] = r.get('secs', 0) + best[k].get('secs', 0)
            best[k] = r
        else:
            best[k]['secs'] = best[k].get('secs', 0) + r.get('secs', 0)
    out = []
    for k, r in best.items():
        r['paths'] = count[k]
        out.append(r)
    return out


def run_op(op, pid, case, finite_max=2):
    cname = op.case_name(case)
    ctr = contracts()
    pre = f'{op.FN}/'

    def body(I):
        st = op.setup(I, case)
        I.oblige('cover', True, 'cover')
        out = op.invoke(I, st, case)
        op.emit(I, out, st, case)
        I.obls = op.keep(I, pid)
        return out

    def one_pass(timeout, only, fallbacks):
        res = []
        for I, out in vc.explore(body, contracts=ctr, max_paths=op.MAX_PATHS):
            if isinstance(out, vc.Outcome) and out.kind == 'unsupported':
                res.append(vc.unsupported_result(f'{pre}unsupported', cname, out.note))
                res += [r for r in vc.definite_results(I, pre, cname) if op.serves(r['name'], pid)]
                continue
            res += vc.discharge(I, pre, cname, timeout, ladder=ladder, only=only, fallbacks=fallbacks)
        return dedupe(res)
    res = one_pass(4000, None, False)
    if any(r['name'].endswith('/unsupported') for r in res):
        # the body uses a construct the unbounded evaluation cannot follow (so nothing is proved for this case); the
        # finite instantiation executes the same AST on explicit key sets and can still REFUTE: a counterexample found
        # there is a concrete input and is reported (and replayed) as such
        have = {r['name'] for r in res}
        for name, hit in finite_search(op, case, None, max(finite_max, 2), pid).items():
            if name not in have:
                res.append(dict(hit, independent=True, backend='z3api (finite instantiation)',
                                note=((hit.get('note') or '') + ' [unbounded run unsupported; refuted on an explicit key set]')[:600]))
    failing = [r for r in res if r['kind'] in ('property', 'aux') and r['verdict'] != 'proved'
               and not r['name'].endswith('/unsupported') and not r.get('independent')]
    if failing:
        names = {r['name'] for r in failing if r['kind'] == 'property'}
        if any(r['kind'] == 'aux' for r in failing):
            # a loop invariant / helper obligation does not hold for this body: the unbounded argument is void, so
            # every property clause of the case goes to the finite-instantiation search
            names |= {r['name'] for r in res if r['kind'] == 'property'}
            failing = failing + [r for r in res if r['kind'] == 'property' and r not in failing]
        fin = finite_search(op, case, names, finite_max, pid)
        retry = set()
        for r in failing:
            hit = fin.get(r['name'])
            if hit:
                r['verdict'] = 'refuted'
                r['independent'] = True      # found without invariants/hints: stands whatever the aux obligations say
                r['model'] = hit.get('model')
                r['replays'] = hit.get('replays', [])
                r['backend'] = 'z3api (finite instantiation)'
                r['note'] = ((r.get('note') or '') + ' | ' + (hit.get('note') or ''))[:600]
            elif r['verdict'] != 'proved':
                retry.add(r['name'])
        if fin:
            # concrete counterexamples exist: no point in spending the long budget on the remaining obligations
            for r in failing:
                if r['name'] in retry and r['verdict'] == 'refuted':
                    r['verdict'] = 'unknown'
            retry = set()
        if retry:
            again = {r['name']: r for r in one_pass(op.TIMEOUT, retry, True) if r['name'] in retry}
            for r in failing:
                if r['name'] in again:
                    a = again[r['name']]
                    r.update({k: a[k] for k in ('verdict', 'secs', 'backend') if k in a})
                    if r['verdict'] == 'refuted':
                        r['verdict'] = 'unknown'
                        r['note'] = (r.get('note') or '') + ' [sat on the quantified formula, no finite witness]'
    if pid is not None:
        res = [dict(r, name=f'{pid}/' + r['name']) for r in res]
    return res


def finite_search(op, case, names, nmax, pid=None):
    found = {}
    if names is not None and not names:
        return found
    ctr = contracts()
    cname = op.case_name(case)
    pre = f'{op.FN}/'
    import time as _time
    t0 = _time.time()
    for fin in op.finite_configs(case, nmax):
        if found and _time.time() - t0 > 25:
            break
        if _time.time() - t0 > 120:
            break

        def body(I, fin=fin):
            I.__dict__['text_forks'] = False
            st = op.setup(I, case, finite=fin)
            out = op.invoke(I, st, case)
            op.emit(I, out, st, case, finite=fin)
            I.__dict__['_st'] = st
            return out
        for I, out in vc.explore(body, contracts=ctr, max_paths=400):
            if isinstance(out, vc.Outcome) and out.kind in ('unsupported', 'end'):
                continue
            st = I.__dict__['_st']
            inputs = op.inputs(I, st, case, fin)

            def replay(mv, ob, st=st, fin=fin):
                return op.replay(mv, st, case, fin, ob.name)
            only = None if names is None else {n for n in names if n not in found}
            for r in vc.discharge(I, pre, cname, 10000, inputs, replay, prefer=op.prefs(I, st, case, fin), only=only):
                if names is None and not op.serves(r['name'], pid):
                    continue
                if (names is None or r['name'] in names) and r['name'] not in found and r['verdict'] == 'refuted' \
                        and r['kind'] == 'property':
                    found[r['name']] = r
        if names is not None and names <= set(found):
            break
    return found
