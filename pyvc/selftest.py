"""setup_cmd: imports, solver versions, repository parse, one proof and one refutation.  Builds and fetches nothing."""
import os
import sys


def main():
    import z3
    from . import vc, solve, harness
    print("z3", z3.get_version_string(), "| cvc5 cli:", os.path.exists(solve.CVC5), "| z3 cli:", os.path.exists(solve.Z3CLI))
    r = vc.repo()
    print("parsed", {k: len(m.classes) for k, m in r.modules.items()}, "classes; config", r.config_data.get('moles_storage_unit'),
          r.config_data.get('volume_storage_unit'))
    x = z3.Real('x')
    v1 = solve.prove([x > 0], x * 2 > 0, 5000)[0]
    v2 = solve.prove([x > 0], x * 2 > 1, 5000)[0]
    out = harness.run_replay({'code': "def run():\n    import pyplate\n    return {'ok': True, 'observed': pyplate.__file__}\n"})
    print("proof:", v1, "| refutation:", v2, "| replay runner:", out)
    ok = v1 == 'proved' and v2 == 'refuted' and out.get('ok') is True
    print("selftest", "OK" if ok else "FAILED")
    return 0 if ok else 3


if __name__ == '__main__':
    sys.exit(main())
