"""Symbolic interpreter for the Python subset used by PyPlate.

Mixed concrete/symbolic: concrete values are ordinary Python values handled with
CPython's own operators; symbolic values are z3 terms (numbers, booleans) or the
classes of `values` / `symcoll`.  Paths are enumerated by re-execution under a
decision schedule (no state copying).
"""
import ast
import math
from fractions import Fraction

import z3

from .values import *   # noqa: F401,F403
from . import values as V


class Env:
    def __init__(self, parent=None, vars=None):
        self.vars = vars if vars is not None else {}
        self.parent = parent
        self.nonlocals = set()

    def lookup(self, name):
        e = self
        while e is not None:
            if name in e.vars:
                return e.vars[name]
            e = e.parent
        raise KeyError(name)

    def has(self, name):
        e = self
        while e is not None:
            if name in e.vars:
                return True
            e = e.parent
        return False

    def set(self, name, value):
        if name in self.nonlocals:
            e = self.parent
            while e is not None:
                if name in e.vars:
                    e.vars[name] = value
                    return
                e = e.parent
        self.vars[name] = value


_quant_cache = {}


def has_quantifier(e):
    stack = [e]
    seen = set()
    while stack:
        t = stack.pop()
        i = t.get_id()
        if i in seen:
            continue
        seen.add(i)
        if z3.is_quantifier(t) and not t.is_lambda():
            return True
        stack.extend(t.children())
    return False


class MergeAbort(Exception):
    """Merge-mode evaluation met something it cannot merge (a real fork, an exception, a side effect)."""


class Obligation:
    def __init__(self, name, goal, kind, nhyps, extra=None, lineno=None, note=None):
        self.name = name
        self.goal = goal
        self.kind = kind          # 'property' | 'aux' | 'cover' | 'canary'
        self.nhyps = nhyps        # number of hypotheses (prefix of interp.hyps) in force
        self.extra = extra or []  # extra hypotheses (hints)
        self.lineno = lineno
        self.note = note


class Interp:
    MAX_DEPTH = 40

    def __init__(self, repo, schedule=(), contracts=None, cfg=None, feas_timeout_ms=1500, _no_realize=False):
        self.repo = repo
        self.schedule = list(schedule)
        self.taken = []
        self.pending = []
        self.hyps = []
        self.obls = []
        self.solver = z3.Solver()
        self.solver.set('timeout', feas_timeout_ms)
        self.contracts = contracts or {}
        self.cfg = ConfigV(repo.config_data if cfg is None else cfg)
        self._raw_cfg = repo.config_data if cfg is None else cfg
        self.depth = 0
        self.writes = []          # heap writes to non-fresh objects: (obj, field, lineno, qual)
        self.trace = []           # branch decisions as text
        self.solver_calls = 0
        self.loop_invariants = {}  # signature -> callable(ctx) -> z3 Bool
        self.call_stack = []
        self.opaque_calls = []    # external calls treated as opaque (assumption scan)
        self.used_contracts = set()
        self.notes = []
        self.class_consts = {}
        self.pure = 0             # >0: inside a merge-mode evaluation (no recorded forks, no heap effects expected)
        self.hyp_tags = []        # parallel to hyps: group tag of each hypothesis ('pc', 'enum', 'sigma', ...)
        self.cur_tag = 'pc'
        self.globals = self._make_globals()
        if not _no_realize:
            data, note = realized_config(repo, self._raw_cfg)
            self.cfg = ConfigV(data)
            self.globals['config'] = self.cfg
            if note:
                self.notes.append(note)

    # ------------------------------------------------------------------ hypotheses / decisions
    def assume(self, c):
        if isinstance(c, bool):
            if not c:
                raise PathEnd()
            return
        self.hyps.append(c)
        self.hyp_tags.append(self.cur_tag)
        # the feasibility solver only sees quantifier-free hypotheses: dropping hypotheses over-approximates the
        # feasible paths (sound); obligations are discharged against the full set
        if not has_quantifier(c):
            self.solver.add(c)

    def feasible(self, c):
        self.solver_calls += 1
        r = self.solver.check(c)
        return r != z3.unsat

    def decide(self, cond, label=None):
        if isinstance(cond, bool):
            return cond
        if not is_symbool(cond):
            raise Unsupported(f"decide on non-boolean {cond!r}")
        cond = z3.simplify(cond)
        if z3.is_true(cond):
            return True
        if z3.is_false(cond):
            return False
        if self.pure:
            t = self.feasible(cond)
            f = self.feasible(z3.Not(cond))
            if t and not f:
                return True
            if f and not t:
                return False
            raise MergeAbort(f"fork on {cond} in merge mode ({label})")
        i = len(self.taken)
        if i < len(self.schedule):
            d = self.schedule[i]
        else:
            t = self.feasible(cond)
            f = self.feasible(z3.Not(cond))
            if t and f:
                d = True
                self.pending.append(self.taken + [False])
            elif t:
                d = True
            elif f:
                d = False
            else:
                raise PathEnd()
        self.taken.append(d)
        self.assume(cond if d else z3.Not(cond))
        if label:
            self.trace.append(f"{label}: {'T' if d else 'F'}")
        return d

    def choose(self, n, label=None):
        if self.pure:
            raise MergeAbort("nondeterministic choice in merge mode")
        i = len(self.taken)
        if i < len(self.schedule):
            d = self.schedule[i]
        else:
            d = 0
            for alt in range(1, n):
                self.pending.append(self.taken + [alt])
        self.taken.append(d)
        if label:
            self.trace.append(f"{label}: {d}")
        return d

    def oblige(self, name, goal, kind='aux', extra=None, lineno=None, note=None):
        if isinstance(goal, bool):
            goal = z3.BoolVal(goal)
        self.obls.append(Obligation(name, goal, kind, len(self.hyps), extra, lineno, note))

    def truth(self, v, label=None):
        """Python truthiness of a value, deciding symbolically where needed."""
        if isinstance(v, bool) or v is None:
            return bool(v)
        if is_symbool(v):
            return self.decide(v, label)
        if is_symnum(v):
            return self.decide(v != 0, label)
        if isinstance(v, (int, Fraction, float, str, list, tuple, dict, set, frozenset)):
            return bool(v)
        if isinstance(v, SegStr):
            return len(v.parts) > 0
        if isinstance(v, (Obj, SubV, FuncV, BoundV, ClassV, SliceV, NameV, LambdaV)):
            return True
        if isinstance(v, IteV):
            return self.truth(v.a, label) if self.decide(v.cond, label) else self.truth(v.b, label)
        if hasattr(v, 'sym_truth'):
            return self.decide(v.sym_truth(self), label)
        raise Unsupported(f"truth value of {type(v).__name__}")

    # ------------------------------------------------------------------ globals
    def _make_globals(self):
        g = {}
        for name, info in self.repo.classes.items():
            g[name] = ClassV(info)
        g['config'] = self.cfg
        g['numpy'] = g['np'] = ModuleV('numpy')
        for n in ('Iterable', 'str', 'int', 'float', 'list', 'tuple', 'dict', 'set', 'frozenset', 'slice', 'bool', 'type',
                  'object', 'Tuple', 'Dict', 'List', 'Union'):
            g[n] = TypeMarker(n)
        for n in V.EXC_PARENT:
            g[n] = ExcClassV(n)
        g['True'], g['False'], g['None'] = True, False, None
        from . import builtins_ as B
        for n, fn in B.BUILTINS.items():
            g[n] = BuiltinV(n, fn)
        # module-level constants (NAME = <literal expression>), in source order
        for m in self.repo.modules.values():
            for st in m.tree.body:
                if isinstance(st, ast.Assign) and len(st.targets) == 1 and isinstance(st.targets[0], ast.Name) \
                        and st.targets[0].id not in g and _literal_expr(st.value, g):
                    try:
                        self.globals = g
                        g[st.targets[0].id] = self.ev(st.value, Env(None, g))
                    except (Raised, Unsupported):
                        pass
        return g

    # ------------------------------------------------------------------ class helpers
    def class_info(self, name):
        return self.repo.classes[name]

    def mro(self, info):
        out = [info]
        for b in info.bases:
            b = b.split('.')[-1]
            if b in self.repo.classes:
                out += self.mro(self.repo.classes[b])
        return out

    def is_subclass(self, info, name):
        return any(c.name == name for c in self.mro(info))

    def find_method(self, info, name):
        for c in self.mro(info):
            if name in c.methods:
                return c, c.methods[name]
        return None, None

    def find_setter(self, info, name):
        for c in self.mro(info):
            if name in c.setters:
                return c, c.setters[name]
        return None, None

    def class_const(self, info, name):
        """Class-level constant (e.g. Substance.SOLID), evaluated from the class body."""
        key = (info.name, name)
        if key in self.class_consts:
            return self.class_consts[key]
        for c in self.mro(info):
            ns = Env(Env(None, self.globals))
            found = False
            for st in c.assigns:
                try:
                    val = self.ev(st.value, ns)
                except Exception:
                    continue
                for t in st.targets:
                    if isinstance(t, ast.Name):
                        ns.vars[t.id] = val
                        if t.id == name:
                            found = True
            if found:
                val = ns.vars[name]
                self.class_consts[key] = val
                from . import builtins_ as _B
                if isinstance(val, (dict, list, _B.SetV)):
                    # class-level mutable state is shared by all instances AND survives from call to call
                    _B.declare_owner(self, val, ClassState(f'{c.name}.{name}'), name)
                return val
        raise KeyError(name)

    def new_obj(self, clsname, fresh_=True, tag=None):
        o = Obj(self.class_info(clsname), fresh_)
        o.tag = tag
        return o

    # ------------------------------------------------------------------ expression evaluation
    def ev(self, e, env):
        m = getattr(self, 'e_' + type(e).__name__, None)
        if m is None:
            raise Unsupported(f"expression {type(e).__name__} at line {getattr(e, 'lineno', '?')}")
        return m(e, env)

    def e_Constant(self, e, env):
        return lit(e.value)

    def e_Name(self, e, env):
        try:
            v = env.lookup(e.id)
        except KeyError:
            if e.id in self.globals:
                v = self.globals[e.id]
            else:
                import builtins as _bi
                if hasattr(_bi, e.id):
                    # a Python builtin the engine has no model for: the program is fine, the engine is not
                    raise Unsupported(f"builtin {e.id}() is not modelled (line {e.lineno})")
                raise Raised('NameError', e.lineno, e.id, implicit=True)
        if isinstance(v, Undefined):
            raise Unsupported(f"read of loop-local variable {e.id} after a cut loop (line {e.lineno})")
        return v

    def e_Tuple(self, e, env):
        return tuple(self.ev_seq(e.elts, env))

    def e_List(self, e, env):
        return list(self.ev_seq(e.elts, env))

    def e_Set(self, e, env):
        from .builtins_ import make_set
        return make_set(self, self.ev_seq(e.elts, env))

    def ev_seq(self, elts, env):
        out = []
        for x in elts:
            if isinstance(x, ast.Starred):
                out.extend(self.iterate(self.ev(x.value, env), x))
            else:
                out.append(self.ev(x, env))
        return out

    def e_Dict(self, e, env):
        from .builtins_ import dict_set
        d = {}
        for k, v in zip(e.keys, e.values):
            if k is None:
                raise Unsupported("dict unpacking")
            dict_set(self, d, self.ev(k, env), self.ev(v, env))
        return d

    def e_JoinedStr(self, e, env):
        parts = []
        for v in e.values:
            if isinstance(v, ast.Constant):
                parts.append(v.value)
            elif isinstance(v, ast.FormattedValue):
                parts.append(self.e_FormattedValue(v, env))      # honours !r and format specifications
            else:
                raise Unsupported("f-string part")
        return self._mkstr_ite(parts)

    def _mkstr_ite(self, parts):
        """Concatenate text parts; an alternative (IteV) part distributes over the whole string."""
        n_alt = sum(1 for p in parts if isinstance(p, IteV))
        if n_alt > 1 or any(isinstance(p, IteV) and isinstance(p.a, IteV) or isinstance(p, IteV) and isinstance(p.b, IteV)
                            for p in parts):
            return mkstr([p if not isinstance(p, IteV) else SegStr([OpaqueHole('alternative', prov_of(p))]) for p in parts])
        for i, p in enumerate(parts):
            if isinstance(p, IteV):
                a = self._mkstr_ite(parts[:i] + [p.a] + parts[i + 1:])
                b = self._mkstr_ite(parts[:i] + [p.b] + parts[i + 1:])
                return IteV(p.cond, a, b)
        return mkstr(parts)

    def format_value(self, x):
        """str(x) as used inside f-strings and by str()."""
        if isinstance(x, str):
            return x
        if isinstance(x, SegStr):
            return x
        if isinstance(x, bool) or x is None:
            return str(x)
        if isinstance(x, int):
            return str(x)
        if isinstance(x, (Fraction, float)) or is_symnum(x):
            return SegStr([NumHole(x)])
        if isinstance(x, NameV):
            return SegStr([OpaqueHole(x)])
        if isinstance(x, IteV):
            return IteV(x.cond, self.format_value(x.a), self.format_value(x.b))
        return SegStr([OpaqueHole(x, prov_of(x))])

    def e_FormattedValue(self, e, env):
        v = self.ev(e.value, env)
        if e.conversion not in (-1, 115):          # !r / !a change the text (quotes, escapes)
            if e.conversion == 114 and isinstance(v, str) and e.format_spec is None:
                return repr(v)
            if e.conversion == 114 and (is_num(v) and not isinstance(v, bool)) and e.format_spec is None:
                return self.format_value(v)
            raise Unsupported("f-string conversion on a symbolic value")
        if e.format_spec is None:
            return self.format_value(v)
        spec_ = self.ev(e.format_spec, env)
        if not isinstance(spec_, str):
            raise Unsupported("symbolic format specification")
        if spec_ == '':
            return self.format_value(v)
        import re as _re
        m = _re.fullmatch(r'(?:\.(\d+))?f', spec_)
        if m and is_num(v) and not isinstance(v, bool):
            # fixed-point notation keeps p decimals (6 by default): the text denotes the value ROUNDED to p decimals
            from .builtins_ import round_value
            p = int(m.group(1)) if m.group(1) is not None else 6
            r = round_value(self, real(v) if is_symnum(v) else Fraction(v), p, e)
            return SegStr([NumHole(r)])
        if isinstance(v, (str, SegStr)) and spec_ in ('s',):
            return v
        if isinstance(v, int) and not isinstance(v, bool) and spec_ == 'd':
            return str(v)
        raise Unsupported(f"format specification {spec_!r}")

    def e_Lambda(self, e, env):
        return LambdaV(e, env, f"<lambda@{e.lineno}>")

    def e_IfExp(self, e, env):
        c = self.ev(e.test, env)
        if is_symnum(c):
            c = (c != 0)
        if is_symbool(c):
            c = z3.simplify(c)
            if z3.is_true(c):
                c = True
            elif z3.is_false(c):
                c = False
        if not is_sym(c):
            return self.ev(e.body if self.truth(c) else e.orelse, env)
        # a condition already decided by the path condition (e.g. the kind of a substance fixed by the case)
        t, f = self.feasible(c), self.feasible(z3.Not(c))
        if t and not f:
            return self.ev(e.body, env)
        if f and not t:
            return self.ev(e.orelse, env)
        # symbolic condition: both arms pure constants/strings/numbers -> merged value, else fork
        if self._simple_arm(e.body) and self._simple_arm(e.orelse):
            a = self.ev(e.body, env)
            b = self.ev(e.orelse, env)
            if is_num(a) and is_num(b):
                return z3.If(c, real(a), real(b))
            if is_symbool(a) or is_symbool(b) or (isinstance(a, bool) and isinstance(b, bool)):
                return z3.If(c, boolz(a), boolz(b))
            return IteV(c, a, b)
        merged = self._try_merge_ifexp(e, c, env)
        if merged is not NotImplemented:
            return merged
        return self.ev(e.body if self.decide(c, f"ifexp@{e.lineno}") else e.orelse, env)

    def _try_merge_ifexp(self, e, c, env):
        """`a if c else b` with pure arms: evaluate each arm under its condition (no recorded forks) and merge."""
        from . import loops
        c = z3.simplify(c)
        t, f = self.feasible(c), self.feasible(z3.Not(c))
        if not (t and f):
            return NotImplemented
        outs = []
        nw = len(self.writes)
        for cond, arm in ((c, e.body), (z3.Not(c), e.orelse)):
            self.solver.push()
            nh = len(self.hyps)
            no = len(self.obls)
            self.pure += 1
            try:
                self.assume(cond)
                outs.append(self.ev(arm, env))
            except (MergeAbort, Raised, Unsupported):
                del self.obls[no:]
                return NotImplemented
            finally:
                self.pure -= 1
                del self.hyps[nh:]
                del self.hyp_tags[nh:]
                self.solver.pop()
        if len(self.writes) != nw:
            return NotImplemented
        try:
            return loops.merge_values(c, outs[0], outs[1])
        except MergeAbort:
            return NotImplemented

    def _simple_arm(self, n):
        if isinstance(n, ast.Constant):
            return True
        if isinstance(n, ast.Attribute):
            return self._simple_arm(n.value)
        if isinstance(n, ast.Name):
            return True
        return False

    def e_UnaryOp(self, e, env):
        v = self.ev(e.operand, env)
        if isinstance(e.op, ast.Not):
            if is_symbool(v):
                return z3.Not(v)
            return not self.truth(v)
        if isinstance(e.op, ast.USub):
            if is_symnum(v):
                return -v
            if is_conc_num(v) or isinstance(v, bool):
                return -v
            from .npmodel import NpArr
            if isinstance(v, NpArr):
                return v.map1(self, lambda x: self.binop(ast.Sub(), 0, x, e))
            raise Unsupported(f"unary minus on {type(v).__name__}")
        if isinstance(e.op, ast.UAdd):
            return v
        raise Unsupported("unary op")

    def e_BoolOp(self, e, env):
        is_and = isinstance(e.op, ast.And)
        v = None
        for i, x in enumerate(e.values):
            v = self.ev(x, env)
            if i == len(e.values) - 1:
                return v
            t = self.truth(v, f"boolop@{e.lineno}")
            if is_and and not t:
                return v if not is_sym(v) else False
            if (not is_and) and t:
                return v if not is_sym(v) else True
        return v

    def e_BinOp(self, e, env):
        a = self.ev(e.left, env)
        b = self.ev(e.right, env)
        return self.binop(e.op, a, b, e)

    def binop(self, op, a, b, node=None):
        ln = getattr(node, 'lineno', None)
        from .npmodel import NpArr
        from . import symcoll as _sc
        if isinstance(a, _sc.SymSubSet) and isinstance(b, _sc.SymSubSet) and isinstance(op, (ast.BitOr, ast.Sub)):
            return a.sym_union(self, [b], node) if isinstance(op, ast.BitOr) else a.sym_difference(self, [b], node)
        if isinstance(a, NpArr) or isinstance(b, NpArr):
            return NpArr.binop(self, op, a, b, node)
        if isinstance(op, ast.Add):
            if isinstance(a, (str, SegStr)) and isinstance(b, (str, SegStr)):
                return mkstr([a, b])
            if isinstance(a, list) and isinstance(b, list):
                return a + b
            if isinstance(a, tuple) and isinstance(b, tuple):
                return a + b
            if isinstance(a, Opaque) or isinstance(b, Opaque):
                return Opaque('concat', prov_of(a, b))
            if (isinstance(a, IteV) and isinstance(b, (str, SegStr, IteV))) or \
                    (isinstance(b, IteV) and isinstance(a, (str, SegStr))):
                return SegStr([OpaqueHole('text with alternatives', prov_of(a, b))])
        if isinstance(op, ast.Mult):
            if isinstance(a, (list, str, tuple)) and isinstance(b, int):
                return a * b
            if isinstance(b, (list, str, tuple)) and isinstance(a, int):
                return a * b
        if isinstance(op, ast.Mod) and isinstance(a, str):
            raise Unsupported("% string formatting")
        if isinstance(a, bool):
            a = int(a)
        if isinstance(b, bool):
            b = int(b)
        if isinstance(a, IteV) and is_num(b):
            return self.binop(op, z3.If(a.cond, real(a.a), real(a.b)), b, node)
        if isinstance(b, IteV) and is_num(a):
            return self.binop(op, a, z3.If(b.cond, real(b.a), real(b.b)), node)
        if a is None or b is None or isinstance(a, (str, SegStr)) or isinstance(b, (str, SegStr)):
            if is_num(a) or is_num(b) or a is None or b is None:
                raise Raised('TypeError', ln, f"unsupported operand types {type(a).__name__}, {type(b).__name__}",
                             implicit=True)
        if not (is_num(a) and is_num(b)):
            raise Unsupported(f"binop {type(op).__name__} on {type(a).__name__}, {type(b).__name__} (line {ln})")
        if is_conc_num(a) and is_conc_num(b):
            return self._conc_binop(op, a, b, ln)
        both_int = is_int_like(a) and is_int_like(b)
        if isinstance(op, (ast.FloorDiv, ast.Mod)):
            if not both_int:
                raise Unsupported("// or % on reals")
            za, zb = intz(a), intz(b)
            if not self.decide(zb != 0, f"divisor!=0@{ln}"):
                raise Raised('ZeroDivisionError', ln, implicit=True)
            # z3 div/mod are Euclidean; Python floors.  Equal for positive divisors; restrict to that.
            if not self.decide(zb > 0, f"divisor>0@{ln}"):
                raise Unsupported("floor division by a negative symbolic int")
            return za / zb if isinstance(op, ast.FloorDiv) else za % zb
        if both_int and not isinstance(op, (ast.Div, ast.Pow)):
            za, zb = intz(a), intz(b)
        else:
            # non-finite concrete operand (inf) with a symbolic one
            for x in (a, b):
                if isinstance(x, float) and (math.isinf(x) or math.isnan(x)):
                    return self._inf_binop(op, a, b, ln)
            za, zb = real(a), real(b)
        if isinstance(op, ast.Add):
            return za + zb
        if isinstance(op, ast.Sub):
            return za - zb
        if isinstance(op, ast.Mult):
            return za * zb
        if isinstance(op, ast.Div):
            if not self.decide(zb != 0, f"divisor!=0@{ln}"):
                raise Raised('ZeroDivisionError', ln, implicit=True)
            return za / zb
        if isinstance(op, ast.Pow):
            if isinstance(b, int) and 0 <= b <= 4:
                r = z3.RealVal(1)
                for _ in range(b):
                    r = r * za
                return r
            raise Unsupported("symbolic power")
        raise Unsupported(f"binop {type(op).__name__}")

    def _inf_binop(self, op, a, b, ln):
        # only the patterns the library produces: sym * inf, sym / inf, inf / sym with a sign we can decide
        if isinstance(op, ast.Div) and isinstance(b, float) and math.isinf(b) and is_symnum(a):
            return 0
        raise Unsupported(f"arithmetic of a symbolic number with inf (line {ln})")

    def _conc_binop(self, op, a, b, ln):
        try:
            if isinstance(op, ast.Add):
                return a + b
            if isinstance(op, ast.Sub):
                return a - b
            if isinstance(op, ast.Mult):
                return a * b
            if isinstance(op, ast.Div):
                if isinstance(a, int) and isinstance(b, int):
                    if b == 0:
                        raise ZeroDivisionError
                    return Fraction(a, b)
                if isinstance(a, float) or isinstance(b, float):
                    if b == 0:
                        raise ZeroDivisionError
                    return float(a) / float(b)
                return a / b
            if isinstance(op, ast.FloorDiv):
                return a // b
            if isinstance(op, ast.Mod):
                return a % b
            if isinstance(op, ast.Pow):
                if isinstance(b, int):
                    return Fraction(a) ** b if b < 0 else a ** b
                raise Unsupported("non-integer power")
        except ZeroDivisionError:
            raise Raised('ZeroDivisionError', ln, implicit=True)
        raise Unsupported(f"binop {type(op).__name__}")

    # ---------- comparison
    def e_Compare(self, e, env):
        left = self.ev(e.left, env)
        result = None
        for op, comp in zip(e.ops, e.comparators):
            right = self.ev(comp, env)
            r = self.compare(op, left, right, e)
            if result is None:
                result = r
            else:
                if is_sym(result) or is_sym(r):
                    result = z3.And(boolz(result), boolz(r))
                else:
                    result = result and r
            if result is False:
                return False
            left = right
        return result

    def compare(self, op, a, b, node=None):
        ln = getattr(node, 'lineno', None)
        from . import builtins_ as B
        if isinstance(op, (ast.In, ast.NotIn)):
            r = B.contains(self, b, a, node)
            if isinstance(op, ast.In):
                return r
            return z3.Not(r) if is_symbool(r) else (not r)
        if isinstance(op, (ast.Is, ast.IsNot)):
            r = self.identical(a, b)
            return r if isinstance(op, ast.Is) else (not r)
        if isinstance(op, (ast.Eq, ast.NotEq)):
            r = self.equals(a, b, node)
            if isinstance(op, ast.Eq):
                return r
            return z3.Not(r) if is_symbool(r) else (not r)
        # ordering
        from .npmodel import NpArr
        if isinstance(a, NpArr) or isinstance(b, NpArr):
            return NpArr.compare(self, op, a, b, node)
        if isinstance(a, IteV):
            return z3.If(a.cond, boolz(self.compare(op, a.a, b, node)), boolz(self.compare(op, a.b, b, node)))
        if isinstance(b, IteV):
            return z3.If(b.cond, boolz(self.compare(op, a, b.a, node)), boolz(self.compare(op, a, b.b, node)))
        if isinstance(a, bool):
            a = int(a)
        if isinstance(b, bool):
            b = int(b)
        if is_num(a) and is_num(b):
            if is_conc_num(a) and is_conc_num(b):
                return {ast.Lt: a < b, ast.LtE: a <= b, ast.Gt: a > b, ast.GtE: a >= b}[type(op)]
            # a symbolic number is finite: comparisons with +-inf are decided
            for x, side in ((a, 'a'), (b, 'b')):
                if isinstance(x, float) and math.isinf(x):
                    pos = x > 0
                    if side == 'b':   # sym OP inf
                        return {ast.Lt: pos, ast.LtE: pos, ast.Gt: not pos, ast.GtE: not pos}[type(op)]
                    return {ast.Lt: not pos, ast.LtE: not pos, ast.Gt: pos, ast.GtE: pos}[type(op)]
            if is_int_like(a) and is_int_like(b):
                za, zb = intz(a), intz(b)
            else:
                za, zb = real(a), real(b)
            return {ast.Lt: lambda: za < zb, ast.LtE: lambda: za <= zb,
                    ast.Gt: lambda: za > zb, ast.GtE: lambda: za >= zb}[type(op)]()
        if isinstance(a, str) and isinstance(b, str):
            return {ast.Lt: a < b, ast.LtE: a <= b, ast.Gt: a > b, ast.GtE: a >= b}[type(op)]
        if a is None or b is None or isinstance(a, (str, SegStr)) or isinstance(b, (str, SegStr)):
            raise Raised('TypeError', ln, 'ordering of unorderable types', implicit=True)
        if isinstance(a, tuple) and isinstance(b, tuple) and all(isinstance(x, int) for x in a + b):
            return {ast.Lt: a < b, ast.LtE: a <= b, ast.Gt: a > b, ast.GtE: a >= b}[type(op)]
        raise Unsupported(f"comparison {type(op).__name__} of {type(a).__name__}, {type(b).__name__} (line {ln})")

    def identical(self, a, b):
        if a is None or b is None:
            return a is b
        if isinstance(a, bool) or isinstance(b, bool):
            return a is b
        if isinstance(a, (Obj, ClassV, FuncV)) or isinstance(b, (Obj, ClassV, FuncV)):
            return a is b
        if isinstance(a, SubV) and isinstance(b, SubV):
            if a.term.eq(b.term):
                return True
            raise Unsupported("identity of two symbolic substances")
        if is_sym(a) or is_sym(b):
            raise Unsupported("identity on symbolic values")
        return a is b

    def equals(self, a, b, node=None):
        """Python `==` (structural for containers; the library's own __eq__ for its classes)."""
        from . import builtins_ as B
        return B.equals(self, a, b, node)

    # ---------- attribute / subscript
    def e_Attribute(self, e, env):
        v = self.ev(e.value, env)
        return self.getattr(v, e.attr, e)

    def getattr(self, v, attr, node=None):
        from . import builtins_ as B
        return B.getattr_(self, v, attr, node)

    def e_Subscript(self, e, env):
        v = self.ev(e.value, env)
        k = self.ev(e.slice, env)
        from . import builtins_ as B
        return B.getitem(self, v, k, e)

    def e_Slice(self, e, env):
        return SliceV(self.ev(e.lower, env) if e.lower else None,
                      self.ev(e.upper, env) if e.upper else None,
                      self.ev(e.step, env) if e.step else None)

    def e_Starred(self, e, env):
        raise Unsupported("starred expression outside call/display")

    # ---------- comprehensions
    def e_GeneratorExp(self, e, env):
        return GenV(e, env)

    def e_ListComp(self, e, env):
        from . import symcoll
        if len(e.generators) == 1:
            it = self.ev(e.generators[0].iter, env)
            if isinstance(it, (symcoll.NameDict, symcoll.NameSet)):
                return symcoll.names_comprehension(self, e, env, it)
            g = e.generators[0]
            if isinstance(it, symcoll.SymList) and isinstance(g.target, ast.Name) and isinstance(e.elt, ast.Name) \
                    and e.elt.id == g.target.id:
                d = symcoll.SymListDerived(it, bool(g.ifs))
                if g.ifs:
                    self.assume(z3.And(d.n >= 0, d.n <= it.n))
                return d
        return list(self.comprehend(e, env))

    def e_SetComp(self, e, env):
        from .builtins_ import make_set
        from . import symcoll
        if len(e.generators) == 1:
            it = self.ev(e.generators[0].iter, env)
            if isinstance(it, symcoll.SymSubSet):
                return symcoll.setcomp_over_set(self, e, env, it)
        return make_set(self, list(self.comprehend(e, env)))

    def e_DictComp(self, e, env):
        from . import builtins_ as B
        return B.dictcomp(self, e, env)

    def comprehend(self, e, env, gens=None):
        """Evaluate a comprehension eagerly over concrete iterables (yields element values)."""
        gens = e.generators if gens is None else gens
        out = []

        def rec(i, scope):
            if i == len(gens):
                out.append(self.ev(e.elt, scope))
                return
            g = gens[i]
            it = self.ev(g.iter, scope)
            for item in self.iterate(it, g.iter):
                sc = Env(scope)
                self.assign(g.target, item, sc)
                ok = True
                for c in g.ifs:
                    if not self.truth(self.ev(c, sc), f"comp-if@{c.lineno}"):
                        ok = False
                        break
                if ok:
                    rec(i + 1, sc)
        rec(0, Env(env))
        return out

    def iterate(self, it, node=None):
        """Concrete iteration; symbolic collections must be handled by the caller (loops are cut)."""
        from . import builtins_ as B
        return B.iterate(self, it, node)

    # ---------- calls
    def e_Call(self, e, env):
        # super() with zero args
        if isinstance(e.func, ast.Name) and e.func.id == 'super' and not e.args:
            self_ = env.lookup('self')
            cur = env.lookup('__class__')
            return SuperV(self_, cur)
        f = self.ev(e.func, env)
        args = []
        for a in e.args:
            if isinstance(a, ast.Starred):
                args.extend(self.iterate(self.ev(a.value, env), a))
            else:
                args.append(self.ev(a, env))
        kwargs = {}
        for k in e.keywords:
            if k.arg is None:
                d = self.ev(k.value, env)
                if not isinstance(d, dict):
                    raise Unsupported("**kwargs of non-dict")
                for kk, vv in d.items():
                    kwargs[kk] = vv
            else:
                kwargs[k.arg] = self.ev(k.value, env)
        return self.call(f, args, kwargs, e)

    def call(self, f, args, kwargs=None, node=None):
        kwargs = kwargs or {}
        ln = getattr(node, 'lineno', None)
        if isinstance(f, BuiltinV):
            return f.fn(self, args, kwargs, node)
        if isinstance(f, BoundV):
            if isinstance(f.func, BuiltinV):
                return f.func.fn(self, [f.self_] + list(args), kwargs, node)
            return self.call_func(f.func, [f.self_] + list(args), kwargs, node)
        if isinstance(f, FuncV):
            return self.call_func(f, list(args), kwargs, node)
        if isinstance(f, LambdaV):
            return self.call_lambda(f, list(args), kwargs, node)
        if isinstance(f, ClassV):
            return self.instantiate(f.info, args, kwargs, node)
        if isinstance(f, ExcClassV):
            return ExcV(f.name, tuple(args))
        if isinstance(f, TypeMarker):
            from . import builtins_ as B
            return B.call_type(self, f, args, kwargs, node)
        if isinstance(f, Opaque):
            return Opaque('call', f.prov | prov_of(*args) | prov_of(*kwargs.values()))
        if hasattr(f, 'sym_call'):
            return f.sym_call(self, args, kwargs, node)
        raise Raised('TypeError', ln, f"{type(f).__name__} object is not callable", implicit=True)

    def instantiate(self, info, args, kwargs, node=None):
        o = Obj(info, True)
        cls, init = self.find_method(info, '__init__')
        if init is not None:
            self.call_func(FuncV(init, f"{cls.name}.__init__", cls), [o] + list(args), kwargs, node)
        elif args or kwargs:
            raise Raised('TypeError', getattr(node, 'lineno', None), 'takes no arguments', implicit=True)
        return o

    def bind_args(self, fnode, args, kwargs, env, node, qual):
        a = fnode.args
        ln = getattr(node, 'lineno', None)
        params = [p.arg for p in a.posonlyargs + a.args]
        defaults = a.defaults
        ndef = len(defaults)
        args = list(args)
        kwargs = dict(kwargs)
        if len(args) > len(params) and a.vararg is None:
            raise Raised('TypeError', ln, f"{qual}() takes {len(params)} positional arguments but {len(args)} were given",
                         implicit=True)
        for i, p in enumerate(params):
            if i < len(args):
                if p in kwargs:
                    raise Raised('TypeError', ln, f"{qual}() got multiple values for argument {p}", implicit=True)
                env.vars[p] = args[i]
            elif p in kwargs:
                env.vars[p] = kwargs.pop(p)
            else:
                j = i - (len(params) - ndef)
                if j >= 0:
                    env.vars[p] = self.ev(defaults[j], env.parent if env.parent else env)
                else:
                    raise Raised('TypeError', ln, f"{qual}() missing required positional argument: {p}", implicit=True)
        if a.vararg is not None:
            env.vars[a.vararg.arg] = tuple(args[len(params):])
        for p, d in zip(a.kwonlyargs, a.kw_defaults):
            if p.arg in kwargs:
                env.vars[p.arg] = kwargs.pop(p.arg)
            elif d is not None:
                env.vars[p.arg] = self.ev(d, env.parent if env.parent else env)
            else:
                raise Raised('TypeError', ln, f"{qual}() missing keyword-only argument {p.arg}", implicit=True)
        if a.kwarg is not None:
            env.vars[a.kwarg.arg] = kwargs
        elif kwargs:
            raise Raised('TypeError', ln, f"{qual}() got an unexpected keyword argument {next(iter(kwargs))}",
                         implicit=True)

    def call_func(self, f, args, kwargs, node=None, force_inline=False):
        if f.qual in self.contracts and not force_inline:
            self.used_contracts.add(f.qual)
            return self.contracts[f.qual](self, args, kwargs, node)
        if f.qual.startswith('Unit.') and any(isinstance(a, IteV) for a in args):
            return self._distribute_ite(f, args, kwargs, node)
        if self.depth >= self.MAX_DEPTH:
            raise Unsupported(f"call depth exceeded at {f.qual}")
        memo_key = self._cache_key(f, args, kwargs)
        if memo_key is not None:
            hit = self.__dict__.setdefault('_cache_memo', {}).get(memo_key)
            if hit is not None:
                return hit[0]        # functools.cache hands out the SAME object again
            v = self._call_body(f, args, kwargs, node)
            self._cache_memo[memo_key] = (v, args, kwargs)      # (arguments kept alive: keys use identities)
            from . import builtins_ as B
            from . import symcoll as _sc
            from .npmodel import NpArr as _NpArr
            if isinstance(v, (list, dict, B.SetV, _sc.SymSubSet, _NpArr)):
                # the cache hands this very object to every later caller with EQUAL arguments (functools.cache keys by
                # value): mutating it in place changes the answers other objects get — recorded as a write to shared state
                B.declare_owner(self, v, CacheOwner(f.qual), 'result')
            return v
        return self._call_body(f, args, kwargs, node)

    def _cache_key(self, f, args, kwargs):
        """key of a functools.cache / lru_cache'd function call, or None if the function is not cached.  Plain values
        are keyed by value; objects and symbolic values by identity (CPython uses __hash__/__eq__: equal-but-distinct
        objects share an entry there — that direction is covered by the separate cache-transparency obligations)."""
        if f.cls is None:
            return None
        name = f.qual.split('.')[-1]
        decs = f.cls.decorators.get(name, [])
        if f.cls.methods.get(name) is not f.node:
            return None
        if not any(d.split('(')[0].split('.')[-1] in ('cache', 'lru_cache') for d in decs):
            return None

        def k(a):
            if a is None or isinstance(a, (str, int, bool, Fraction, float)):
                return ('v', type(a).__name__, a)
            if isinstance(a, tuple):
                return ('t',) + tuple(k(x) for x in a)
            if isinstance(a, SegStr):        # equal texts hit the same entry, as equal str objects do in CPython
                return ('s',) + tuple(q if isinstance(q, str) else (type(q).__name__, str(getattr(q, 'value', getattr(q, 'term', id(q)))))
                                      for q in a.parts)
            return ('id', id(a))
        return (f.qual, tuple(k(a) for a in args), tuple(sorted((n, k(v)) for n, v in kwargs.items())))

    def _call_body(self, f, args, kwargs, node):
        parent = f.closure if f.closure is not None else Env(None, self.globals)
        env = Env(parent)
        if f.cls is not None:
            env.vars['__class__'] = f.cls
        self.bind_args(f.node, args, kwargs, env, node, f.qual)
        self.depth += 1
        self.call_stack.append(f.qual)
        try:
            self.exec_block(f.node.body, env)
            return None
        except ReturnEx as r:
            return r.value
        finally:
            self.depth -= 1
            self.call_stack.pop()

    def _distribute_ite(self, f, args, kwargs, node):
        """A (pure, static) Unit.* function applied to an alternative argument: evaluate per alternative, merge."""
        from . import loops
        i = next(j for j, a in enumerate(args) if isinstance(a, IteV))
        alt = args[i]
        c = z3.simplify(alt.cond)
        t, fz = self.feasible(c), self.feasible(z3.Not(c))
        if t and not fz:
            return self.call_func(f, args[:i] + [alt.a] + args[i + 1:], kwargs, node)
        if fz and not t:
            return self.call_func(f, args[:i] + [alt.b] + args[i + 1:], kwargs, node)
        outs = []
        for cond, arm in ((c, alt.a), (z3.Not(c), alt.b)):
            self.solver.push()
            nh = len(self.hyps)
            self.pure += 1
            try:
                self.assume(cond)
                outs.append(self.call_func(f, args[:i] + [arm] + args[i + 1:], kwargs, node))
            except MergeAbort as e:
                raise Unsupported(f"{f.qual} on alternative arguments: {e}")
            except Raised as e:
                raise Unsupported(f"{f.qual} raises {e.cls} on one alternative of its arguments")
            finally:
                self.pure -= 1
                del self.hyps[nh:]
                del self.hyp_tags[nh:]
                self.solver.pop()
        return self._merge_result(c, outs[0], outs[1])

    def _merge_result(self, c, a, b):
        from . import loops
        if isinstance(a, tuple) and isinstance(b, tuple) and len(a) == len(b):
            return tuple(self._merge_result(c, x, y) for x, y in zip(a, b))
        try:
            return loops.merge_values(c, a, b)
        except MergeAbort as e:
            raise Unsupported(str(e))

    def call_lambda(self, f, args, kwargs, node=None):
        env = Env(f.closure)
        self.bind_args(f.node, args, kwargs, env, node, f.qual)
        self.depth += 1
        try:
            return self.ev(f.node.body, env)
        finally:
            self.depth -= 1

    # ------------------------------------------------------------------ statements
    def exec_block(self, body, env):
        for st in body:
            self.exec(st, env)

    def exec(self, st, env):
        m = getattr(self, 's_' + type(st).__name__, None)
        if m is None:
            raise Unsupported(f"statement {type(st).__name__} at line {st.lineno}")
        return m(st, env)

    def s_Expr(self, st, env):
        if isinstance(st.value, ast.Constant):
            return
        self.ev(st.value, env)

    def s_Pass(self, st, env):
        pass

    def s_Import(self, st, env):
        pass

    def s_ImportFrom(self, st, env):
        pass

    def s_Global(self, st, env):
        raise Unsupported("global statement")

    def s_Nonlocal(self, st, env):
        env.nonlocals.update(st.names)

    def s_Assign(self, st, env):
        v = self.ev(st.value, env)
        for t in st.targets:
            self.assign(t, v, env)

    def s_AnnAssign(self, st, env):
        if st.value is not None:
            self.assign(st.target, self.ev(st.value, env), env)

    def s_AugAssign(self, st, env):
        from . import builtins_ as B
        t = st.target
        if isinstance(t, ast.Name):
            cur = self.e_Name(ast.Name(id=t.id, ctx=ast.Load(), lineno=st.lineno), env)
            v = self.ev(st.value, env)
            env.set(t.id, self.aug(st.op, cur, v, st))
        elif isinstance(t, ast.Attribute):
            o = self.ev(t.value, env)
            cur = self.getattr(o, t.attr, t)
            v = self.ev(st.value, env)
            B.setattr_(self, o, t.attr, self.aug(st.op, cur, v, st), t)
        elif isinstance(t, ast.Subscript):
            o = self.ev(t.value, env)
            k = self.ev(t.slice, env)
            cur = B.getitem(self, o, k, t)
            v = self.ev(st.value, env)
            B.setitem(self, o, k, self.aug(st.op, cur, v, st), t)
        else:
            raise Unsupported("augmented assignment target")

    def aug(self, op, cur, v, node):
        if isinstance(op, ast.Add) and isinstance(cur, list):
            cur.extend(self.iterate(v, node))
            return cur
        from .npmodel import NpArr
        from . import builtins_ as B
        if isinstance(cur, NpArr):
            # numpy: `a op= b` updates the array object IN PLACE (every alias of it sees the new values)
            r = self.binop(op, cur, v, node)
            if isinstance(r, NpArr) and r.shape == cur.shape:
                cur.data = r.data
                return cur
            return r
        from . import symcoll as _sc
        if isinstance(cur, _sc.SymSubSet) and isinstance(op, (ast.BitOr, ast.Sub)) and isinstance(v, _sc.SymSubSet):
            r = cur.sym_union(self, [v], node) if isinstance(op, ast.BitOr) else cur.sym_difference(self, [v], node)
            B.owner_check(self, cur, getattr(node, 'lineno', None))
            cur.mem = r.mem              # in place: every holder of this set object sees it
            return cur
        if isinstance(cur, B.SetV) and isinstance(op, (ast.BitOr, ast.BitAnd, ast.Sub)):
            r = self.binop(op, cur, v, node)
            if isinstance(r, B.SetV):
                B.owner_check(self, cur, getattr(node, 'lineno', None))
                cur.items[:] = r.items
                return cur
            return r
        return self.binop(op, cur, v, node)

    def assign(self, t, v, env):
        from . import builtins_ as B
        if isinstance(t, ast.Name):
            env.set(t.id, v)
        elif isinstance(t, (ast.Tuple, ast.List)):
            items = self.iterate(v, t)
            star = [i for i, x in enumerate(t.elts) if isinstance(x, ast.Starred)]
            if star:
                i = star[0]
                n_after = len(t.elts) - i - 1
                if len(items) < len(t.elts) - 1:
                    raise Raised('ValueError', t.lineno, 'not enough values to unpack', implicit=True)
                for tt, vv in zip(t.elts[:i], items[:i]):
                    self.assign(tt, vv, env)
                self.assign(t.elts[i].value, list(items[i:len(items) - n_after]), env)
                for tt, vv in zip(t.elts[i + 1:], items[len(items) - n_after:]):
                    self.assign(tt, vv, env)
            else:
                if len(items) != len(t.elts):
                    raise Raised('ValueError', t.lineno, 'wrong number of values to unpack', implicit=True)
                for tt, vv in zip(t.elts, items):
                    self.assign(tt, vv, env)
        elif isinstance(t, ast.Attribute):
            o = self.ev(t.value, env)
            B.setattr_(self, o, t.attr, v, t)
        elif isinstance(t, ast.Subscript):
            o = self.ev(t.value, env)
            k = self.ev(t.slice, env)
            B.setitem(self, o, k, v, t)
        else:
            raise Unsupported(f"assignment target {type(t).__name__}")

    def s_If(self, st, env):
        c = self.ev(st.test, env)
        if self.pure and is_symbool(c):
            from . import loops
            return loops.merge_if(self, st, c, env)
        if self.truth(c, f"if@{st.lineno} {ast.unparse(st.test)[:60]}"):
            self.exec_block(st.body, env)
        else:
            self.exec_block(st.orelse, env)

    def s_Return(self, st, env):
        raise ReturnEx(self.ev(st.value, env) if st.value is not None else None)

    def s_Raise(self, st, env):
        if st.exc is None:
            cur = env.lookup('__active_exc__') if env.has('__active_exc__') else None
            if cur is None:
                raise Unsupported("bare raise outside handler")
            raise cur
        x = self.ev(st.exc, env)
        if isinstance(x, ExcClassV):
            x = ExcV(x.name, ())
        if not isinstance(x, ExcV):
            raise Unsupported("raise of non-exception")
        raise Raised(x.cls, st.lineno, x.args)

    def s_Assert(self, st, env):
        c = self.ev(st.test, env)
        if not self.truth(c, f"assert@{st.lineno}"):
            raise Raised('AssertionError', st.lineno, implicit=True)

    def s_Break(self, st, env):
        raise BreakEx()

    def s_Continue(self, st, env):
        raise ContinueEx()

    def s_Delete(self, st, env):
        raise Unsupported("del")

    def s_FunctionDef(self, st, env):
        qual = (self.call_stack[-1] if self.call_stack else '?') + '.' + st.name
        env.set(st.name, FuncV(st, qual, None, env, static=True))

    def s_Try(self, st, env):
        if st.finalbody:
            raise Unsupported("try/finally")
        try:
            self.exec_block(st.body, env)
        except Raised as ex:
            for h in st.handlers:
                if h.type is None:
                    names = ['BaseException']
                else:
                    tv = self.ev(h.type, env)
                    tvs = tv if isinstance(tv, tuple) else (tv,)
                    names = [t.name for t in tvs if isinstance(t, ExcClassV)]
                    if len(names) != len(tvs):
                        # e.g. yaml.YAMLError: not modelled
                        raise Unsupported("exception class not modelled")
                if any(exc_is(ex.cls, n) for n in names):
                    if h.name:
                        env.set(h.name, ExcV(ex.cls, ex.detail if isinstance(ex.detail, tuple) else ()))
                    env.vars['__active_exc__'] = ex
                    self.exec_block(h.body, env)
                    return
            raise
        else:
            self.exec_block(st.orelse, env)

    def s_While(self, st, env):
        from . import loops
        return loops.exec_while(self, st, env)

    def s_For(self, st, env):
        from . import loops
        return loops.exec_for(self, st, env)

    def s_With(self, st, env):
        raise Unsupported("with statement")


def _literal_expr(e, g):
    """an expression made of literals, arithmetic and names of earlier module-level constants only"""
    for n in ast.walk(e):
        if isinstance(n, (ast.Constant, ast.UnaryOp, ast.BinOp, ast.operator, ast.unaryop, ast.Tuple, ast.List, ast.Dict,
                          ast.Load, ast.expr_context)):
            continue
        if isinstance(n, ast.Name) and n.id in g and not isinstance(g[n.id], (ClassV, TypeMarker, BuiltinV, ModuleV, ConfigV)):
            continue
        return False
    return True


_CFG_CACHE = {}


def realized_config(repo, data):
    """The configuration object as the library's own Config.__init__ builds it from the yaml data of this run: the
    statements of Config.__init__ AFTER the one that binds `yaml_config` are executed by the engine with `yaml_config`
    := the parsed yaml (extraction drops the search for the file and the yaml parsing).  Falls back to `attributes = yaml
    keys` (with a note) when that code is outside the supported subset."""
    import json as _json
    key = (id(repo), _json.dumps(data, sort_keys=True, default=str))
    if key in _CFG_CACHE:
        return _CFG_CACHE[key]
    out, note = dict(data), None
    try:
        info = repo.classes.get('Config')
        fn = info.methods['__init__'] if info is not None else None
        if fn is None:
            raise Unsupported('no class Config')
        idx = None
        for i, st in enumerate(fn.body):
            if any(isinstance(n, ast.Name) and n.id == 'yaml_config' and isinstance(n.ctx, ast.Store) for n in ast.walk(st)):
                idx = i
        if idx is None:
            raise Unsupported('Config.__init__ binds no yaml_config')
        I = Interp(repo, [], cfg=data, _no_realize=True)
        o = I.new_obj('Config', fresh_=True, tag='config')
        env = Env(None, I.globals)
        env.set('self', o)
        env.set('__class__', ClassV(info))
        env.set('yaml_config', {k: (dict(v) if isinstance(v, dict) else v) for k, v in data.items()})
        I.call_stack.append('Config.__init__')
        I.exec_block(fn.body[idx + 1:], env)
        if I.pending:
            raise Unsupported('Config.__init__ forks')
        got = {}
        for k, v in o.fields.items():
            if isinstance(v, Fraction):
                v = float(v)
            got[k] = v
        for k in ('internal_precision', 'moles_storage_unit', 'volume_storage_unit', 'precisions'):
            if k not in got:
                raise Unsupported(f'Config.__init__ sets no {k}')
        out = got
    except (Unsupported, Raised, PathEnd, KeyError, AttributeError, TypeError) as e:
        note = f'config: Config.__init__ could not be executed on the yaml data ({type(e).__name__}: {e}); attributes = yaml keys'
    _CFG_CACHE[key] = (out, note)
    return out, note


class ClassState:
    """pseudo-owner of a class-level mutable attribute: a store into it makes later calls depend on earlier ones"""
    fresh = False

    def __init__(self, qual):
        self.qual = qual
        self.tag = f'class-level state {qual}'

    def __repr__(self):
        return f"<class-level state {self.qual}>"


class CacheOwner:
    """pseudo-object standing for the functools.cache table of a function (never fresh: writes to it are frame writes)"""
    fresh = False

    def __init__(self, qual):
        self.qual = qual
        self.tag = f'functools.cache of {qual}'

    def __repr__(self):
        return f"<cache of {self.qual}>"


class ConfigV:
    """The library's `config` object: attributes come from the shipped yaml (or a sweep override)."""

    def __init__(self, data):
        self.data = dict(data)
        for k in ('default_solid_density', 'default_enzyme_density'):
            if k in self.data and isinstance(self.data[k], (int, float)) and not isinstance(self.data[k], bool):
                self.data[k] = lit(float(self.data[k]))
        self.data['precisions'] = dict(self.data.get('precisions', {}))

    def get(self, name):
        if name not in self.data:
            raise Raised('AttributeError', None, name, implicit=True)
        v = self.data[name]
        if isinstance(v, float):
            return lit(v)
        return v
