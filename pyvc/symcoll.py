"""Symbolic collections (maps of arbitrary size, ranges, lists) — filled in below."""
import ast
from .values import *   # noqa: F401,F403
from . import values as V


def try_symbolic_sum(interp, gen, node):
    return None


def try_symbolic_anyall(interp, gen, node, is_any):
    return None


def try_symbolic_dictcomp(interp, e, env):
    return None


class SymRange:
    def __init__(self, interp, args):
        raise Unsupported("symbolic range")


# ===================================================================================== abstract label lists (C13)
import z3 as _z3
from . import builtins_ as _B


def label_str(term):
    return SegStr([LabelHole(term)])


def label_term(v):
    """Name term of an abstract label string, or None."""
    if isinstance(v, SegStr) and len(v.parts) == 1 and isinstance(v.parts[0], LabelHole):
        return v.parts[0].term
    return None


class LabelList:
    """A list of pairwise distinct, non-blank label strings of symbolic length n >= 1 (row or column names).
    pos(x) is the index of label x if it occurs (0 <= pos(x) < n) and at(j) the label at index j; the two are
    mutually inverse on the list (instantiated on demand, no quantifiers)."""
    py_type = 'list'
    py_iterable = True

    def __init__(self, interp, tag):
        self.tag = tag
        self.n = _z3.Int(f'n_{tag}')
        self.pos = _z3.Function(f'pos_{tag}', Name, IS)
        self.at = _z3.Function(f'at_{tag}', IS, Name)
        interp.assume(self.n >= 1)

    def _touch_pos(self, interp, t):
        p = self.pos(t)
        interp.assume(_z3.Implies(_z3.And(p >= 0, p < self.n), self.at(p) == t))
        return p

    def sym_len(self, interp, node=None):
        return self.n

    def sym_contains(self, interp, item, node=None):
        t = label_term(item)
        if t is None:
            if isinstance(item, (str, SegStr, NameV)):
                raise Unsupported("membership of a constructed string in an abstract label list")
            return False      # a list of strings contains no ints / tuples / None
        p = self._touch_pos(interp, t)
        return _z3.And(p >= 0, p < self.n)

    def sym_getattr(self, interp, attr, node=None):
        if attr == 'index':
            return BoundV(self, BuiltinV('LabelList.index', LabelList._index))
        if attr == 'count':
            raise Unsupported("LabelList.count")
        if hasattr(list, attr):
            raise Unsupported(f"list.{attr} on an abstract label list")
        raise Raised('AttributeError', getattr(node, 'lineno', None), attr, implicit=True)

    @staticmethod
    def _index(interp, args, kwargs, node):
        self, item = args[0], args[1]
        c = self.sym_contains(interp, item, node)
        if c is False or not interp.decide(c, "label in list"):
            raise Raised('ValueError', getattr(node, 'lineno', None), 'label is not in list', implicit=True)
        return self.pos(label_term(item))

    def sym_getitem(self, interp, k, node=None):
        if isinstance(k, SliceV):
            raise Unsupported("slice of an abstract label list")
        kz = intz(k)
        ok = _z3.Or(_z3.And(kz >= 0, kz < self.n), _z3.And(kz < 0, kz >= -self.n))
        if not interp.decide(ok, f"label index in range@{getattr(node, 'lineno', None)}"):
            raise Raised('IndexError', getattr(node, 'lineno', None), 'list index out of range', implicit=True)
        j = _z3.If(kz >= 0, kz, kz + self.n)
        t = self.at(j)
        interp.assume(self.pos(t) == j)
        return label_str(t)

    def sym_elementwise(self, interp):
        """A generic element (for all()/any() over the list)."""
        j = fresh('j', IS)
        interp.assume(_z3.And(j >= 0, j < self.n))
        return self.sym_getitem(interp, j)

    def sym_equals(self, interp, other):
        return other is self

    def sym_iterate(self, interp, node=None):
        raise Unsupported("iteration over an abstract label list of symbolic length")


def _gen_over(interp, gen):
    """If `gen` is a single-generator comprehension over a symbolic collection, return (collection, generator)."""
    g = gen.node.generators
    if len(g) != 1:
        return None, None
    it = interp.ev(g[0].iter, gen.env)
    gen.__dict__['_iter_value'] = it
    return it, g[0]


def try_symbolic_anyall(interp, gen, node, is_any):   # noqa: F811  (replaces the stub above)
    from .interp import Env
    it, g = _gen_over(interp, gen)
    if it is None:
        return None
    if isinstance(it, LabelList):
        # the list is non-empty and all elements are label strings: evaluate the predicate on a generic element
        sc = Env(gen.env)
        interp.assign(g.target, it.sym_elementwise(interp), sc)
        for c in g.ifs:
            raise Unsupported("filtered any/all over an abstract label list")
        v = interp.ev(gen.node.elt, sc)
        if isinstance(v, bool):
            return v          # same answer for every element; list non-empty
        raise Unsupported("any/all over an abstract label list with an element-dependent predicate")
    if hasattr(it, 'sym_anyall'):
        return it.sym_anyall(interp, gen, g, is_any, node)
    return None


# ===================================================================================== maps Substance -> amount of arbitrary size
import ast as _ast
from fractions import Fraction as _F
from . import spec as _spec

ArrR = _z3.ArraySort(Sub, RS)
ArrB = _z3.ArraySort(Sub, BS)

# canonical weighted sums over a contents map (DESIGN §4.3): WS_k(amt) = sum_x W_k(x) * amt[x]
# (amt[x] = 0 outside the key set by the representation convention, so the sums depend on amt only)
WS = {k: _z3.Function('WS_' + k, ArrR, RS) for k in ('vol', 'mass', 'mol', 'act')}
ANYLIQ = _z3.Function('any_liquid', ArrB, BS)
_adhoc_ws = {}
_anyfuns = {}


def storage_si(cfg, which):
    u = cfg.get('volume_storage_unit') if which == 'L' else cfg.get('moles_storage_unit')
    return _spec.SI[_spec.split_unit(u)[0]]


def weight(k, x, ms):
    """W_k(x): contribution of one *stored unit* of substance x (ms = SI factor of the moles storage unit).
    vol in litres, mass in grams, mol in moles (non-enzymes only), act in U (enzymes only)."""
    S = _spec.SubSpec(kind(x), mw(x), dens(x), sa(x))
    enz = kind(x) == 3
    msz = _spec.num(ms)
    if k == 'vol':
        return _z3.If(enz, _spec.factor(_spec.SubSpec(3, mw(x), dens(x), sa(x)), 'U', 'L'),
                      msz * _spec.factor(_spec.SubSpec(1, mw(x), dens(x), sa(x)), 'mol', 'L'))
    if k == 'mass':
        return _z3.If(enz, 1 / sa(x), msz * mw(x))
    if k == 'mol':
        return _z3.If(enz, _z3.RealVal(0), msz)
    if k == 'act':
        return _z3.If(enz, _z3.RealVal(1), _z3.RealVal(0))
    raise KeyError(k)


def sub_wf_term(x):
    return _z3.And(kind(x) >= 1, kind(x) <= 3, mw(x) > 0, dens(x) > 0, sa(x) > 0)


class SymMap:
    """dict[Substance, float] with an arbitrary (unbounded) key set: arrays amt, mem."""
    py_type = 'dict'
    py_iterable = True

    def __init__(self, amt=None, mem=None, fresh_=False, tag=None):
        tag = tag or f"m{next(V._ctr)}"
        self.amt = amt if amt is not None else _z3.Const(f'amt_{tag}', ArrR)
        self.mem = mem if mem is not None else _z3.Const(f'mem_{tag}', ArrB)
        self.fresh = fresh_
        self.tag = tag
        self.owner = None

    def __repr__(self):
        return f"SymMap({self.tag})"

    # representation convention + non-negativity for an input map
    def wf(self):
        x = _z3.Const('x!wf', Sub)
        return _z3.And(_z3.ForAll([x], _z3.Implies(_z3.Not(self.mem[x]), self.amt[x] == 0)),
                       _z3.ForAll([x], self.amt[x] >= 0))

    def _term(self, interp, k):
        if not _B.is_substance(k):
            return None
        return _B.sub_term(interp, k)

    def sym_getitem(self, interp, k, node=None):
        t = self._term(interp, k)
        if t is None or not interp.decide(self.mem[t], f"key present@{getattr(node, 'lineno', None)}"):
            raise Raised('KeyError', getattr(node, 'lineno', None), repr(k), implicit=True)
        return self.amt[t]

    def sym_setitem(self, interp, k, value, node=None):
        t = self._term(interp, k)
        if t is None:
            raise Unsupported("non-substance key in a contents map")
        if not self.fresh:
            interp.writes.append((self.owner or self, 'contents[...]', getattr(node, 'lineno', None),
                                  interp.call_stack[-1] if interp.call_stack else '?'))
        if not is_num(value):
            raise Unsupported("non-numeric amount stored in a contents map")
        self.amt = _z3.Store(self.amt, t, real(value))
        self.mem = _z3.Store(self.mem, t, True)

    def sym_contains(self, interp, item, node=None):
        t = self._term(interp, item)
        if t is None:
            return False
        return self.mem[t]

    def sym_getattr(self, interp, attr, node=None):
        if attr == 'get':
            return BoundV(self, BuiltinV('SymMap.get', SymMap._get))
        if attr in ('items', 'keys', 'values'):
            return BoundV(self, BuiltinV('SymMap.' + attr, lambda i, a, k, n, attr=attr: SymMapView(a[0], attr)))
        if attr == 'copy':
            return BoundV(self, BuiltinV('SymMap.copy', lambda i, a, k, n: SymMap(a[0].amt, a[0].mem, True)))
        if hasattr(dict, attr):
            raise Unsupported(f"dict.{attr} on a symbolic contents map")
        raise Raised('AttributeError', getattr(node, 'lineno', None), attr, implicit=True)

    @staticmethod
    def _get(interp, args, kwargs, node):
        self, k = args[0], args[1]
        d = args[2] if len(args) > 2 else None
        t = self._term(interp, k)
        if t is None:
            return d
        if d is None:
            if interp.decide(self.mem[t], "key present (get)"):
                return self.amt[t]
            return None
        return _z3.If(self.mem[t], self.amt[t], real(d))

    def sym_deepcopy(self, interp, memo):
        return SymMap(self.amt, self.mem, True, self.tag + "'")

    def sym_copy(self, interp):
        return SymMap(self.amt, self.mem, True, self.tag + "'")

    def sym_equals(self, interp, other):
        if isinstance(other, SymMap):
            return _z3.And(self.amt == other.amt, self.mem == other.mem)
        if isinstance(other, dict):
            if not other:
                x = _z3.Const('x!eq', Sub)
                return _z3.ForAll([x], _z3.Not(self.mem[x]))
            raise Unsupported("symbolic map compared with a concrete dict")
        return False

    def sym_iterate(self, interp, node=None):
        raise Unsupported("iteration over a contents map of arbitrary size outside a loop/sum")

    def sym_loop(self, interp, st, env):
        return SymMapView(self, 'keys').sym_loop(interp, st, env)

    def sym_truth(self, interp):
        f = _anyfuns.setdefault('nonempty', _z3.Function('nonempty', ArrB, BS))
        return f(self.mem)

    def sym_toset(self, interp, node=None):
        return SymSubSet(self.mem)

    def enum(self, interp):
        """(key, idx, n): an enumeration of the current key set in iteration order (quantified axioms, tag 'enum')."""
        cache = interp.__dict__.setdefault('_enums', {})
        kid = self.mem.get_id()
        if kid not in cache:
            i = next(V._ctr)
            key = _z3.Function(f'key{i}', IS, Sub)
            idx = _z3.Function(f'idx{i}', Sub, IS)
            n = _z3.Int(f'n{i}')
            x = _z3.Const('x!en', Sub)
            j = _z3.Int('j!en')
            old = interp.cur_tag
            interp.cur_tag = 'enum'
            interp.assume(n >= 0)
            interp.assume(_z3.ForAll([x], _z3.Implies(self.mem[x], _z3.And(idx(x) >= 0, idx(x) < n, key(idx(x)) == x))))
            interp.assume(_z3.ForAll([j], _z3.Implies(_z3.And(j >= 0, j < n), _z3.And(self.mem[key(j)], idx(key(j)) == j))))
            interp.cur_tag = old
            cache[kid] = (key, idx, n)
            interp.__dict__.setdefault('_enum_keep', []).append(self.mem)
        return cache[kid]


class SymMapView:
    """contents.items() / .keys() / .values() of a SymMap."""
    py_iterable = True

    def __init__(self, m, kind_):
        self.m = m
        self.kind = kind_

    def sym_iterate(self, interp, node=None):
        raise Unsupported("iteration over a contents map of arbitrary size outside a loop/sum")

    def bind_generic(self, interp, target, env, x, a):
        """Bind the loop/comprehension target to the generic element (x, a)."""
        if self.kind == 'items':
            interp.assign(target, (SubV(x), a), env)
        elif self.kind == 'keys':
            interp.assign(target, SubV(x), env)
        else:
            interp.assign(target, a, env)

    def sym_loop(self, interp, st, env):
        from . import loops
        return loops.loop_over_map(interp, st, env, self)

    def sym_toset(self, interp, node=None):
        if self.kind == 'keys':
            return SymSubSet(self.m.mem)
        raise Unsupported("set() of map values")

    def sym_sum(self, interp, start, node=None):
        if self.kind != 'values':
            raise Unsupported("sum over keys")
        x = fresh('x', Sub)
        a = _z3.Real('a!gen')
        r = recognise_sum(interp, a, x, a, self.m)
        return interp.binop(_ast.Add(), start, r, node)


class SymSubSet:
    """A set of substances of arbitrary size (key set of a contents map)."""
    py_iterable = True

    def __init__(self, mem):
        self.mem = mem

    def sym_contains(self, interp, item, node=None):
        if not _B.is_substance(item):
            return False
        return self.mem[_B.sub_term(interp, item)]

    def sym_difference(self, interp, others, node=None):
        mem = self.mem
        x = _z3.Const('x!sd', Sub)
        for o in others:
            if isinstance(o, SymSubSet):
                mem = _z3.Lambda([x], _z3.And(mem[x], _z3.Not(o.mem[x])))
            else:
                raise Unsupported("set difference with a non-symbolic set")
        return SymSubSet(mem)

    def sym_union(self, interp, others, node=None):
        mem = self.mem
        x = _z3.Const('x!su', Sub)
        for o in others:
            if isinstance(o, SymSubSet):
                mem = _z3.Lambda([x], _z3.Or(mem[x], o.mem[x]))
            else:
                raise Unsupported("set union with a non-symbolic set")
        return SymSubSet(mem)

    def sym_add(self, interp, item, node=None):
        if getattr(self, 'frozen', False):
            raise Raised('AttributeError', getattr(node, 'lineno', None), "'frozenset' object has no attribute 'add'", implicit=True)
        self.mem = _z3.Store(self.mem, _B.sub_term(interp, item), True)

    def sym_freeze(self, interp):
        r = SymSubSet(self.mem)
        r.frozen = True
        return r

    def sym_toset(self, interp, node=None):
        return SymSubSet(self.mem)           # set(<set of substances>): a new set with the same elements

    def sym_equals(self, interp, other):
        if isinstance(other, SymSubSet):
            return self.mem == other.mem
        return False

    def sym_iterate(self, interp, node=None):
        raise Unsupported("iteration over a set of substances of arbitrary size")

    def sym_deepcopy(self, interp, memo):
        return SymSubSet(self.mem)


# ------------------------------------------------------------------------------------- recognising weighted sums
SAMPLES = [
    # (kind, mw, dens, sa)
    (1, _F(7), _F(3), _F(5)), (2, _F(11), _F(13, 10), _F(17)), (3, _F(19), _F(23, 10), _F(29)),
    (2, _F(2), _F(31, 10), _F(37)),
]


def _eval_at(term, x, a, sample, aval):
    k, m, d, s = sample
    subs = [(kind(x), _z3.IntVal(k)), (mw(x), _spec.num(m)), (dens(x), _spec.num(d)), (sa(x), _spec.num(s)),
            (a, _spec.num(aval))]
    v = _z3.simplify(_z3.substitute(term, *subs))
    from .solve import val_to_fraction
    return val_to_fraction(v)


def recognise_sum(interp, term, x, a, m):
    """term(x, a) is the contribution of key x with amount a.  Returns c * WS_k(m.amt) if term == c * W_k(x) * a for
    all substances x (checked by the solver), else an ad-hoc uninterpreted sum."""
    term = real(term)
    ms = storage_si(interp.cfg, 'mol')
    ts = _z3.simplify(term)
    # identically zero?
    wfx = sub_wf_term(x)
    from . import solve
    for k in ('vol', 'mass', 'mol', 'act'):
        W = weight(k, x, ms)
        c = None
        for smp in SAMPLES:
            wv = _eval_at(W, x, a, smp, 1)
            tv = _eval_at(term, x, a, smp, 1)
            if wv is None or tv is None:
                c = None
                break
            if wv != 0:
                c = tv / wv
                break
        if c is None:
            continue
        # (only keys of the map contribute: the equality is needed for x in the key set)
        st, _, _, _ = solve.check_sat([wfx, m.mem[x], term != _spec.num(c) * W * a], 5000, False, False)
        if st == 'unsat':
            interp.notes.append(f"sum recognised: {c} * WS_{k}")
            if c == 0:
                return _z3.RealVal(0)
            return _spec.num(c) * WS[k](m.amt)
    key = ts.sexpr()
    if key not in _adhoc_ws:
        _adhoc_ws[key] = _z3.Function(f'WSadhoc{len(_adhoc_ws)}', ArrR, ArrB, RS)
    interp.notes.append(f"sum NOT recognised as a canonical weighted sum: {key[:200]}")
    return _adhoc_ws[key](m.amt, m.mem)


def try_symbolic_sum(interp, gen, node):   # noqa: F811
    """sum(<elt> for <target> in <symbolic map view> [if <cond>])"""
    from .interp import Env, MergeAbort
    it, g = _gen_over(interp, gen)
    if it is None:
        return None
    if isinstance(it, SymMap):
        it = SymMapView(it, 'keys')
    if not isinstance(it, SymMapView):
        if hasattr(it, 'sym_gensum'):
            return it.sym_gensum(interp, gen, g, node)
        return None
    x = fresh('x', Sub)
    a = fresh('a', RS)
    m = it.m
    sc = Env(gen.env)
    interp.solver.push()
    nh = len(interp.hyps)
    interp.pure += 1
    try:
        interp.assume(m.mem[x])
        interp.assume(sub_wf_term(x))
        interp.assume(a == m.amt[x])
        it.bind_generic(interp, g.target, sc, x, a)
        term = interp.ev(gen.node.elt, sc)
        if not is_num(term):
            raise MergeAbort("non-numeric summand")
        term = real(term)
        for c in g.ifs:
            cv = interp.ev(c, sc)
            if isinstance(cv, bool):
                if not cv:
                    term = _z3.RealVal(0)
            elif is_symbool(cv):
                term = _z3.If(cv, term, _z3.RealVal(0))
            else:
                raise MergeAbort("non-boolean filter")
    except MergeAbort as e:
        raise Unsupported(f"sum over a contents map: {e}")
    except Raised as e:
        raise Unsupported(f"sum over a contents map: summand raises {e.cls} (line {e.lineno})")
    finally:
        interp.pure -= 1
        del interp.hyps[nh:]
        del interp.hyp_tags[nh:]
        interp.solver.pop()
    # the summand may mention m.amt[x] (e.g. self.contents[substance]) instead of a
    term = _z3.substitute(term, (m.amt[x], a))
    return recognise_sum(interp, term, x, a, m)


_old_anyall = try_symbolic_anyall


def try_symbolic_anyall(interp, gen, node, is_any):   # noqa: F811
    from .interp import Env, MergeAbort
    it, g = _gen_over(interp, gen)
    if it is None:
        return None
    if isinstance(it, SymMap):
        it = SymMapView(it, 'keys')
    if isinstance(it, SymMapView):
        x = fresh('x', Sub)
        a = fresh('a', RS)
        sc = Env(gen.env)
        interp.solver.push()
        nh = len(interp.hyps)
        interp.pure += 1
        try:
            interp.assume(it.m.mem[x])
            interp.assume(sub_wf_term(x))
            it.bind_generic(interp, g.target, sc, x, a)
            if g.ifs:
                raise MergeAbort("filtered any/all")
            p = interp.ev(gen.node.elt, sc)
        except MergeAbort as e:
            raise Unsupported(f"any/all over a contents map: {e}")
        except Raised as e:
            raise Unsupported(f"any/all over a contents map: predicate raises {e.cls}")
        finally:
            interp.pure -= 1
            del interp.hyps[nh:]
            del interp.hyp_tags[nh:]
            interp.solver.pop()
        if isinstance(p, bool):
            ne = it.m.sym_truth(interp)
            return (ne if p else False) if is_any else (True if p else _z3.Not(ne))
        key = ('any' if is_any else 'all') + ':' + _z3.simplify(p).sexpr().replace(str(x), 'X')
        f = _anyfuns.setdefault(key, _z3.Function(f'quant{len(_anyfuns)}', ArrB, BS))
        return f(it.m.mem)
    return _old_anyall(interp, gen, node, is_any)


def try_symbolic_dictcomp(interp, e, env):   # noqa: F811
    """{k: v for k, v in m.items() if cond(k)}: a pointwise filter of a symbolic map."""
    from .interp import Env, MergeAbort
    if len(e.generators) != 1:
        return None
    g = e.generators[0]
    it = interp.ev(g.iter, env)
    if isinstance(it, SymSubSet):
        return _dictcomp_over_set(interp, e, env, g, it)
    if not isinstance(it, SymMapView) or it.kind != 'items':
        if isinstance(it, (SymMap, SymMapView)):
            raise Unsupported("dict comprehension over keys/values of a symbolic map")
        return None
    m = it.m
    x = _z3.Const(f'x!dc{next(V._ctr)}', Sub)
    a = m.amt[x]
    sc = Env(env)
    interp.solver.push()
    nh = len(interp.hyps)
    interp.pure += 1
    try:
        interp.assume(m.mem[x])
        interp.assume(sub_wf_term(x))
        it.bind_generic(interp, g.target, sc, x, a)
        kv = interp.ev(e.key, sc)
        vv = interp.ev(e.value, sc)
        if not (isinstance(kv, SubV) and kv.term.eq(x)):
            raise MergeAbort("key of the comprehension is not the iterated key")
        if not is_num(vv):
            raise MergeAbort("non-numeric value")
        keep = True
        for c in g.ifs:
            cv = interp.ev(c, sc)
            keep = cv if keep is True else _z3.And(boolz(keep), boolz(cv))
    except MergeAbort as ex:
        raise Unsupported(f"dict comprehension over a contents map: {ex}")
    except Raised as ex:
        raise Unsupported(f"dict comprehension over a contents map: raises {ex.cls}")
    finally:
        interp.pure -= 1
        del interp.hyps[nh:]
        del interp.hyp_tags[nh:]
        interp.solver.pop()
    keepz = boolz(keep)
    mem2 = _z3.Lambda([x], _z3.And(m.mem[x], keepz))
    amt2 = _z3.Lambda([x], _z3.If(_z3.And(m.mem[x], keepz), real(vv), _z3.RealVal(0)))
    r = SymMap(amt2, mem2, True)
    return r


# ===================================================================================== name-keyed symbolic collections (recipes)
ArrNB = _z3.ArraySort(Name, BS)
_card = _z3.Function('card', ArrNB, IS)


def name_term(interp, v):
    if isinstance(v, NameV):
        return v.term
    if isinstance(v, str):
        return _B.name_const(interp, v)
    return None


class NameDict:
    """dict[str, object] of arbitrary size known only through its key set (results, stages of a Recipe)."""
    py_type = 'dict'
    py_iterable = True

    def __init__(self, mem=None, fresh_=False, tag='d', value_factory=None):
        self.mem = mem if mem is not None else _z3.Const(f'keys_{tag}', ArrNB)
        self.fresh = fresh_
        self.tag = tag
        self.known = []        # list of (name term, value) stored during this run, newest last
        self.value_factory = value_factory
        self.owner = None

    def sym_contains(self, interp, item, node=None):
        t = name_term(interp, item)
        if t is None:
            return False
        return self.mem[t]

    def sym_getitem(self, interp, k, node=None):
        t = name_term(interp, k)
        if t is None or not interp.decide(self.mem[t], f"name in {self.tag}"):
            raise Raised('KeyError', getattr(node, 'lineno', None), repr(k), implicit=True)
        for kt, v in reversed(self.known):
            if kt.eq(t):
                return v
            if interp.decide(kt == t, f"same name as a stored key ({self.tag})"):
                return v
        if self.value_factory is not None:
            v = self.value_factory(interp, t)
            self.known.append((t, v))
            return v
        return Opaque(f'{self.tag}[{t}]')

    def sym_setitem(self, interp, k, value, node=None):
        t = name_term(interp, k)
        if t is None:
            raise Unsupported("non-string key in a name dictionary")
        if not self.fresh:
            interp.writes.append((self.owner or self, f'{self.tag}[...]', getattr(node, 'lineno', None),
                                  interp.call_stack[-1] if interp.call_stack else '?'))
        self.mem = _z3.Store(self.mem, t, True)
        self.known.append((t, value))

    def sym_getattr(self, interp, attr, node=None):
        if attr == 'keys':
            return BoundV(self, BuiltinV('NameDict.keys', lambda i, a, k, n: a[0]))
        if attr == 'values':
            return BoundV(self, BuiltinV('NameDict.values', lambda i, a, k, n: NameDictValues(a[0])))
        if attr == 'get':
            raise Unsupported("NameDict.get")
        if attr == 'update':
            return BoundV(self, BuiltinV('NameDict.update', NameDict._update))
        if hasattr(dict, attr):
            raise Unsupported(f"dict.{attr} on a symbolic name dictionary")
        raise Raised('AttributeError', getattr(node, 'lineno', None), attr, implicit=True)

    @staticmethod
    def _update(interp, args, kwargs, node):
        """d.update(pairs | dict, **kw): the stores of d[k] = v one after another, in order (a later equal key wins)"""
        from .values import GenV
        self = args[0]
        pairs = []
        if len(args) > 1:
            src = args[1]
            if isinstance(src, GenV):
                src = interp.comprehend(src.node, src.env)
            if isinstance(src, dict):
                pairs = list(src.items())
            elif isinstance(src, (list, tuple)):
                for p in src:
                    if not (isinstance(p, (tuple, list)) and len(p) == 2):
                        raise Unsupported("dict.update with an element that is not a pair")
                    pairs.append((p[0], p[1]))
            else:
                raise Unsupported(f"dict.update from {type(src).__name__}")
        pairs += list(kwargs.items())
        for k_, v_ in pairs:
            self.sym_setitem(interp, k_, v_, node)
        return None

    def sym_len(self, interp, node=None):
        c = _card(self.mem)
        interp.assume(c >= 0)
        return c

    def sym_deepcopy(self, interp, memo):
        d = NameDict(self.mem, True, self.tag, self.value_factory)
        d.known = list(self.known)
        return d

    def sym_iterate(self, interp, node=None):
        raise Unsupported("iteration over a name dictionary of arbitrary size")

    def sym_equals(self, interp, other):
        return other is self


class NameFiltered:
    """[name for name in <name dict / name set> if cond(name)]: known only through whether it is empty
    (exists n. n in d and cond(n)); its text (', '.join(...)) is opaque."""
    py_iterable = True
    py_type = 'list'

    def __init__(self, nonempty):
        self.nonempty = nonempty

    def sym_truth(self, interp):
        return self.nonempty

    def sym_iterate(self, interp, node=None):
        raise Unsupported("iteration over a filtered name collection of arbitrary size")


def names_comprehension(interp, e, env, coll):
    """list comprehension with one generator over the keys of a NameDict / a NameSet whose element is the loop variable"""
    from .interp import Env
    g = e.generators[0]
    if not (isinstance(g.target, ast.Name) and isinstance(e.elt, ast.Name) and e.elt.id == g.target.id):
        raise Unsupported("comprehension over a name collection of arbitrary size")
    n = fresh('n!comp', Name)
    sc = Env(env)
    sc.set(g.target.id, NameV(n))
    cond = _z3.BoolVal(True)
    interp.pure += 1
    try:
        for c in g.ifs:
            v = interp.ev(c, sc)
            cond = _z3.And(cond, boolz(v))
    finally:
        interp.pure -= 1
    return NameFiltered(_z3.Exists([n], _z3.And(coll.mem[n], cond)))


class NameDictValues:
    py_iterable = True

    def __init__(self, d):
        self.d = d

    def sym_iterate(self, interp, node=None):
        raise Unsupported("iteration over the values of a name dictionary of arbitrary size")

    def sym_anyall(self, interp, gen, g, is_any, node):
        # all(isinstance(elem, (Container, Plate)) for elem in self.results.values()): the values stored during this run
        # are checked; the arbitrary earlier ones are Containers/Plates by the class invariant of Recipe.results
        from .interp import Env
        if is_any or g.ifs:
            return fresh('anyvalues', BS)
        ok = True
        for kt, v in self.d.known:
            sc = Env(gen.env)
            interp.assign(g.target, v, sc)
            r = interp.ev(gen.node.elt, sc)
            if r is not True:
                ok = False
        return ok if self.d.known else fresh('allvalues', BS)


class NameSet:
    """set[str] of arbitrary size."""
    py_iterable = True

    def __init__(self, mem=None, fresh_=False, tag='s'):
        self.mem = mem if mem is not None else _z3.Const(f'set_{tag}', ArrNB)
        self.fresh = fresh_
        self.tag = tag
        self.owner = None

    def sym_contains(self, interp, item, node=None):
        t = name_term(interp, item)
        if t is None:
            return False
        return self.mem[t]

    def sym_add(self, interp, item, node=None):
        t = name_term(interp, item)
        if t is None:
            raise Unsupported("non-string element in a name set")
        if not self.fresh:
            interp.writes.append((self.owner or self, f'{self.tag}.add', getattr(node, 'lineno', None),
                                  interp.call_stack[-1] if interp.call_stack else '?'))
        old = self.mem
        self.mem = _z3.Store(self.mem, t, True)
        # cardinality of a one-element extension
        interp.assume(_card(self.mem) == _card(old) + _z3.If(old[t], 0, 1))

    def sym_getattr(self, interp, attr, node=None):
        if attr == 'add':
            return BoundV(self, BuiltinV('NameSet.add', lambda i, a, k, n: a[0].sym_add(i, a[1], n)))
        if hasattr(set, attr):
            raise Unsupported(f"set.{attr} on a symbolic name set")
        raise Raised('AttributeError', getattr(node, 'lineno', None), attr, implicit=True)

    def sym_len(self, interp, node=None):
        c = _card(self.mem)
        interp.assume(c >= 0)
        return c

    def sym_deepcopy(self, interp, memo):
        return NameSet(self.mem, True, self.tag)

    def sym_iterate(self, interp, node=None):
        raise Unsupported("iteration over a name set of arbitrary size")


class SymList:
    """list of arbitrary length known through its length and what is appended during the run (Recipe.steps)."""
    py_type = 'list'
    py_iterable = True

    def __init__(self, n=None, fresh_=False, tag='l', elem_factory=None):
        self.n = n if n is not None else _z3.Int(f'len_{tag}')
        self.n0 = self.n
        self.fresh = fresh_
        self.tag = tag
        self.appended = []
        self.elem_factory = elem_factory
        self.owner = None

    def sym_len(self, interp, node=None):
        return self.n

    def sym_getattr(self, interp, attr, node=None):
        if attr == 'append':
            return BoundV(self, BuiltinV('SymList.append', SymList._append))
        if hasattr(list, attr):
            raise Unsupported(f"list.{attr} on a symbolic list")
        raise Raised('AttributeError', getattr(node, 'lineno', None), attr, implicit=True)

    @staticmethod
    def _append(interp, args, kwargs, node):
        self, x = args[0], args[1]
        if not self.fresh:
            interp.writes.append((self.owner or self, f'{self.tag}.append', getattr(node, 'lineno', None),
                                  interp.call_stack[-1] if interp.call_stack else '?'))
        self.appended.append(x)
        self.n = self.n + 1

    def sym_getitem(self, interp, k, node=None):
        if isinstance(k, SliceV):
            return SymListSlice(self, k)
        raise Unsupported("indexing a symbolic list")

    def sym_iterate(self, interp, node=None):
        raise Unsupported("iteration over a list of arbitrary length outside a cut loop")

    def sym_loop(self, interp, st, env):
        from . import loops
        return loops.loop_over_list(interp, st, env, self)

    def sym_deepcopy(self, interp, memo):
        l = SymList(self.n, True, self.tag, self.elem_factory)
        l.appended = list(self.appended)
        return l

    def sym_truth(self, interp):
        return self.n > 0


class SymListDerived(SymList):
    """[x for x in <list of arbitrary length> (if cond)]: a NEW list holding the elements of `base` in order — all of them
    (unfiltered) or an unknown sub-sequence (filtered; the conditions are not evaluated: over-approximation)."""

    def __init__(self, base, filtered):
        n = base.n
        if filtered:
            n = _z3.Int(f'len_{base.tag}_f{next(V._ctr)}')
        super().__init__(n, True, base.tag + ("'f" if filtered else "'"))
        self.base, self.filtered = base, filtered
        self.appended = [] if filtered else list(base.appended)


class SymListSlice:
    py_iterable = True

    def __init__(self, lst, sl):
        self.lst, self.sl = lst, sl

    def sym_iterate(self, interp, node=None):
        raise Unsupported("iteration over a slice of a symbolic list outside a cut loop")

    def sym_loop(self, interp, st, env):
        from . import loops
        return loops.loop_over_list(interp, st, env, self.lst, self.sl)

    def sym_reversed(self, interp, node=None):
        return self


def _dictcomp_over_set(interp, e, env, g, sset):
    """{x: f(x) for x in <symbolic set of substances>}: a map with exactly that key set."""
    from .interp import Env, MergeAbort
    x = _z3.Const(f'x!ds{next(V._ctr)}', Sub)
    sc = Env(env)
    interp.solver.push()
    nh = len(interp.hyps)
    no = len(interp.obls)
    interp.pure += 1
    keyerr = None
    try:
        interp.assume(sset.mem[x])
        interp.assume(sub_wf_term(x))
        interp.assign(g.target, SubV(x), sc)
        if g.ifs:
            raise MergeAbort("filtered comprehension over a symbolic set")
        kv = interp.ev(e.key, sc)
        if not (isinstance(kv, SubV) and kv.term.eq(x)):
            raise MergeAbort("key is not the iterated element")
        try:
            vv = interp.ev(e.value, sc)
        except MergeAbort as ex:
            # typically m[x] for a map m that need not contain x: the real code would raise KeyError there
            raise Unsupported(f"dict comprehension over a symbolic set: {ex}")
        if not is_num(vv):
            raise MergeAbort("non-numeric value")
    except MergeAbort as ex:
        raise Unsupported(f"dict comprehension over a symbolic set: {ex}")
    except Raised as ex:
        raise Unsupported(f"dict comprehension over a symbolic set raises {ex.cls}")
    finally:
        interp.pure -= 1
        del interp.hyps[nh:]
        del interp.hyp_tags[nh:]
        del interp.obls[no:]
        interp.solver.pop()
    amt = _z3.Lambda([x], _z3.If(sset.mem[x], real(vv), _z3.RealVal(0)))
    mem = _z3.Lambda([x], sset.mem[x])
    return SymMap(amt, mem, True)


def pointwise_update_loop(interp, st, env, sset):
    """for x in <symbolic set>: d[x] = <expr(x, d.get(x, 0))>  — summarised as a pointwise map update."""
    import ast as _a
    from .interp import MergeAbort
    if st.orelse or len(st.body) != 1 or not isinstance(st.body[0], _a.Assign) or len(st.body[0].targets) != 1:
        return False
    tgt = st.body[0].targets[0]
    if not (isinstance(tgt, _a.Subscript) and isinstance(st.target, _a.Name) and isinstance(tgt.slice, _a.Name)
            and tgt.slice.id == st.target.id):
        return False
    d = interp.ev(tgt.value, env)
    if isinstance(d, dict) and not d:
        d = SymMap(_z3.K(Sub, _z3.RealVal(0)), _z3.K(Sub, _z3.BoolVal(False)), True)
        interp.assign(tgt.value, d, env)
    if not isinstance(d, SymMap):
        return False
    x = _z3.Const(f'x!pu{next(V._ctr)}', Sub)
    interp.solver.push()
    nh = len(interp.hyps)
    interp.pure += 1
    try:
        interp.assume(sset.mem[x])
        interp.assume(sub_wf_term(x))
        env.set(st.target.id, SubV(x))
        vv = interp.ev(st.body[0].value, env)
        if not is_num(vv):
            raise MergeAbort("non-numeric")
    except (MergeAbort, Raised):
        return False
    finally:
        interp.pure -= 1
        del interp.hyps[nh:]
        del interp.hyp_tags[nh:]
        interp.solver.pop()
    d.amt = _z3.Lambda([x], _z3.If(sset.mem[x], real(vv), d.amt[x]))
    d.mem = _z3.Lambda([x], _z3.Or(sset.mem[x], d.mem[x]))
    env.set(st.target.id, Undefined(st.target.id))
    return True


def _sss_loop(self, interp, st, env):
    if pointwise_update_loop(interp, st, env, self):
        return
    raise Unsupported("loop over a set of substances of arbitrary size (not a pointwise update)")


SymSubSet.sym_loop = _sss_loop


def conditional_items_update_loop(interp, st, env, view):
    """for k, a in m.items(): [if <cond(k)>:] d[k] = <expr(k, a, d.get(k, 0))>   — a pointwise (conditional) update of
    another map d by the items of m."""
    import ast as _a
    from .interp import MergeAbort
    if st.orelse or len(st.body) != 1 or view.kind != 'items':
        return False
    inner = st.body[0]
    cond_node = None
    if isinstance(inner, _a.If) and not inner.orelse and len(inner.body) == 1:
        cond_node, inner = inner.test, inner.body[0]
    if not (isinstance(inner, _a.Assign) and len(inner.targets) == 1 and isinstance(inner.targets[0], _a.Subscript)):
        return False
    tgt = inner.targets[0]
    if not (isinstance(st.target, _a.Tuple) and len(st.target.elts) == 2 and isinstance(st.target.elts[0], _a.Name)
            and isinstance(tgt.slice, _a.Name) and tgt.slice.id == st.target.elts[0].id):
        return False
    d = interp.ev(tgt.value, env)
    if isinstance(d, dict) and not d:
        d = SymMap(_z3.K(Sub, _z3.RealVal(0)), _z3.K(Sub, _z3.BoolVal(False)), True)
        interp.assign(tgt.value, d, env)
    if not isinstance(d, SymMap) or d is view.m:
        return False
    m = view.m
    x = _z3.Const(f'x!cu{next(V._ctr)}', Sub)
    interp.solver.push()
    nh = len(interp.hyps)
    interp.pure += 1
    try:
        interp.assume(m.mem[x])
        interp.assume(sub_wf_term(x))
        view.bind_generic(interp, st.target, env, x, m.amt[x])
        cond = True
        if cond_node is not None:
            cond = interp.ev(cond_node, env)
            if not (isinstance(cond, bool) or is_symbool(cond)):
                raise MergeAbort("non-boolean condition")
        vv = interp.ev(inner.value, env)
        if not is_num(vv):
            raise MergeAbort("non-numeric")
    except (MergeAbort, Raised):
        return False
    finally:
        interp.pure -= 1
        del interp.hyps[nh:]
        del interp.hyp_tags[nh:]
        interp.solver.pop()
    hit = _z3.And(m.mem[x], boolz(cond))
    d.amt = _z3.Lambda([x], _z3.If(hit, real(vv), d.amt[x]))
    d.mem = _z3.Lambda([x], _z3.Or(hit, d.mem[x]))
    for el in st.target.elts:
        if isinstance(el, _a.Name):
            env.set(el.id, Undefined(el.id))
    return True


class MappedView:
    """map(f, m.items()) over a contents map of arbitrary size: only consumable by sum()."""
    py_iterable = True

    def __init__(self, view, f):
        self.view, self.f = view, f

    def sym_iterate(self, interp, node=None):
        raise Unsupported("iteration over map(f, <contents map of arbitrary size>) outside sum()")

    def sym_sum(self, interp, start, node=None):
        from .interp import MergeAbort
        m = self.view.m
        x = fresh('x', Sub)
        a = fresh('a', RS)
        interp.solver.push()
        nh = len(interp.hyps)
        interp.pure += 1
        try:
            interp.assume(m.mem[x])
            interp.assume(sub_wf_term(x))
            interp.assume(a == m.amt[x])
            elem = (SubV(x), a) if self.view.kind == 'items' else (SubV(x) if self.view.kind == 'keys' else a)
            term = interp.call(self.f, [elem], {}, node)
            if not is_num(term):
                raise MergeAbort("non-numeric summand")
        except MergeAbort as e:
            raise Unsupported(f"sum(map(f, contents)): {e}")
        except Raised as e:
            raise Unsupported(f"sum(map(f, contents)): f raises {e.cls}")
        finally:
            interp.pure -= 1
            del interp.hyps[nh:]
            del interp.hyp_tags[nh:]
            interp.solver.pop()
        term = _z3.substitute(real(term), (m.amt[x], a))
        r = recognise_sum(interp, term, x, a, m)
        return interp.binop(_ast.Add(), start, r, node) if not (isinstance(start, int) and start == 0) else r


def _view_sym_map(self, interp, f, node=None):
    return MappedView(self, f)


SymMapView.sym_map = _view_sym_map


def setcomp_over_set(interp, e, env, sset):
    """{x for x in <symbolic set> if cond(x)}"""
    from .interp import Env, MergeAbort
    g = e.generators[0]
    x = _z3.Const(f'x!sc{next(V._ctr)}', Sub)
    sc = Env(env)
    interp.solver.push()
    nh = len(interp.hyps)
    interp.pure += 1
    try:
        interp.assume(sset.mem[x])
        interp.assume(sub_wf_term(x))
        interp.assign(g.target, SubV(x), sc)
        elt = interp.ev(e.elt, sc)
        if not (isinstance(elt, SubV) and elt.term.eq(x)):
            raise MergeAbort("element is not the iterated substance")
        keep = True
        for c in g.ifs:
            cv = interp.ev(c, sc)
            keep = cv if keep is True else _z3.And(boolz(keep), boolz(cv))
    except MergeAbort as ex:
        raise Unsupported(f"set comprehension over a symbolic set: {ex}")
    except Raised as ex:
        raise Unsupported(f"set comprehension over a symbolic set raises {ex.cls}")
    finally:
        interp.pure -= 1
        del interp.hyps[nh:]
        del interp.hyp_tags[nh:]
        interp.solver.pop()
    return SymSubSet(_z3.Lambda([x], _z3.And(sset.mem[x], boolz(keep))))
