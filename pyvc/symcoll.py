"""Symbolic collections (maps of arbitrary size, ranges, lists) — filled in below."""
from .values import *   # noqa: F401,F403


def try_symbolic_sum(interp, gen, node):
    return None


def try_symbolic_anyall(interp, gen, node, is_any):
    return None


def try_symbolic_dictcomp(interp, e, env):
    return None


class SymRange:
    def __init__(self, interp, args):
        raise Unsupported("symbolic range")
