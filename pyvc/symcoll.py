"""Symbolic collections (maps of arbitrary size, ranges, lists) — filled in below."""
from .values import *   # noqa: F401,F403


def try_symbolic_sum(interp, gen, node):
    return None


def try_symbolic_anyall(interp, gen, node, is_any):
    return None


def try_symbolic_dictcomp(interp, e, env):
    return None


class SymRange:
    def __init__(self, interp, args):
        raise Unsupported("symbolic range")


# ===================================================================================== abstract label lists (C13)
import z3 as _z3
from . import builtins_ as _B


def label_str(term):
    return SegStr([LabelHole(term)])


def label_term(v):
    """Name term of an abstract label string, or None."""
    if isinstance(v, SegStr) and len(v.parts) == 1 and isinstance(v.parts[0], LabelHole):
        return v.parts[0].term
    return None


class LabelList:
    """A list of pairwise distinct, non-blank label strings of symbolic length n >= 1 (row or column names).
    pos(x) is the index of label x if it occurs (0 <= pos(x) < n) and at(j) the label at index j; the two are
    mutually inverse on the list (instantiated on demand, no quantifiers)."""
    py_type = 'list'
    py_iterable = True

    def __init__(self, interp, tag):
        self.tag = tag
        self.n = _z3.Int(f'n_{tag}')
        self.pos = _z3.Function(f'pos_{tag}', Name, IS)
        self.at = _z3.Function(f'at_{tag}', IS, Name)
        interp.assume(self.n >= 1)

    def _touch_pos(self, interp, t):
        p = self.pos(t)
        interp.assume(_z3.Implies(_z3.And(p >= 0, p < self.n), self.at(p) == t))
        return p

    def sym_len(self, interp, node=None):
        return self.n

    def sym_contains(self, interp, item, node=None):
        t = label_term(item)
        if t is None:
            if isinstance(item, (str, SegStr, NameV)):
                raise Unsupported("membership of a constructed string in an abstract label list")
            return False      # a list of strings contains no ints / tuples / None
        p = self._touch_pos(interp, t)
        return _z3.And(p >= 0, p < self.n)

    def sym_getattr(self, interp, attr, node=None):
        if attr == 'index':
            return BoundV(self, BuiltinV('LabelList.index', LabelList._index))
        if attr == 'count':
            raise Unsupported("LabelList.count")
        if hasattr(list, attr):
            raise Unsupported(f"list.{attr} on an abstract label list")
        raise Raised('AttributeError', getattr(node, 'lineno', None), attr, implicit=True)

    @staticmethod
    def _index(interp, args, kwargs, node):
        self, item = args[0], args[1]
        c = self.sym_contains(interp, item, node)
        if c is False or not interp.decide(c, "label in list"):
            raise Raised('ValueError', getattr(node, 'lineno', None), 'label is not in list', implicit=True)
        return self.pos(label_term(item))

    def sym_getitem(self, interp, k, node=None):
        if isinstance(k, SliceV):
            raise Unsupported("slice of an abstract label list")
        kz = intz(k)
        ok = _z3.Or(_z3.And(kz >= 0, kz < self.n), _z3.And(kz < 0, kz >= -self.n))
        if not interp.decide(ok, f"label index in range@{getattr(node, 'lineno', None)}"):
            raise Raised('IndexError', getattr(node, 'lineno', None), 'list index out of range', implicit=True)
        j = _z3.If(kz >= 0, kz, kz + self.n)
        t = self.at(j)
        interp.assume(self.pos(t) == j)
        return label_str(t)

    def sym_elementwise(self, interp):
        """A generic element (for all()/any() over the list)."""
        j = fresh('j', IS)
        interp.assume(_z3.And(j >= 0, j < self.n))
        return self.sym_getitem(interp, j)

    def sym_equals(self, interp, other):
        return other is self

    def sym_iterate(self, interp, node=None):
        raise Unsupported("iteration over an abstract label list of symbolic length")


def _gen_over(interp, gen):
    """If `gen` is a single-generator comprehension over a symbolic collection, return (collection, generator)."""
    g = gen.node.generators
    if len(g) != 1:
        return None, None
    it = interp.ev(g[0].iter, gen.env)
    gen.__dict__['_iter_value'] = it
    return it, g[0]


def try_symbolic_anyall(interp, gen, node, is_any):   # noqa: F811  (replaces the stub above)
    from .interp import Env
    it, g = _gen_over(interp, gen)
    if it is None:
        return None
    if isinstance(it, LabelList):
        # the list is non-empty and all elements are label strings: evaluate the predicate on a generic element
        sc = Env(gen.env)
        interp.assign(g.target, it.sym_elementwise(interp), sc)
        for c in g.ifs:
            raise Unsupported("filtered any/all over an abstract label list")
        v = interp.ev(gen.node.elt, sc)
        if isinstance(v, bool):
            return v          # same answer for every element; list non-empty
        raise Unsupported("any/all over an abstract label list with an element-dependent predicate")
    if hasattr(it, 'sym_anyall'):
        return it.sym_anyall(interp, gen, g, is_any, node)
    return None
