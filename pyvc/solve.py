"""Discharging obligations: z3 (Python API) first, cvc5 and the z3 4.8 CLI on `unknown`."""
import os
import subprocess
import tempfile
import time
from fractions import Fraction

import z3

FIRST_BUDGET_MS = 6000
CVC5 = '/usr/bin/cvc5'
Z3CLI = '/usr/bin/z3'


def _has_strings(fml_text):
    return 'String' in fml_text or 'str.' in fml_text


def check_sat(assertions, timeout_ms=20000, want_model=True, fallbacks=True, tactic=None):
    """Returns (status, model_or_None, seconds, backend); status in {'unsat','sat','unknown'}."""
    t0 = time.time()
    s = z3.Solver() if tactic is None else z3.Tactic(tactic).solver()
    first_budget = timeout_ms if not fallbacks else min(timeout_ms, FIRST_BUDGET_MS)
    s.set('timeout', first_budget)
    for a in assertions:
        s.add(a)
    r = s.check()
    dt = time.time() - t0
    if r == z3.unsat:
        return 'unsat', None, dt, 'z3api'
    if r == z3.sat:
        return 'sat', (s.model() if want_model else None), dt, 'z3api'
    if not fallbacks:
        return 'unknown', None, dt, 'z3api'
    # the same query under other random seeds first: non-linear queries are decided in milliseconds under one seed and
    # time out under another, and a verdict must not depend on that luck
    for seed in (7, 31, 101):
        try:
            s2 = z3.Solver()
            s2.set('timeout', first_budget)
            s2.set('random_seed', seed)
            for a in assertions:
                s2.add(a)
            r2 = s2.check()
        except z3.Z3Exception:
            continue
        if r2 == z3.unsat:
            return 'unsat', None, time.time() - t0, f'z3api(seed {seed})'
        if r2 == z3.sat:
            return 'sat', (s2.model() if want_model else None), time.time() - t0, f'z3api(seed {seed})'
    # portfolio: the SMT-LIB dump goes to cvc5 and the z3 4.8 CLI; then z3 again with the full budget
    smt = s.to_smt2()
    for backend, cmd in (('cvc5', [CVC5, '--lang=smt2', f'--tlimit={timeout_ms}'] +
                          (['--strings-exp'] if _has_strings(smt) else [])),
                         ('z3cli', [Z3CLI, '-smt2', f'-T:{max(1, timeout_ms // 1000)}'])):
        if not os.path.exists(cmd[0]):
            continue
        res = run_cli(cmd, smt, timeout_ms)
        if res in ('unsat', 'sat'):
            # a CLI "sat" has no model object here; report it as sat without a model
            return res, None, time.time() - t0, backend
    if first_budget < timeout_ms:
        s.set('timeout', timeout_ms)
        r = s.check()
        if r == z3.unsat:
            return 'unsat', None, time.time() - t0, 'z3api'
        if r == z3.sat:
            return 'sat', (s.model() if want_model else None), time.time() - t0, 'z3api'
    return 'unknown', None, time.time() - t0, 'all'


_PIN = {'mw': 100, 'dens': 1, 'sa': 10}


def _pins(assertions):
    """equalities fixing every mw/dens/sa application to a plain constant (makes most products linear)"""
    seen, out, todo = set(), [], list(assertions)
    while todo:
        t = todo.pop()
        if t.get_id() in seen:
            continue
        seen.add(t.get_id())
        if z3.is_app(t):
            if t.decl().name() in _PIN and t.num_args() == 1 and z3.is_const(t.arg(0)):
                out.append(t == _PIN[t.decl().name()])
            todo.extend(t.children())
        elif z3.is_quantifier(t):
            todo.append(t.body())
    return out


def cover_sat(assertions, timeout_ms=20000):
    """Satisfiability of a cover (reachability) query.  Any model will do, so easier strengthenings are tried first:
    sat of a strengthening implies sat of the cover; only the unstrengthened query can answer unsat."""
    t0 = time.time()
    st, _, _, be = check_sat(assertions, min(timeout_ms, 3000), False, False)
    if st in ('sat', 'unsat'):
        return st, None, time.time() - t0, be
    pins = _pins(assertions)
    if pins:
        st, _, _, be = check_sat(list(assertions) + pins, min(timeout_ms, 5000), False, False)
        if st == 'sat':
            return st, None, time.time() - t0, be + '+pinned'
    st, m, _, be = check_sat(assertions, timeout_ms, False, True)
    return st, m, time.time() - t0, be


def run_cli(cmd, smt_text, timeout_ms):
    if '(check-sat)' not in smt_text:
        smt_text += '\n(check-sat)\n'
    if cmd[0] == CVC5 and '(set-logic' not in smt_text:
        smt_text = '(set-logic ALL)\n' + smt_text
    with tempfile.NamedTemporaryFile('w', suffix='.smt2', delete=False) as f:
        f.write(smt_text)
        path = f.name
    try:
        out = subprocess.run(cmd + [path], capture_output=True, text=True, timeout=timeout_ms / 1000 + 5)
        first = (out.stdout.strip().splitlines() or [''])[0].strip()
        return first
    except Exception:
        return 'unknown'
    finally:
        try:
            os.unlink(path)
        except OSError:
            pass


def prove(hyps, goal, timeout_ms=20000, fallbacks=True):
    """Validity of hyps => goal.  Returns (verdict, model, seconds, backend) with verdict in
    {'proved','refuted','unknown'}."""
    st, model, dt, be = check_sat(list(hyps) + [z3.Not(goal)], timeout_ms, True, fallbacks)
    return {'unsat': 'proved', 'sat': 'refuted', 'unknown': 'unknown'}[st], model, dt, be


def prove_ladder(hyp_groups, goal, timeout_ms=20000, fallbacks=True):
    """Hypothesis portfolio: try increasing subsets of hypotheses (dropping hypotheses is sound for a proof).
    hyp_groups: list of lists; rung k uses groups[0..k].  A refutation only counts on the full set."""
    total = 0.0
    acc = []
    last = None
    for k, g in enumerate(hyp_groups):
        acc = acc + list(g)
        final = (k == len(hyp_groups) - 1)
        v, model, dt, be = prove(acc, goal, timeout_ms if final else max(1000, timeout_ms // 4),
                                 fallbacks=final and fallbacks)
        total += dt
        if v == 'proved':
            return v, None, total, be
        last = (v, model, total, be)
    return last


def val_to_fraction(v):
    """z3 numeral -> Fraction (None if not a numeral)."""
    try:
        if z3.is_int_value(v):
            return Fraction(v.as_long())
        if z3.is_rational_value(v):
            return Fraction(v.numerator_as_long(), v.denominator_as_long())
        if z3.is_algebraic_value(v):
            a = v.approx(20)
            return Fraction(a.numerator_as_long(), a.denominator_as_long())
    except Exception:
        return None
    return None


def model_value(model, term):
    if model is None:
        return None
    v = model.eval(term, model_completion=True)
    f = val_to_fraction(v)
    if f is not None:
        return f
    if z3.is_true(v):
        return True
    if z3.is_false(v):
        return False
    if z3.is_string_value(v):
        return {'string': v.as_string()}
    return str(v)
