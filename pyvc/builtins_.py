"""Semantics of builtins, attribute access, subscripts, equality, containment, iteration."""
import ast
import math
from fractions import Fraction

import z3

from .values import *   # noqa: F401,F403
from . import strings as S


# =============================================================================== names
def name_const(interp, text):
    """z3 constant of sort Name for a literal string; distinct literals are distinct names."""
    reg = interp.__dict__.setdefault('_name_consts', {})
    if text not in reg:
        c = z3.Const('name:' + text, Name)
        for other in reg.values():
            interp.assume(c != other)
        reg[text] = c
    return reg[text]


def as_name_term(interp, v):
    if isinstance(v, NameV):
        return v.term
    if isinstance(v, str):
        return name_const(interp, v)
    raise Unsupported(f"not a name: {v!r}")


# =============================================================================== substances
def sub_term(interp, v):
    """Sub term of a substance value (symbolic substance, or an object built by the constructors)."""
    if isinstance(v, SubV):
        return v.term
    if isinstance(v, Obj) and v.cls.name == 'Substance':
        t = v.fields.get('__term')
        if t is None:
            t = fresh('sub', Sub)
            f = v.fields
            interp.assume(kind(t) == z3.IntVal(f['_type']) if isinstance(f.get('_type'), int) else kind(t) == f['_type'])
            if f.get('mol_weight') is not None:
                interp.assume(mw(t) == real(f['mol_weight']))
            if f.get('density') is not None and not (isinstance(f['density'], float) and math.isinf(f['density'])):
                interp.assume(dens(t) == real(f['density']))
            if f.get('specific_activity') is not None:
                interp.assume(sa(t) == real(f['specific_activity']))
            nm = f.get('name')
            if isinstance(nm, (str, NameV)):
                interp.assume(subname(t) == as_name_term(interp, nm))
            v.fields['__term'] = t
        return t
    raise Unsupported(f"not a substance: {v!r}")


def is_substance(v):
    return isinstance(v, SubV) or (isinstance(v, Obj) and v.cls.name == 'Substance')


def subv_getattr(interp, v, attr, node):
    t = v.term
    if attr == '_type':
        return kind(t)
    if attr == 'name':
        return NameV(subname(t))
    if attr == 'density':
        return dens(t)
    if attr == 'mol_weight':
        if interp.decide(kind(t) == 3, f"{t}.is_enzyme (mol_weight is None)"):
            return None
        return mw(t)
    if attr == 'specific_activity':
        if interp.decide(kind(t) == 3, f"{t}.is_enzyme (specific_activity)"):
            return sa(t)
        return None
    if attr == 'concentration':
        if interp.decide(kind(t) == 2, f"{t}.is_liquid (concentration)"):
            return dens(t) / mw(t)
        return None
    if attr == 'molecule':
        return None
    info = interp.class_info('Substance')
    return class_member(interp, info, v, attr, node)


# =============================================================================== attribute access
def class_member(interp, info, self_, attr, node):
    """Method / property / constant `attr` looked up on class `info`, bound to self_ (or unbound if None)."""
    cls, m = interp.find_method(info, attr)
    if m is not None:
        decs = cls.decorators.get(attr, [])
        qual = f"{cls.name}.{attr}"
        if 'staticmethod' in decs:
            return FuncV(m, qual, cls, None, static=True)
        if any(d in ('property', 'cached_property', 'functools.cached_property') for d in decs):
            if self_ is None:
                raise Unsupported("property on class")
            v = interp.call_func(FuncV(m, qual, cls), [self_], {}, node)
            if any('cached_property' in d for d in decs) and isinstance(self_, Obj):
                # functools.cached_property: the value is stored in the instance __dict__ and found there from now on
                # (also by shallow copies of the object).  The cache store itself is not logged as a frame write.
                self_.fields[attr] = v
            return v
        f = FuncV(m, qual, cls)
        if self_ is None:
            return f
        return BoundV(self_, f)
    try:
        return interp.class_const(info, attr)
    except KeyError:
        raise Raised('AttributeError', getattr(node, 'lineno', None),
                     f"'{info.name}' object has no attribute '{attr}'", implicit=True)


STR_METHODS = {'split', 'count', 'endswith', 'startswith', 'strip', 'join', 'replace', 'splitlines', 'lower', 'upper',
               'lstrip', 'rstrip', 'format', 'isdigit', 'index', 'find', 'title'}
LIST_METHODS = {'append', 'extend', 'pop', 'index', 'insert', 'copy', 'count', 'remove', 'reverse', 'sort'}
DICT_METHODS = {'get', 'items', 'keys', 'values', 'setdefault', 'pop', 'update', 'copy'}
SET_METHODS = {'add', 'union', 'difference', 'update', 'copy', 'discard', 'remove', 'intersection', 'issubset'}


def getattr_(interp, v, attr, node=None):
    ln = getattr(node, 'lineno', None)
    if isinstance(v, Obj):
        if attr in v.fields:
            return v.fields[attr]
        if hasattr(v, 'sym_field'):
            r = v.sym_field(interp, attr)
            if r is not NotImplemented:
                return r
        return class_member(interp, v.cls, v, attr, node)
    if isinstance(v, SubV):
        return subv_getattr(interp, v, attr, node)
    if isinstance(v, ClassV):
        return class_member(interp, v.info, None, attr, node)
    if isinstance(v, SuperV):
        mro = interp.mro(v.cls)
        for c in mro[1:]:
            if attr in c.methods:
                return BoundV(v.self_, FuncV(c.methods[attr], f"{c.name}.{attr}", c))
        raise Raised('AttributeError', ln, attr, implicit=True)
    if hasattr(v, 'sym_getattr'):
        return v.sym_getattr(interp, attr, node)
    from .interp import ConfigV
    if isinstance(v, ConfigV):
        return v.get(attr)
    if isinstance(v, ModuleV):
        from . import npmodel
        return npmodel.module_attr(interp, v, attr, node)
    if isinstance(v, (str, SegStr, NameV)):
        if attr in STR_IMPL:
            return BoundV(v, BuiltinV('str.' + attr, STR_IMPL[attr]))
        if hasattr(str, attr):
            return BoundV(v, BuiltinV('str.' + attr, _s_simple(attr)))
        raise Raised('AttributeError', ln, f"'str' object has no attribute '{attr}'", implicit=True)
    if isinstance(v, list):
        if attr in LIST_METHODS:
            return BoundV(v, BuiltinV('list.' + attr, LIST_IMPL[attr]))
        if hasattr(list, attr):
            raise Unsupported(f"list.{attr}")
        raise Raised('AttributeError', ln, f"'list' object has no attribute '{attr}'", implicit=True)
    if isinstance(v, dict):
        if attr in DICT_METHODS:
            return BoundV(v, BuiltinV('dict.' + attr, DICT_IMPL[attr]))
        if hasattr(dict, attr):
            raise Unsupported(f"dict.{attr}")
        raise Raised('AttributeError', ln, f"'dict' object has no attribute '{attr}'", implicit=True)
    if isinstance(v, SetV):
        if getattr(v, 'frozen', False) and attr in ('add', 'remove', 'discard', 'pop', 'clear', 'update', 'difference_update',
                                                    'intersection_update', 'symmetric_difference_update'):
            raise Raised('AttributeError', ln, f"'frozenset' object has no attribute '{attr}'", implicit=True)
        if attr in SET_METHODS:
            return BoundV(v, BuiltinV('set.' + attr, SET_IMPL[attr]))
        if hasattr(set, attr):
            raise Unsupported(f"set.{attr}")
        raise Raised('AttributeError', ln, f"'set' object has no attribute '{attr}'", implicit=True)
    if isinstance(v, tuple):
        if attr in ('index', 'count'):
            return BoundV(list(v), BuiltinV('list.' + attr, LIST_IMPL[attr]))
        if hasattr(tuple, attr):
            raise Unsupported(f"tuple.{attr}")
        raise Raised('AttributeError', ln, f"'tuple' object has no attribute '{attr}'", implicit=True)
    if isinstance(v, SliceV):
        if attr in ('start', 'stop', 'step'):
            return getattr(v, attr)
        if attr == 'indices':
            def _indices(i, a, k, n):
                sl, length = a[0], a[1]
                parts = (sl.start, sl.stop, sl.step, length)
                if all(x is None or (isinstance(x, int) and not isinstance(x, bool)) for x in parts) and length is not None:
                    if sl.step == 0:
                        raise Raised('ValueError', getattr(n, 'lineno', None), 'slice step cannot be zero', implicit=True)
                    return slice(sl.start, sl.stop, sl.step).indices(length)
                raise Unsupported("slice.indices with symbolic bounds")
            return BoundV(v, BuiltinV('slice.indices', _indices))
        if hasattr(slice, attr):
            raise Unsupported(f"slice.{attr}")
        raise Raised('AttributeError', ln, attr, implicit=True)
    if isinstance(v, ExcV):
        if attr == 'args':
            return v.args
        raise Raised('AttributeError', ln, attr, implicit=True)
    if isinstance(v, TypeMarker):
        if v.name == 'str' and attr in STR_METHODS:
            return BuiltinV('str.' + attr, STR_IMPL[attr])
        if v.name == 'set' and attr in SET_METHODS:
            return BuiltinV('set.' + attr, SET_IMPL[attr])
        if v.name == 'dict' and attr in DICT_METHODS:
            return BuiltinV('dict.' + attr, DICT_IMPL[attr])
        raise Unsupported(f"attribute {attr} of type {v.name}")
    if isinstance(v, Opaque):
        return Opaque(f"{v.what}.{attr}", v.prov)
    if v is None:
        raise Raised('AttributeError', ln, f"'NoneType' object has no attribute '{attr}'", implicit=True)
    if is_num(v) or isinstance(v, bool):
        raise Raised('AttributeError', ln, f"number has no attribute '{attr}'", implicit=True)
    if isinstance(v, (FuncV, BoundV, LambdaV, BuiltinV)):
        raise Raised('AttributeError', ln, f"function has no attribute '{attr}'", implicit=True)
    raise Unsupported(f"attribute {attr} of {type(v).__name__}")


def setattr_(interp, o, attr, value, node=None):
    ln = getattr(node, 'lineno', None)
    if isinstance(o, Obj):
        cls, setter = interp.find_setter(o.cls, attr)
        if setter is not None:
            interp.call_func(FuncV(setter, f"{cls.name}.{attr}@setter", cls), [o, value], {}, node)
            return
        cls, m = interp.find_method(o.cls, attr)
        if m is not None and 'property' in cls.decorators.get(attr, []):
            raise Raised('AttributeError', ln, f"can't set attribute {attr}", implicit=True)
        if hasattr(o, 'sym_setfield'):
            if o.sym_setfield(interp, attr, value, node) is not NotImplemented:
                return
        old = o.fields.get(attr, Undefined)
        if old is value and old is not Undefined:
            return      # storing the identical object back is not an observable write
        record_write(interp, o, attr, ln)
        o.fields[attr] = value
        if o.cls.name == 'Substance':
            o.fields.pop('__term', None)
        return
    if isinstance(o, Opaque):
        return
    if hasattr(o, 'sym_setattr'):
        return o.sym_setattr(interp, attr, value, node)
    if isinstance(o, SubV):
        # substances are immutable values handed in by the caller: storing an attribute on one is an observable write to
        # an argument whatever happens next (the effect on a symbolic substance is not modelled: the path ends here)
        interp.__dict__.setdefault('definite', []).append(
            {'name': 'frame[substance-attribute]', 'note': f"line {ln}: store to attribute {attr!r} of a Substance argument "
                                                           f"in {interp.call_stack[-1] if interp.call_stack else '?'}"})
        raise Unsupported(f"attribute store on a Substance (line {ln})")
    raise Unsupported(f"attribute store on {type(o).__name__}")


def record_write(interp, o, field, ln):
    fresh_ = getattr(o, 'fresh', True)
    if not fresh_ and isinstance(field, str) and field.startswith('_') and not field.startswith('__'):
        # a private attribute (memo field) is not part of the observable state C04 names (name, contents, volume, capacity,
        # instructions, wells): storing into it is not a frame write.  What a memo could make observable — an observer
        # that answers for other contents than its object's — is the business of the observers[...] obligations (C10).
        interp.__dict__.setdefault('private_writes', []).append((o, field, ln))
        return
    if not fresh_:
        interp.writes.append((o, field, ln, interp.call_stack[-1] if interp.call_stack else '?'))


# =============================================================================== sets
class SetV:
    """A finite set with possibly symbolic elements (kept as a list without syntactic duplicates)."""

    def __init__(self, items=(), fresh_=True):
        self.items = list(items)
        self.fresh = fresh_

    def __repr__(self):
        return f"SetV({self.items})"


def make_set(interp, items):
    s = SetV()
    for x in items:
        set_add(interp, s, x)
    return s


def set_add(interp, s, x):
    for y in s.items:
        r = equals(interp, x, y)
        if is_symbool(r):
            r = interp.decide(r, "set element equality")
        if r:
            return
    s.items.append(x)


def set_contains(interp, s, x):
    rs = []
    for y in s.items:
        r = equals(interp, x, y)
        if r is True:
            return True
        if r is False:
            continue
        rs.append(r)
    if not rs:
        return False
    return z3.Or(*rs)


# =============================================================================== dicts (concrete key structure, possibly symbolic keys)
def key_eq(interp, a, b):
    """Equality of dictionary keys -> bool or z3 Bool."""
    return equals(interp, a, b)


def dict_find(interp, d, key):
    """Return the actual key object of `d` equal to `key`, or None.  May fork on symbolic equality."""
    if isinstance(key, IteV):
        if interp.decide(key.cond, "key alternative"):
            return dict_find(interp, d, key.a)
        return dict_find(interp, d, key.b)
    # fast path: hashable concrete key against a dict whose keys are all concrete
    if _plain(key) and all(_plain(k) for k in d):
        return key if key in d else None
    for k in d:
        r = key_eq(interp, key, k)
        if is_symbool(r):
            r = interp.decide(r, f"key == {k!r}")
        if r:
            return k
    return None


def _plain(k):
    if isinstance(k, (str, int, Fraction, bool, type(None))):
        return True
    if isinstance(k, float):
        return True
    if isinstance(k, tuple):
        return all(_plain(x) for x in k)
    return False


def dict_get(interp, d, key, default=None, node=None, strict=False):
    k = dict_find(interp, d, key)
    if k is None:
        if strict:
            raise Raised('KeyError', getattr(node, 'lineno', None), repr(key), implicit=True)
        return default
    return d[k]


def dict_set(interp, d, key, value):
    if isinstance(key, IteV):
        raise Unsupported("store under alternative key")
    if is_sym(key) or isinstance(key, (list, dict)):
        if is_symnum(key):
            k = dict_find(interp, d, key)
            d[k if k is not None else SymKey(key)] = value
            return
        raise Unsupported("unhashable / symbolic dict key")
    k = dict_find(interp, d, key)
    d[k if k is not None else key] = value


class SymKey:
    """Wrapper making a symbolic number usable as a key of a concrete dict."""

    def __init__(self, term):
        self.term = term

    def __hash__(self):
        return hash(self.term.get_id())

    def __eq__(self, o):
        return isinstance(o, SymKey) and self.term.eq(o.term)


# =============================================================================== equality
def equals(interp, a, b, node=None):
    if isinstance(a, SymKey):
        a = a.term
    if isinstance(b, SymKey):
        b = b.term
    if a is None or b is None:
        return a is b
    if isinstance(a, IteV):
        return _ite_bool(a.cond, equals(interp, a.a, b, node), equals(interp, a.b, b, node))
    if isinstance(b, IteV):
        return _ite_bool(b.cond, equals(interp, a, b.a, node), equals(interp, a, b.b, node))
    if isinstance(a, bool) and isinstance(b, bool):
        return a == b
    if is_symbool(a) or is_symbool(b):
        if isinstance(a, bool) or is_symbool(a):
            if isinstance(b, bool) or is_symbool(b):
                return boolz(a) == boolz(b)
        if is_num(a) or is_num(b):
            return real(a) == real(b)
        return False
    if is_num(a) or isinstance(a, bool):
        if is_num(b) or isinstance(b, bool):
            if isinstance(a, bool):
                a = int(a)
            if isinstance(b, bool):
                b = int(b)
            if is_conc_num(a) and is_conc_num(b):
                return a == b
            for x in (a, b):
                if isinstance(x, float) and (math.isinf(x) or math.isnan(x)):
                    return False     # a symbolic number is finite
            if is_int_like(a) and is_int_like(b):
                return intz(a) == intz(b)
            return real(a) == real(b)
        return False
    if is_num(b) or isinstance(b, bool):
        return False
    if isinstance(a, (str, SegStr)) and isinstance(b, (str, SegStr)):
        return S.seg_equal(a, b)
    if isinstance(a, NameV) or isinstance(b, NameV):
        if isinstance(a, (NameV, str)) and isinstance(b, (NameV, str)):
            ta, tb = as_name_term(interp, a), as_name_term(interp, b)
            if ta.eq(tb):
                return True
            return ta == tb
        if isinstance(a, SegStr) or isinstance(b, SegStr):
            raise Unsupported("name compared with constructed text")
        return False
    if isinstance(a, (str, SegStr)) or isinstance(b, (str, SegStr)):
        return False
    if is_substance(a) and is_substance(b):
        ta, tb = sub_term(interp, a), sub_term(interp, b)
        if ta.eq(tb):
            return True
        return ta == tb
    if is_substance(a) or is_substance(b):
        return False
    if isinstance(a, (tuple, list)) and isinstance(b, (tuple, list)):
        if type(a) is not type(b) or len(a) != len(b):
            return False
        rs = []
        for x, y in zip(a, b):
            r = equals(interp, x, y, node)
            if r is False:
                return False
            if r is not True:
                rs.append(r)
        return z3.And(*rs) if rs else True
    if isinstance(a, SliceV) and isinstance(b, SliceV):
        return equals(interp, (a.start, a.stop, a.step), (b.start, b.stop, b.step), node)
    if isinstance(a, Obj) and isinstance(b, Obj):
        if a is b:
            cls, m = interp.find_method(a.cls, '__eq__')
            if m is None:
                return True
        cls, m = interp.find_method(a.cls, '__eq__')
        if m is not None:
            return interp.call_func(FuncV(m, f"{cls.name}.__eq__", cls), [a, b], {}, node)
        return a is b
    if isinstance(a, Obj) or isinstance(b, Obj):
        o, other = (a, b) if isinstance(a, Obj) else (b, a)
        cls, m = interp.find_method(o.cls, '__eq__')
        if m is not None:
            return interp.call_func(FuncV(m, f"{cls.name}.__eq__", cls), [o, other], {}, node)
        return False
    if hasattr(a, 'sym_equals'):
        return a.sym_equals(interp, b)
    if hasattr(b, 'sym_equals'):
        return b.sym_equals(interp, a)
    if isinstance(a, dict) and isinstance(b, dict):
        if len(a) != len(b):
            return False
        rs = []
        for k in a:
            kb = dict_find(interp, b, k)
            if kb is None:
                return False
            r = equals(interp, a[k], b[kb], node)
            if r is False:
                return False
            if r is not True:
                rs.append(r)
        return z3.And(*rs) if rs else True
    if isinstance(a, SetV) and isinstance(b, SetV):
        if a is b:
            return True
        plain = lambda x: isinstance(x, (str, int, bool)) or x is None      # noqa: E731
        if all(plain(x) for x in a.items) and all(plain(x) for x in b.items):
            return set(a.items) == set(b.items)                              # sets of plain values: equal iff same elements
        raise Unsupported("set equality")
    if isinstance(a, (ClassV, FuncV, TypeMarker, ExcClassV)) or isinstance(b, (ClassV, FuncV, TypeMarker, ExcClassV)):
        return a is b
    if type(a) is not type(b):
        return False
    raise Unsupported(f"equality of {type(a).__name__} and {type(b).__name__}")


def _ite_bool(c, x, y):
    if x is True and y is True:
        return True
    if x is False and y is False:
        return False
    return z3.If(c, boolz(x), boolz(y))


# =============================================================================== containment
def contains(interp, container, item, node=None):
    ln = getattr(node, 'lineno', None)
    if isinstance(container, (str, SegStr)):
        if isinstance(item, (str,)):
            return S.seg_contains(container, item)
        if isinstance(item, SegStr):
            raise Unsupported("segmented needle")
        raise Raised('TypeError', ln, "'in <string>' requires string as left operand", implicit=True)
    if isinstance(container, NameV):
        raise Unsupported("substring test on an opaque name")
    if isinstance(container, (tuple, list)):
        rs = []
        for y in container:
            r = equals(interp, item, y, node)
            if r is True:
                return True
            if r is False:
                continue
            rs.append(r)
        if not rs:
            return False
        return z3.Or(*rs) if len(rs) > 1 else rs[0]
    if isinstance(container, dict):
        if isinstance(item, IteV):
            return _ite_bool(item.cond, contains(interp, container, item.a, node),
                             contains(interp, container, item.b, node))
        if _plain(item) and all(_plain(k) for k in container):
            return item in container
        rs = []
        for k in container:
            r = key_eq(interp, item, k)
            if r is True:
                return True
            if r is False:
                continue
            rs.append(r)
        if not rs:
            return False
        return z3.Or(*rs) if len(rs) > 1 else rs[0]
    if isinstance(container, SetV):
        return set_contains(interp, container, item)
    if hasattr(container, 'sym_contains'):
        return container.sym_contains(interp, item, node)
    if isinstance(container, Opaque):
        raise Unsupported("containment in opaque value")
    raise Unsupported(f"containment in {type(container).__name__}")


# =============================================================================== subscripts
def getitem(interp, v, k, node=None):
    ln = getattr(node, 'lineno', None)
    if isinstance(v, IteV):
        return IteV(v.cond, getitem(interp, v.a, k, node), getitem(interp, v.b, k, node))
    if isinstance(v, (list, tuple)):
        if isinstance(k, SliceV):
            if all(x is None or isinstance(x, int) for x in (k.start, k.stop, k.step)):
                return v[slice(k.start, k.stop, k.step)]
            raise Unsupported("symbolic list slice")
        if isinstance(k, bool):
            k = int(k)
        if isinstance(k, int):
            try:
                return v[k]
            except IndexError:
                raise Raised('IndexError', ln, 'list index out of range', implicit=True)
        if is_symnum(k):
            # symbolic index into a concrete list: fork over positions
            for i in range(len(v)):
                if interp.decide(k == i, f"index=={i}@{ln}"):
                    return v[i]
            for i in range(1, len(v) + 1):
                if interp.decide(k == -i, f"index==-{i}@{ln}"):
                    return v[-i]
            raise Raised('IndexError', ln, 'list index out of range', implicit=True)
        raise Raised('TypeError', ln, 'list indices must be integers', implicit=True)
    if isinstance(v, dict):
        return dict_get(interp, v, k, node=node, strict=True)
    if isinstance(v, (str, SegStr)):
        if isinstance(k, SliceV):
            return S.seg_slice(v, k)
        return S.seg_index(v, k)
    if hasattr(v, 'sym_getitem'):
        return v.sym_getitem(interp, k, node)
    if isinstance(v, Obj):
        cls, m = interp.find_method(v.cls, '__getitem__')
        if m is not None:
            return interp.call_func(FuncV(m, f"{cls.name}.__getitem__", cls), [v, k], {}, node)
        raise Raised('TypeError', ln, f"'{v.cls.name}' object is not subscriptable", implicit=True)
    if isinstance(v, Opaque):
        return Opaque('item', v.prov)
    if isinstance(v, TypeMarker):
        return v
    if v is None:
        raise Raised('TypeError', ln, "'NoneType' object is not subscriptable", implicit=True)
    raise Unsupported(f"subscript of {type(v).__name__}")


def setitem(interp, v, k, value, node=None):
    ln = getattr(node, 'lineno', None)
    if isinstance(v, list):
        if isinstance(k, int):
            try:
                v[k] = value
            except IndexError:
                raise Raised('IndexError', ln, 'list assignment index out of range', implicit=True)
            return
        raise Unsupported("symbolic list store")
    if isinstance(v, dict):
        owner_check(interp, v, ln)
        dict_set(interp, v, k, value)
        return
    if hasattr(v, 'sym_setitem'):
        return v.sym_setitem(interp, k, value, node)
    if isinstance(v, Opaque):
        v.prov = v.prov | prov_of(value)
        return
    if isinstance(v, tuple):
        raise Raised('TypeError', ln, "'tuple' object does not support item assignment", implicit=True)
    raise Unsupported(f"subscript store on {type(v).__name__}")


def owner_check(interp, coll, ln):
    """Record a write into a mutable collection that belongs to a non-fresh object."""
    owner = interp.__dict__.setdefault('_owners', {}).get(id(coll))
    if owner is not None:
        o, field = owner
        if type(o).__name__ == 'ClassState':
            # results would depend on what earlier calls left there: not a per-call contract any more (undecided, not an alarm)
            raise Unsupported(f"store into {o.tag}: state carried from call to call is not modelled")
        record_write(interp, o, field + '[...]', ln)


def declare_owner(interp, coll, obj, field):
    interp.__dict__.setdefault('_owners', {})[id(coll)] = (obj, field)
    interp.__dict__.setdefault('_owner_keep', []).append(coll)


# =============================================================================== iteration
def iterate(interp, it, node=None):
    ln = getattr(node, 'lineno', None)
    if isinstance(it, (list, tuple)):
        return list(it)
    if isinstance(it, dict):
        return list(it.keys())
    if isinstance(it, SetV):
        return list(it.items)
    if isinstance(it, str):
        return list(it)
    if isinstance(it, GenV):
        return interp.comprehend(it.node, it.env)
    if isinstance(it, range):
        return list(it)
    if hasattr(it, 'sym_iterate'):
        return it.sym_iterate(interp, node)
    if isinstance(it, Opaque):
        raise Unsupported("iteration over opaque value")
    if it is None or is_num(it) or isinstance(it, bool):
        raise Raised('TypeError', ln, 'object is not iterable', implicit=True)
    if isinstance(it, Obj):
        raise Raised('TypeError', ln, f"'{it.cls.name}' object is not iterable", implicit=True)
    raise Unsupported(f"iteration over {type(it).__name__}")


def is_symbolic_collection(it):
    return hasattr(it, 'sym_loop')


# =============================================================================== isinstance
ITERABLE_TYPES = (list, tuple, dict, str, SegStr, GenV, SetV, range)


def isinstance_(interp, v, T):
    if isinstance(T, tuple):
        return any(isinstance_(interp, v, t) for t in T)
    if isinstance(T, ClassV):
        n = T.info.name
        if isinstance(v, SubV):
            return n == 'Substance'
        if isinstance(v, Obj):
            return interp.is_subclass(v.cls, n)
        return False
    if isinstance(T, ExcClassV):
        return isinstance(v, ExcV) and exc_is(v.cls, T.name)
    if isinstance(T, TypeMarker):
        n = T.name
        if n == 'str':
            return isinstance(v, (str, SegStr, NameV))
        if n == 'int':
            return (isinstance(v, int)) or (is_symnum(v) and v.sort() == IS) or isinstance(v, bool)
        if n == 'float':
            return isinstance(v, (Fraction, float)) or (is_symnum(v) and v.sort() == RS)
        if n == 'bool':
            return isinstance(v, bool) or is_symbool(v)
        if n == 'list':
            return isinstance(v, list) or getattr(v, 'py_type', None) == 'list'
        if n == 'tuple':
            return isinstance(v, tuple)
        if n == 'dict':
            return isinstance(v, dict) or getattr(v, 'py_type', None) == 'dict'
        if n == 'set':
            return isinstance(v, SetV)
        if n == 'slice':
            return isinstance(v, SliceV)
        if n == 'Iterable':
            return isinstance(v, ITERABLE_TYPES) or getattr(v, 'py_iterable', False)
        if n == 'ndarray':
            return getattr(v, 'py_type', None) == 'ndarray'
        if n == 'object':
            return True
        raise Unsupported(f"isinstance against {n}")
    raise Unsupported(f"isinstance against {T!r}")


# =============================================================================== builtin functions
def b_isinstance(interp, args, kwargs, node):
    return isinstance_(interp, args[0], args[1])


def b_len(interp, args, kwargs, node):
    v = args[0]
    if isinstance(v, (list, tuple, dict, str)):
        return len(v)
    if isinstance(v, SetV):
        return len(v.items)       # elements are pairwise syntactically distinct; semantic duplicates were merged on add
    if isinstance(v, SegStr):
        if v.is_concrete():
            return len(v.concrete())
        n = fresh('len', IS)
        interp.assume(n >= sum(len(p) if isinstance(p, str) else (1 if isinstance(p, (NumHole, LabelHole)) else 0)
                               for p in v.parts))
        return n
    if isinstance(v, NameV):
        n = fresh('len', IS)
        interp.assume(n >= 1)     # object names are non-empty (constructor precondition of the library)
        return n
    if hasattr(v, 'sym_len'):
        return v.sym_len(interp, node)
    if isinstance(v, Obj):
        raise Raised('TypeError', getattr(node, 'lineno', None), 'object has no len()', implicit=True)
    raise Unsupported(f"len of {type(v).__name__}")


def b_abs(interp, args, kwargs, node):
    v = args[0]
    if is_conc_num(v):
        return abs(v)
    if is_symnum(v):
        return z3.If(v >= 0, v, -v)
    from .npmodel import NpArr
    if isinstance(v, NpArr):
        return v.map1(interp, lambda x: b_abs(interp, [x], {}, node))
    raise Unsupported("abs")


rnd = z3.Function('rnd', IS, RS, RS)


def is_internal_precision(node, idx=1):
    try:
        return ast.unparse(node.args[idx]) == 'config.internal_precision'
    except Exception:
        return False


_NO_DEFAULT = object()


def b_next(interp, args, kwargs, node):
    """next(iterator[, default]) over a generator expression / concrete iterable: its first element"""
    it = args[0]
    default = args[1] if len(args) > 1 else _NO_DEFAULT
    if isinstance(it, GenV):
        items = interp.comprehend(it.node, it.env)
    elif isinstance(it, (list, tuple)):
        raise Raised('TypeError', getattr(node, 'lineno', None), 'object is not an iterator', implicit=True)
    else:
        raise Unsupported("next() on this kind of iterator")
    if items:
        return items[0]
    if default is _NO_DEFAULT:
        raise Raised('StopIteration', getattr(node, 'lineno', None), '', implicit=True)
    return default


def b_round(interp, args, kwargs, node):
    x = args[0]
    if len(args) == 1:
        p = None
    else:
        p = args[1]
    ip_ = interp.cfg.data.get('internal_precision', 10) if hasattr(interp.cfg, 'data') else 10
    # A2 applies to a rounding to the INTERNAL precision, however the code spells that argument (the literal attribute, a
    # local holding it, ...): recognised by value (the display precisions are 0..3, the internal one is 10)
    if (node is not None and len(getattr(node, 'args', [])) > 1 and is_internal_precision(node)) or \
            (isinstance(p, int) and not isinstance(p, bool) and p == ip_ and p > 6):
        if interp.__dict__.get('round_mode') == 'error' and not isinstance(x, (list, dict, str)):
            # rounding-placement mode (contracts/rounding_placement.py): the result is SOME number within half a unit of
            # the last internal digit of x — where the library rounds then matters, as it does in IEEE arithmetic
            ip = interp.cfg.data.get('internal_precision', 10)
            half = Fraction(1, 2 * 10 ** ip)
            if is_conc_num(x):
                return round(Fraction(x), ip) if not isinstance(x, float) else x
            if is_symnum(x):
                r = fresh('rd', RS)
                xr = real(x)
                interp.assume(z3.And(r - xr <= Q(half), xr - r <= Q(half), z3.Implies(xr >= 0, r >= 0), z3.Implies(xr <= 0, r <= 0)))
                return r
        return x          # assumption A2: rounding to the internal precision is exact
    from .npmodel import NpArr
    if isinstance(x, NpArr):
        # T3: the builtin round() is not defined for numpy arrays
        raise Raised('TypeError', getattr(node, 'lineno', None), "type numpy.ndarray doesn't define __round__ method",
                     implicit=True)
    return round_value(interp, x, p, node)


def round_value(interp, x, p, node=None):
    from .npmodel import NpArr
    if isinstance(x, NpArr):
        return x.map1(interp, lambda e: round_value(interp, e, p, node))
    if hasattr(x, 'sym_round'):
        return x.sym_round(interp, p, node)
    if isinstance(x, bool):
        x = int(x)
    if p is None:
        p = 0
    if isinstance(p, bool):
        p = int(p)
    if not isinstance(p, int):
        if is_symnum(p) and (is_num(x)):
            # rounding to a precision that is only known symbolically (display precisions picked by an alternative
            # unit): the result is some real number — over-approximation, only used for instruction text
            return fresh('rnd', RS)
        raise Unsupported("symbolic rounding precision")
    if is_conc_num(x):
        if isinstance(x, float):
            return x
        r = round(Fraction(x), p)
        return r
    if is_symnum(x):
        x = real(x)
        r = rnd(z3.IntVal(p), x)
        half = Q(Fraction(1, 2) / Fraction(10) ** p)
        interp.assume(z3.And(r - x <= half, x - r <= half, z3.Implies(x >= 0, r >= 0), z3.Implies(x <= 0, r <= 0)))
        return r
    if x is None or isinstance(x, (str, SegStr, list, dict, tuple, Obj)):
        raise Raised('TypeError', getattr(node, 'lineno', None), "type doesn't define __round__ method", implicit=True)
    raise Unsupported(f"round of {type(x).__name__}")


def b_float(interp, args, kwargs, node):
    v = args[0]
    ln = getattr(node, 'lineno', None)
    if isinstance(v, bool):
        return Fraction(int(v))
    if isinstance(v, int):
        return Fraction(v)
    if isinstance(v, (Fraction, float)):
        return v
    if is_symnum(v):
        return real(v)
    if isinstance(v, str):
        return S.parse_float_text(v, ln)
    if isinstance(v, SegStr):
        return S.seg_float(interp, v, node)
    if isinstance(v, NameV):
        raise Unsupported("float() of an opaque name")
    raise Raised('TypeError', ln, 'float() argument must be a string or a real number', implicit=True)


def b_int(interp, args, kwargs, node):
    v = args[0]
    if isinstance(v, (int, bool)):
        return int(v)
    if isinstance(v, Fraction):
        return int(v)
    if isinstance(v, str):
        try:
            return int(v)
        except ValueError:
            raise Raised('ValueError', getattr(node, 'lineno', None), 'invalid literal for int()', implicit=True)
    raise Unsupported("int() of symbolic value")


def b_str(interp, args, kwargs, node):
    if not args:
        return ''
    v = args[0]
    if isinstance(v, Obj):
        cls, m = interp.find_method(v.cls, '__repr__')
        if m is not None:
            return SegStr([OpaqueHole(v)])
    r = interp.format_value(v)
    return r


def b_list(interp, args, kwargs, node):
    if not args:
        return []
    return list(iterate(interp, args[0], node))


def b_tuple(interp, args, kwargs, node):
    if not args:
        return ()
    return tuple(iterate(interp, args[0], node))


def b_dict(interp, args, kwargs, node):
    d = {}
    if args:
        src = args[0]
        if isinstance(src, dict):
            d.update(src)
        else:
            for kv in iterate(interp, src, node):
                k, v = iterate(interp, kv, node)
                dict_set(interp, d, k, v)
    for k, v in kwargs.items():
        d[k] = v
    return d


def b_set(interp, args, kwargs, node):
    if not args:
        return SetV()
    if hasattr(args[0], 'sym_toset'):
        return args[0].sym_toset(interp, node)
    return make_set(interp, iterate(interp, args[0], node))


def b_frozenset(interp, args, kwargs, node):
    """frozenset(x): the same elements as set(x), a new immutable object (its mutators do not exist)"""
    r = b_set(interp, args, kwargs, node)
    if isinstance(r, SetV):
        r.frozen = True
        return r
    if hasattr(r, 'sym_freeze'):
        return r.sym_freeze(interp)
    raise Unsupported(f"frozenset of {type(r).__name__}")


def b_divmod(interp, args, kwargs, node):
    """divmod(a, b) = (a // b, a % b) with Python's floor semantics (concrete numbers)"""
    a, b = args
    if isinstance(a, bool):
        a = int(a)
    if isinstance(b, bool):
        b = int(b)
    if isinstance(a, int) and isinstance(b, int):
        if b == 0:
            raise Raised('ZeroDivisionError', getattr(node, 'lineno', None), 'integer division or modulo by zero', implicit=True)
        return divmod(a, b)
    raise Unsupported("divmod of non-integer / symbolic operands")


def b_zip(interp, args, kwargs, node):
    lists = [iterate(interp, a, node) for a in args]
    return [tuple(x) for x in zip(*lists)]


def b_enumerate(interp, args, kwargs, node):
    start = args[1] if len(args) > 1 else kwargs.get('start', 0)
    return [(i, x) for i, x in enumerate(iterate(interp, args[0], node), start)]


def b_map(interp, args, kwargs, node):
    f = args[0]
    if len(args) == 2 and hasattr(args[1], 'sym_map'):
        return args[1].sym_map(interp, f, node)
    lists = [iterate(interp, a, node) for a in args[1:]]
    return [interp.call(f, list(xs), {}, node) for xs in zip(*lists)]


def b_range(interp, args, kwargs, node):
    if all(isinstance(a, int) for a in args):
        return list(range(*args))
    from .symcoll import SymRange
    return SymRange(interp, args)


def b_reversed(interp, args, kwargs, node):
    if hasattr(args[0], 'sym_reversed'):
        return args[0].sym_reversed(interp, node)
    return list(reversed(iterate(interp, args[0], node)))


def b_sum(interp, args, kwargs, node):
    it = args[0]
    start = args[1] if len(args) > 1 else kwargs.get('start', 0)
    if isinstance(it, GenV):
        from . import symcoll
        r = symcoll.try_symbolic_sum(interp, it, node)
        if r is not None:
            return interp.binop(ast.Add(), start, r, node) if not (isinstance(start, int) and start == 0) else r
    if hasattr(it, 'sym_sum'):
        return it.sym_sum(interp, start, node)
    total = start
    for x in iterate(interp, it, node):
        total = interp.binop(ast.Add(), total, x, node)
    return total


def b_any(interp, args, kwargs, node):
    it = args[0]
    if isinstance(it, GenV):
        from . import symcoll
        r = symcoll.try_symbolic_anyall(interp, it, node, is_any=True)
        if r is not None:
            return r
        # lazily, with short-circuit
        return _lazy_anyall(interp, it, True)
    for x in iterate(interp, it, node):
        if interp.truth(x, "any()"):
            return True
    return False


def b_all(interp, args, kwargs, node):
    it = args[0]
    if isinstance(it, GenV):
        from . import symcoll
        r = symcoll.try_symbolic_anyall(interp, it, node, is_any=False)
        if r is not None:
            return r
        return _lazy_anyall(interp, it, False)
    for x in iterate(interp, it, node):
        if not interp.truth(x, "all()"):
            return False
    return True


def _lazy_anyall(interp, gen, is_any):
    e = gen.node
    gens = e.generators
    from .interp import Env

    class Found(Exception):
        pass

    def rec(i, scope):
        if i == len(gens):
            t = interp.truth(interp.ev(e.elt, scope), "any/all element")
            if t == is_any:
                raise Found()
            return
        g = gens[i]
        for item in iterate(interp, interp.ev(g.iter, scope), g.iter):
            sc = Env(scope)
            interp.assign(g.target, item, sc)
            if all(interp.truth(interp.ev(c, sc), "comp-if") for c in g.ifs):
                rec(i + 1, sc)
    try:
        rec(0, Env(gen.env))
    except Found:
        return is_any
    return not is_any


def b_max(interp, args, kwargs, node):
    return _minmax(interp, args, kwargs, node, True)


def b_min(interp, args, kwargs, node):
    return _minmax(interp, args, kwargs, node, False)


def _minmax(interp, args, kwargs, node, is_max):
    if len(args) == 1:
        if hasattr(args[0], 'sym_minmax'):
            return args[0].sym_minmax(interp, is_max, node)
        items = iterate(interp, args[0], node)
    else:
        items = list(args)
    if not items:
        raise Raised('ValueError', getattr(node, 'lineno', None), 'max() arg is an empty sequence', implicit=True)
    if all(is_conc_num(x) for x in items):
        return max(items) if is_max else min(items)
    if not all(is_num(x) for x in items):
        raise Unsupported("max/min of non-numbers")
    cur = items[0]
    for x in items[1:]:
        if is_int_like(cur) and is_int_like(x):
            a, b = intz(cur), intz(x)
        else:
            a, b = real(cur), real(x)
        cur = z3.If(b > a, b, a) if is_max else z3.If(b < a, b, a)
    return cur


def deep_copy(interp, v, memo=None, mark_fresh=True):
    memo = {} if memo is None else memo
    if id(v) in memo:
        return memo[id(v)]
    if isinstance(v, Obj):
        if v.cls.name == 'Substance':
            return v
        # a class that defines __deepcopy__ is copied by that method (CPython's copy protocol), not field by field
        hcls, hook = interp.find_method(v.cls, '__deepcopy__') if hasattr(v.cls, 'methods') else (None, None)
        if hook is not None:
            r = interp.call_func(FuncV(hook, f"{hcls.name}.__deepcopy__", hcls), [v, memo], {}, None)
            memo[id(v)] = r
            return r
        o = Obj(v.cls, True)
        o.tag = v.tag
        o.__dict__['origin'] = v.__dict__.get('origin', v)     # provenance: which object this is a copy of
        o.__dict__['copied_fields'] = None
        memo[id(v)] = o
        if hasattr(v, 'sym_deepcopy_into'):
            v.sym_deepcopy_into(interp, o, memo)
        for k, x in v.fields.items():
            o.fields[k] = deep_copy(interp, x, memo)
        return o
    if isinstance(v, list):
        l = []
        memo[id(v)] = l
        l.extend(deep_copy(interp, x, memo) for x in v)
        return l
    if isinstance(v, tuple):
        return tuple(deep_copy(interp, x, memo) for x in v)
    if isinstance(v, dict):
        d = {}
        memo[id(v)] = d
        for k, x in v.items():
            d[k] = deep_copy(interp, x, memo)
        return d
    if isinstance(v, SetV):
        s = SetV(list(v.items))
        memo[id(v)] = s
        return s
    if hasattr(v, 'sym_deepcopy'):
        r = v.sym_deepcopy(interp, memo)
        memo[id(v)] = r
        return r
    return v


def b_deepcopy(interp, args, kwargs, node):
    return deep_copy(interp, args[0])


def b_copy(interp, args, kwargs, node):
    v = args[0]
    if isinstance(v, Obj):
        hcls, hook = interp.find_method(v.cls, '__copy__') if hasattr(v.cls, 'methods') else (None, None)
        if hook is not None:
            return interp.call_func(FuncV(hook, f"{hcls.name}.__copy__", hcls), [v], {}, node)
        o = Obj(v.cls, True)
        o.tag = v.tag
        o.fields = dict(v.fields)
        if hasattr(v, 'sym_copy_into'):
            v.sym_copy_into(interp, o)
        return o
    if isinstance(v, list):
        return list(v)
    if isinstance(v, dict):
        return dict(v)
    if hasattr(v, 'sym_copy'):
        return v.sym_copy(interp)
    return v


def b_print(interp, args, kwargs, node):
    return None


def b_chr(interp, args, kwargs, node):
    if isinstance(args[0], int):
        return chr(args[0])
    raise Unsupported("chr of symbolic")


def b_ord(interp, args, kwargs, node):
    if isinstance(args[0], str):
        return ord(args[0])
    raise Unsupported("ord of symbolic")


def b_hash(interp, args, kwargs, node):
    return Opaque('hash')


def b_type(interp, args, kwargs, node):
    return Opaque('type')


def b_slice(interp, args, kwargs, node):
    a = list(args)
    if len(a) == 1:
        return SliceV(None, a[0], None)
    while len(a) < 3:
        a.append(None)
    return SliceV(*a[:3])


def b_identity_decorator(interp, args, kwargs, node):
    return args[0]


def b_sorted(interp, args, kwargs, node):
    items = iterate(interp, args[0], node)
    key = kwargs.get('key')
    rev = bool(kwargs.get('reverse', False))
    if key is not None:
        keys = [interp.call(key, [x], {}, node) for x in items]
        if all(_plain(k) for k in keys):
            order = sorted(range(len(items)), key=lambda i: keys[i], reverse=rev)
            return [items[i] for i in order]
        raise Unsupported("sorted with symbolic keys")
    if all(_plain(x) for x in items):
        return sorted(items, reverse=rev)
    raise Unsupported("sorted of symbolic values")


def call_type(interp, T, args, kwargs, node):
    fn = {'str': b_str, 'int': b_int, 'float': b_float, 'list': b_list, 'tuple': b_tuple, 'dict': b_dict,
          'set': b_set, 'frozenset': b_frozenset, 'slice': b_slice, 'bool': lambda i, a, k, n: i.truth(a[0]) if a else False}.get(T.name)
    if fn is None:
        raise Unsupported(f"call of type {T.name}")
    return fn(interp, args, kwargs, node)


BUILTINS = {
    'divmod': b_divmod, 'isinstance': b_isinstance, 'len': b_len, 'abs': b_abs, 'next': b_next, 'round': b_round, 'sum': b_sum, 'max': b_max,
    'min': b_min, 'any': b_any, 'all': b_all, 'zip': b_zip, 'enumerate': b_enumerate, 'map': b_map, 'range': b_range,
    'reversed': b_reversed, 'deepcopy': b_deepcopy, 'copy': b_copy, 'print': b_print, 'chr': b_chr, 'ord': b_ord,
    'hash': b_hash, 'sorted': b_sorted, 'cache': b_identity_decorator,
}


# =============================================================================== string methods
def _s_split(interp, args, kwargs, node):
    s = args[0]
    sep = args[1] if len(args) > 1 else kwargs.get('sep')
    if isinstance(s, NameV):
        raise Unsupported("split of an opaque name")
    if isinstance(s, str) and (sep is None or isinstance(sep, str)):
        return s.split(sep) if sep is not None else s.split()
    return S.seg_split(s, sep)


def _s_count(interp, args, kwargs, node):
    s, sub = args[0], args[1]
    if isinstance(s, NameV):
        raise Unsupported("count on an opaque name")
    if isinstance(s, str) and isinstance(sub, str):
        return s.count(sub)
    if isinstance(s, SegStr) and isinstance(sub, str) and any(
            isinstance(p, Hole) and not S.hole_excludes(p, sub) for p in s.parts):
        # unconstrained text: the count is at least what the concrete pieces contribute (sound over-approximation)
        c = sum(p.count(sub) for p in s.parts if isinstance(p, str))
        n = fresh('count', IS)
        interp.assume(n >= c)
        return n
    return S.seg_count(s, sub)


def _s_endswith(interp, args, kwargs, node):
    s, suf = args[0], args[1]
    if isinstance(s, NameV):
        raise Unsupported("endswith on an opaque name")
    if isinstance(s, IteV):
        return _ite_bool(s.cond, _s_endswith(interp, [s.a, suf], kwargs, node), _s_endswith(interp, [s.b, suf], kwargs, node))
    if isinstance(s, str) and isinstance(suf, (str, tuple)):
        return s.endswith(suf)
    return S.seg_endswith(s, suf)


def _s_startswith(interp, args, kwargs, node):
    s, pre = args[0], args[1]
    if isinstance(s, str) and isinstance(pre, (str, tuple)):
        return s.startswith(pre)
    return S.seg_startswith(s, pre)


def _s_strip(interp, args, kwargs, node):
    s = args[0]
    if isinstance(s, str):
        return s.strip(*args[1:])
    if isinstance(s, SegStr):
        ps = list(s.parts)
        if ps and isinstance(ps[0], str):
            ps[0] = ps[0].lstrip()
        if ps and isinstance(ps[-1], str):
            ps[-1] = ps[-1].rstrip()
        return mkstr(ps)
    if isinstance(s, NameV):
        return s
    raise Unsupported("strip")


def _s_join(interp, args, kwargs, node):
    sep, items = args[0], args[1]
    if isinstance(items, Opaque):
        return SegStr([OpaqueHole('joined', items.prov | prov_of(sep))])
    if type(items).__name__ == 'NameFiltered':
        return SegStr([OpaqueHole('joined names')])
    items = iterate(interp, items, node)
    parts = []
    for i, x in enumerate(items):
        if i:
            parts.append(sep)
        if isinstance(x, (str, SegStr)):
            parts.append(x)
        elif isinstance(x, NameV):
            parts.append(SegStr([OpaqueHole(x)]))
        elif isinstance(x, (Opaque, IteV)):
            parts.append(SegStr([OpaqueHole('item', prov_of(x))]))
        else:
            raise Raised('TypeError', getattr(node, 'lineno', None), 'sequence item: expected str instance', implicit=True)
    return mkstr(parts)


def _s_replace(interp, args, kwargs, node):
    s = args[0]
    if isinstance(s, str) and all(isinstance(a, (str, int)) for a in args[1:]):
        return s.replace(*args[1:])
    return SegStr([OpaqueHole('replaced', prov_of(*args))])


def _s_splitlines(interp, args, kwargs, node):
    s = args[0]
    if isinstance(s, str):
        return s.splitlines()
    return Opaque('lines', prov_of(s))


def _s_simple(name):
    def f(interp, args, kwargs, node):
        s = args[0]
        if isinstance(s, str) and all(_plain(a) for a in args[1:]) and not kwargs:
            try:
                r = getattr(s, name)(*args[1:])
            except ValueError:
                raise Raised('ValueError', getattr(node, 'lineno', None), name, implicit=True)
            except TypeError:
                raise Raised('TypeError', getattr(node, 'lineno', None), name, implicit=True)
            if isinstance(r, float):
                r = lit(r)
            return r
        if name in ('partition', 'rpartition') and isinstance(s, SegStr) and len(s.parts) == 1 \
                and isinstance(s.parts[0], StrHole) and isinstance(args[1], str):
            return _partition_sym(interp, s.parts[0], args[1], name == 'rpartition')
        raise Unsupported(f"str.{name} on symbolic text")
    return f


def _partition_sym(interp, hole, sep, right):
    t = hole.term
    sv = z3.StringVal(sep)
    if interp.decide(z3.Contains(t, sv), f"{sep!r} in {t}"):
        idx = z3.LastIndexOf(t, sv) if right else z3.IndexOf(t, sv, 0)
        before = z3.SubString(t, 0, idx)
        after = z3.SubString(t, idx + len(sep), z3.Length(t) - idx - len(sep))
        return (SegStr([StrHole(before, hole.excluded)]), sep, SegStr([StrHole(after, hole.excluded)]))
    empty = ''
    return (empty, empty, SegStr([hole])) if right else (SegStr([hole]), empty, empty)


STR_IMPL = {'split': _s_split, 'count': _s_count, 'endswith': _s_endswith, 'startswith': _s_startswith,
            'strip': _s_strip, 'join': _s_join, 'replace': _s_replace, 'splitlines': _s_splitlines}


# =============================================================================== list methods
def _l_append(interp, args, kwargs, node):
    owner_check(interp, args[0], getattr(node, 'lineno', None))
    args[0].append(args[1])


def _l_extend(interp, args, kwargs, node):
    owner_check(interp, args[0], getattr(node, 'lineno', None))
    args[0].extend(iterate(interp, args[1], node))


def _l_pop(interp, args, kwargs, node):
    owner_check(interp, args[0], getattr(node, 'lineno', None))
    try:
        return args[0].pop(*args[1:])
    except IndexError:
        raise Raised('IndexError', getattr(node, 'lineno', None), 'pop from empty list', implicit=True)


def _l_index(interp, args, kwargs, node):
    l, x = args[0], args[1]
    for i, y in enumerate(l):
        r = equals(interp, x, y)
        if is_symbool(r):
            r = interp.decide(r, "list.index")
        if r:
            return i
    raise Raised('ValueError', getattr(node, 'lineno', None), 'x not in list', implicit=True)


def _l_insert(interp, args, kwargs, node):
    owner_check(interp, args[0], getattr(node, 'lineno', None))
    args[0].insert(args[1], args[2])


def _l_copy(interp, args, kwargs, node):
    return list(args[0])


def _l_count(interp, args, kwargs, node):
    n = 0
    for y in args[0]:
        r = equals(interp, args[1], y)
        if is_symbool(r):
            r = interp.decide(r, "list.count")
        n += bool(r)
    return n


def _l_remove(interp, args, kwargs, node):
    owner_check(interp, args[0], getattr(node, 'lineno', None))
    i = _l_index(interp, args, kwargs, node)       # first equal element, ValueError if none
    del args[0][i]


def _l_reverse(interp, args, kwargs, node):
    owner_check(interp, args[0], getattr(node, 'lineno', None))
    args[0].reverse()


def _l_unsupported(interp, args, kwargs, node):
    raise Unsupported("list method")


LIST_IMPL = {'append': _l_append, 'extend': _l_extend, 'pop': _l_pop, 'index': _l_index, 'insert': _l_insert,
             'copy': _l_copy, 'count': _l_count, 'remove': _l_remove, 'reverse': _l_reverse,
             'sort': _l_unsupported}


# =============================================================================== dict methods
def _d_get(interp, args, kwargs, node):
    d, k = args[0], args[1]
    default = args[2] if len(args) > 2 else None
    return dict_get(interp, d, k, default, node)


def _d_items(interp, args, kwargs, node):
    return [(k.term if isinstance(k, SymKey) else k, v) for k, v in args[0].items()]


def _d_keys(interp, args, kwargs, node):
    return [k.term if isinstance(k, SymKey) else k for k in args[0].keys()]


def _d_values(interp, args, kwargs, node):
    return list(args[0].values())


def _d_setdefault(interp, args, kwargs, node):
    d, k = args[0], args[1]
    default = args[2] if len(args) > 2 else None
    kk = dict_find(interp, d, k)
    if kk is None:
        owner_check(interp, d, getattr(node, 'lineno', None))
        dict_set(interp, d, k, default)
        return default
    return d[kk]


def _d_pop(interp, args, kwargs, node):
    d, k = args[0], args[1]
    kk = dict_find(interp, d, k)
    if kk is None:
        if len(args) > 2:
            return args[2]
        raise Raised('KeyError', getattr(node, 'lineno', None), repr(k), implicit=True)
    owner_check(interp, d, getattr(node, 'lineno', None))
    return d.pop(kk)


def _d_update(interp, args, kwargs, node):
    d = args[0]
    owner_check(interp, d, getattr(node, 'lineno', None))
    if len(args) > 1:
        for k, v in args[1].items():
            dict_set(interp, d, k, v)
    for k, v in kwargs.items():
        d[k] = v


def _d_copy(interp, args, kwargs, node):
    return dict(args[0])


DICT_IMPL = {'get': _d_get, 'items': _d_items, 'keys': _d_keys, 'values': _d_values, 'setdefault': _d_setdefault,
             'pop': _d_pop, 'update': _d_update, 'copy': _d_copy}


# =============================================================================== set methods
def _set_add(interp, args, kwargs, node):
    owner_check(interp, args[0], getattr(node, 'lineno', None))
    if hasattr(args[0], 'sym_add'):
        return args[0].sym_add(interp, args[1], node)
    set_add(interp, args[0], args[1])


def _set_union(interp, args, kwargs, node):
    if not args:
        raise Raised('TypeError', getattr(node, 'lineno', None), "union needs an argument", implicit=True)
    if hasattr(args[0], 'sym_union'):
        return args[0].sym_union(interp, args[1:], node)
    s = SetV(list(args[0].items) if isinstance(args[0], SetV) else [])
    if not isinstance(args[0], SetV):
        raise Unsupported("set.union on non-set")
    for other in args[1:]:
        for x in iterate(interp, other, node):
            set_add(interp, s, x)
    return s


def _set_difference(interp, args, kwargs, node):
    if hasattr(args[0], 'sym_difference'):
        return args[0].sym_difference(interp, args[1:], node)
    a = args[0]
    out = SetV()
    for x in a.items:
        keep = True
        for other in args[1:]:
            r = contains(interp, other, x, node)
            if is_symbool(r):
                r = interp.decide(r, "set.difference membership")
            if r:
                keep = False
                break
        if keep:
            out.items.append(x)
    return out


def _set_update(interp, args, kwargs, node):
    owner_check(interp, args[0], getattr(node, 'lineno', None))
    for other in args[1:]:
        for x in iterate(interp, other, node):
            set_add(interp, args[0], x)


def _set_copy(interp, args, kwargs, node):
    return SetV(list(args[0].items))


def _set_unsupported(interp, args, kwargs, node):
    raise Unsupported("set method")


SET_IMPL = {'add': _set_add, 'union': _set_union, 'difference': _set_difference, 'update': _set_update,
            'copy': _set_copy, 'discard': _set_unsupported, 'remove': _set_unsupported,
            'intersection': _set_unsupported, 'issubset': _set_unsupported}


def dictcomp(interp, e, env):
    """{k: v for ... in ...} — concrete iteration, or a pointwise filter over a symbolic map."""
    from . import symcoll
    from .interp import Env
    r = symcoll.try_symbolic_dictcomp(interp, e, env)
    if r is not None:
        return r
    d = {}

    def rec(i, scope):
        if i == len(e.generators):
            dict_set(interp, d, interp.ev(e.key, scope), interp.ev(e.value, scope))
            return
        g = e.generators[i]
        for item in iterate(interp, interp.ev(g.iter, scope), g.iter):
            sc = Env(scope)
            interp.assign(g.target, item, sc)
            if all(interp.truth(interp.ev(c, sc), "dictcomp-if") for c in g.ifs):
                rec(i + 1, sc)
    rec(0, Env(env))
    return d
