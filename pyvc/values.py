"""Value domain of the symbolic interpreter (concrete Python values + symbolic values)."""
import itertools
import math
from fractions import Fraction

import z3

# ----------------------------------------------------------------------------- sorts and field functions
Sub = z3.DeclareSort('Sub')        # substances (equality = the library's own __eq__, assumption A5)
Name = z3.DeclareSort('Name')      # opaque strings (object names, labels)
RS, IS, BS = z3.RealSort(), z3.IntSort(), z3.BoolSort()
kind = z3.Function('kind', Sub, IS)      # 1 solid, 2 liquid, 3 enzyme
mw = z3.Function('mw', Sub, RS)          # g/mol
dens = z3.Function('dens', Sub, RS)      # g/mL (U/mL for enzymes)
sa = z3.Function('sa', Sub, RS)          # U/g
subname = z3.Function('subname', Sub, Name)

_ctr = itertools.count()


def fresh(prefix, sort):
    return z3.Const(f"{prefix}!{next(_ctr)}", sort)


def reset_counter():
    global _ctr
    _ctr = itertools.count()


# ----------------------------------------------------------------------------- control-flow exceptions of the interpreter
class Raised(Exception):
    """A Python exception raised by the interpreted program."""

    def __init__(self, cls, lineno=None, detail=None, implicit=False):
        super().__init__(cls)
        self.cls = cls
        self.lineno = lineno
        self.detail = detail
        self.implicit = implicit     # raised by the language (ZeroDivisionError, KeyError ...) rather than `raise`

    def __repr__(self):
        return f"Raised({self.cls}@{self.lineno})"


class Unsupported(Exception):
    """Construct outside the interpreter's subset: dependent obligations become UNDECIDED."""


class PathEnd(Exception):
    """The current path is infeasible or has been cut (loop iteration paths)."""


class ReturnEx(Exception):
    def __init__(self, value):
        self.value = value


class BreakEx(Exception):
    pass


class ContinueEx(Exception):
    pass


EXC_PARENT = {
    'BaseException': None, 'Exception': 'BaseException',
    'ValueError': 'Exception', 'TypeError': 'Exception', 'RuntimeError': 'Exception',
    'ArithmeticError': 'Exception', 'ZeroDivisionError': 'ArithmeticError', 'OverflowError': 'ArithmeticError',
    'LookupError': 'Exception', 'KeyError': 'LookupError', 'IndexError': 'LookupError',
    'AttributeError': 'Exception', 'AssertionError': 'Exception', 'NotImplementedError': 'RuntimeError',
    'StopIteration': 'Exception', 'NameError': 'Exception', 'UnboundLocalError': 'NameError',
    'LinAlgError': 'ValueError',    # numpy.linalg.LinAlgError(ValueError)
}


def exc_is(cls, parent):
    while cls is not None:
        if cls == parent:
            return True
        cls = EXC_PARENT.get(cls)
    return False


# ----------------------------------------------------------------------------- numbers
INF = math.inf


def is_sym(v):
    return isinstance(v, z3.ExprRef)


def is_symnum(v):
    return isinstance(v, z3.ArithRef)


def is_symbool(v):
    return isinstance(v, z3.BoolRef)


def is_conc_num(v):
    return (isinstance(v, (int, Fraction)) and not isinstance(v, bool)) or (isinstance(v, float))


def is_num(v):
    return is_conc_num(v) or is_symnum(v)


def Q(x):
    """Exact rational z3 value of a concrete number."""
    if isinstance(x, bool):
        x = int(x)
    if isinstance(x, int):
        return z3.RealVal(x)
    if isinstance(x, Fraction):
        return z3.RealVal(f"{x.numerator}/{x.denominator}")
    if isinstance(x, float):
        if math.isinf(x) or math.isnan(x):
            raise Unsupported(f"non-finite float {x} in symbolic arithmetic")
        f = Fraction(repr(x))
        return z3.RealVal(f"{f.numerator}/{f.denominator}")
    raise Unsupported(f"not a number: {x!r}")


def lit(x):
    """Exact value of a float literal: the value of its decimal text (assumption A1)."""
    if isinstance(x, float):
        if math.isinf(x) or math.isnan(x):
            return x
        return Fraction(repr(x))
    return x


def real(v):
    """z3 Real term for a numeric value."""
    if is_symnum(v):
        return z3.ToReal(v) if v.sort() == IS else v
    if is_symbool(v):
        return z3.If(v, z3.RealVal(1), z3.RealVal(0))
    return Q(v)


def is_int_like(v):
    return (isinstance(v, int) and not isinstance(v, bool)) or (is_symnum(v) and v.sort() == IS)


def intz(v):
    if is_symnum(v):
        return v
    if isinstance(v, bool):
        return z3.IntVal(int(v))
    return z3.IntVal(v)


def boolz(v):
    if is_symbool(v):
        return v
    return z3.BoolVal(bool(v))


# ----------------------------------------------------------------------------- strings
class Hole:
    """A piece of text that is not known concretely."""
    excluded = ''     # characters guaranteed not to occur in the text


class NumHole(Hole):
    """The decimal text of a number: `float(text)` is `value` (A3).  No blanks, no '/', no ':' inside."""
    excluded = ' /:%\t\n'

    def __init__(self, value):
        self.value = value

    def __repr__(self):
        return f"<num {self.value}>"


class LabelHole(Hole):
    """An abstract row/column label (non-blank, no ':')."""
    excluded = ':'

    def __init__(self, term):
        self.term = term

    def __repr__(self):
        return f"<label {self.term}>"


class StrHole(Hole):
    """A fully symbolic piece of text: a z3 String term (used for "for all strings" rejection obligations)."""

    def __init__(self, term, excluded=''):
        self.term = term
        self.excluded = excluded

    def __repr__(self):
        return f"<str {self.term}>"


isfloat = None
floatval = None


def float_functions():
    """Uninterpreted view of float(): isfloat(text) says whether float() accepts the text, floatval its value."""
    global isfloat, floatval
    if isfloat is None:
        isfloat = z3.Function('isfloat', z3.StringSort(), BS)
        floatval = z3.Function('floatval', z3.StringSort(), RS)
    return isfloat, floatval


class OpaqueHole(Hole):
    """Text whose content is irrelevant to the obligation (messages, rendered values)."""

    def __init__(self, what=None, prov=frozenset()):
        self.what = what
        self.prov = frozenset(prov)      # provenance: tags of the opaque texts this text was derived from

    def __repr__(self):
        return f"<text {self.what!r}>"


class SegStr:
    """A string made of concrete text and typed holes."""

    def __init__(self, parts):
        out = []
        for p in parts:
            if isinstance(p, SegStr):
                ps = p.parts
            else:
                ps = [p]
            for q in ps:
                if isinstance(q, str):
                    if q == '':
                        continue
                    if out and isinstance(out[-1], str):
                        out[-1] += q
                        continue
                out.append(q)
        self.parts = out

    def __repr__(self):
        return 'SegStr(' + ''.join(p if isinstance(p, str) else repr(p) for p in self.parts) + ')'

    def is_concrete(self):
        return all(isinstance(p, str) for p in self.parts)

    def concrete(self):
        return ''.join(self.parts)


def mkstr(parts):
    s = SegStr(parts)
    if s.is_concrete():
        return s.concrete()
    return s


class NameV:
    """An opaque string known only up to equality (object names)."""

    def __init__(self, term):
        self.term = term

    def __repr__(self):
        return f"NameV({self.term})"


# ----------------------------------------------------------------------------- substances
class SubV:
    """A symbolic substance: an element of sort Sub with field functions."""

    def __init__(self, term):
        self.term = term

    def __repr__(self):
        return f"SubV({self.term})"

    def __eq__(self, other):
        return isinstance(other, SubV) and self.term.eq(other.term)

    def __hash__(self):
        return hash(self.term.get_id())


# ----------------------------------------------------------------------------- objects of the library's own classes
class Obj:
    _ids = itertools.count()

    def __init__(self, cls, fresh_=True):
        self.cls = cls            # source.ClassInfo
        self.fields = {}
        self.fresh = fresh_       # allocated during the activation under verification
        self.oid = next(Obj._ids)
        self.tag = None

    def __repr__(self):
        return f"<{self.cls.name}#{self.oid}{' ' + self.tag if self.tag else ''}>"


class ClassV:
    def __init__(self, info):
        self.info = info

    def __repr__(self):
        return f"<classv {self.info.name}>"


class FuncV:
    def __init__(self, node, qual, cls=None, closure=None, static=False):
        self.node = node
        self.qual = qual
        self.cls = cls
        self.closure = closure
        self.static = static

    def __repr__(self):
        return f"<func {self.qual}>"


class BoundV:
    def __init__(self, self_, func):
        self.self_ = self_
        self.func = func


class LambdaV:
    def __init__(self, node, closure, qual):
        self.node = node
        self.closure = closure
        self.qual = qual


class BuiltinV:
    def __init__(self, name, fn):
        self.name = name
        self.fn = fn

    def __repr__(self):
        return f"<builtin {self.name}>"


class ExcClassV:
    def __init__(self, name):
        self.name = name


class ExcV:
    def __init__(self, cls, args=()):
        self.cls = cls
        self.args = args


class SuperV:
    def __init__(self, self_, cls):
        self.self_ = self_
        self.cls = cls


class TypeMarker:
    """Names that only occur as second argument of isinstance (Iterable, str, int ...)."""

    def __init__(self, name):
        self.name = name

    def __repr__(self):
        return f"<type {self.name}>"


class SliceV:
    def __init__(self, start, stop, step):
        self.start, self.stop, self.step = start, stop, step

    def __repr__(self):
        return f"slice({self.start},{self.stop},{self.step})"

    def __eq__(self, o):
        return isinstance(o, SliceV) and (self.start, self.stop, self.step) == (o.start, o.stop, o.step)

    def __hash__(self):
        return hash(('slice', str(self.start), str(self.stop), str(self.step)))


class IteV:
    """A value that is `a` if cond else `b` where a, b are non-numeric (e.g. unit strings)."""

    def __init__(self, cond, a, b):
        self.cond, self.a, self.b = cond, a, b

    def __repr__(self):
        return f"IteV({self.cond},{self.a!r},{self.b!r})"


class Opaque:
    """A value about which nothing is known (havocked text/list).  Using it in arithmetic or control
    flow is Unsupported."""

    def __init__(self, what='', prov=frozenset()):
        self.what = what
        self.prov = frozenset(prov)

    def __repr__(self):
        return f"<opaque {self.what}>"


def prov_of(*values):
    """union of the provenance tags of opaque texts occurring in the values (taint tracking for text that is
    otherwise not interpreted: which container's instructions a piece of text came from)"""
    out = set()
    todo = list(values)
    while todo:
        v = todo.pop()
        if isinstance(v, SegStr):
            for q in v.parts:
                if isinstance(q, OpaqueHole):
                    out |= q.prov
        elif isinstance(v, (Opaque, OpaqueHole)):
            out |= v.prov
        elif isinstance(v, IteV):
            todo += [v.a, v.b]
        elif isinstance(v, (list, tuple)):
            todo += list(v)
    return frozenset(out)


class Undefined:
    def __init__(self, what=''):
        self.what = what


class GenV:
    """A generator expression / comprehension source kept lazily (consumed by sum/any/all/list ...)."""

    def __init__(self, node, env):
        self.node = node
        self.env = env


class ModuleV:
    def __init__(self, name):
        self.name = name
