"""numpy, exactly the calls the library makes (trusted axioms T3).

Two models:
* NpArr  — small arrays of *concrete shape* holding numbers (possibly symbolic): the linear systems of
           create_solution / create_solution_from (zeros, identity, roll, array, arithmetic, linalg.solve).
* GridArr — the object array of wells of a plate: shape (R, C) with symbolic R, C (C13) or a concrete small shape
           with explicit cells (plate-level obligations).
"""
import ast
from fractions import Fraction

import z3

from .values import *   # noqa: F401,F403


# ============================================================================================ NpArr
class NpArr:
    py_type = 'ndarray'
    py_iterable = True

    def __init__(self, data, fresh_=True):
        # data: list of numbers (1-D) or list of lists (2-D)
        self.data = data
        self.fresh = fresh_

    @property
    def ndim(self):
        return 2 if self.data and isinstance(self.data[0], list) else 1

    @property
    def shape(self):
        if self.ndim == 2:
            return (len(self.data), len(self.data[0]))
        return (len(self.data),)

    def __repr__(self):
        return f"NpArr({self.data})"

    def map1(self, interp, f):
        if self.ndim == 2:
            return NpArr([[f(x) for x in row] for row in self.data])
        return NpArr([f(x) for x in self.data])

    @staticmethod
    def matmul(interp, a, b, node):
        """a @ b for (2-D @ 1-D), (1-D @ 1-D) and (2-D @ 2-D) numeric arrays"""
        ln = getattr(node, 'lineno', None)
        if not (isinstance(a, NpArr) and isinstance(b, NpArr)):
            raise Unsupported("matmul operands")

        def dot(u, v):
            if len(u) != len(v):
                raise Raised('ValueError', ln, 'matmul: mismatch in core dimension', implicit=True)
            acc = 0
            for x, y in zip(u, v):
                acc = interp.binop(ast.Add(), acc, interp.binop(ast.Mult(), x, y, node), node)
            return acc
        if a.ndim == 2 and b.ndim == 1:
            return NpArr([dot(r, b.data) for r in a.data])
        if a.ndim == 1 and b.ndim == 1:
            return dot(a.data, b.data)
        if a.ndim == 2 and b.ndim == 2:
            cols = [[r[j] for r in b.data] for j in range(len(b.data[0]))]
            return NpArr([[dot(r, c) for c in cols] for r in a.data])
        raise Unsupported("matmul shapes")

    @staticmethod
    def compare(interp, op, a, b, node):
        """elementwise comparison -> array of (symbolic) booleans"""
        if isinstance(a, NpArr) and isinstance(b, NpArr):
            if a.shape != b.shape:
                raise Raised('ValueError', getattr(node, 'lineno', None), 'operands could not be broadcast together', implicit=True)
            if a.ndim == 2:
                return NpArr([[interp.compare(op, x, y, node) for x, y in zip(r1, r2)] for r1, r2 in zip(a.data, b.data)])
            return NpArr([interp.compare(op, x, y, node) for x, y in zip(a.data, b.data)])
        if isinstance(a, NpArr):
            return a.map1(interp, lambda x: interp.compare(op, x, b, node))
        return b.map1(interp, lambda x: interp.compare(op, a, x, node))

    @staticmethod
    def binop(interp, op, a, b, node):
        if isinstance(op, ast.MatMult):
            return NpArr.matmul(interp, a, b, node)
        if isinstance(a, NpArr) and isinstance(b, NpArr):
            if a.shape != b.shape:
                if a.ndim == 2 and b.ndim == 1 and a.shape[1] == b.shape[0]:
                    return NpArr([[interp.binop(op, x, y, node) for x, y in zip(row, b.data)] for row in a.data])
                raise Raised('ValueError', getattr(node, 'lineno', None), 'operands could not be broadcast together',
                             implicit=True)
            if a.ndim == 2:
                return NpArr([[interp.binop(op, x, y, node) for x, y in zip(r1, r2)] for r1, r2 in zip(a.data, b.data)])
            return NpArr([interp.binop(op, x, y, node) for x, y in zip(a.data, b.data)])
        if isinstance(a, NpArr):
            if not (is_num(b) or isinstance(b, bool)):
                raise Unsupported("array op non-number")
            return a.map1(interp, lambda x: interp.binop(op, x, b, node))
        if not (is_num(a) or isinstance(a, bool)):
            raise Unsupported("non-number op array")
        return b.map1(interp, lambda x: interp.binop(op, a, x, node))

    # --- protocol
    def sym_getitem(self, interp, k, node=None):
        ln = getattr(node, 'lineno', None)
        if isinstance(k, int):
            try:
                r = self.data[k]
            except IndexError:
                raise Raised('IndexError', ln, 'index out of bounds', implicit=True)
            if isinstance(r, list):
                return NpRow(self, k)
            return r
        if isinstance(k, SliceV):
            if all(x is None or isinstance(x, int) for x in (k.start, k.stop, k.step)):
                sub = self.data[slice(k.start, k.stop, k.step)]
                return NpArr([list(r) if isinstance(r, list) else r for r in sub])
            raise Unsupported("symbolic slice of a numeric array")
        if isinstance(k, tuple) and len(k) == 2 and all(isinstance(x, int) for x in k):
            try:
                return self.data[k[0]][k[1]]
            except IndexError:
                raise Raised('IndexError', ln, 'index out of bounds', implicit=True)
        raise Unsupported(f"numeric array index {k!r}")

    def sym_setitem(self, interp, k, value, node=None):
        ln = getattr(node, 'lineno', None)
        if isinstance(k, int):
            if not (-len(self.data) <= k < len(self.data)):
                raise Raised('IndexError', ln, 'index out of bounds', implicit=True)
            if self.ndim == 2:
                if isinstance(value, NpArr):
                    if value.ndim != 1 or len(value.data) != len(self.data[0]):
                        raise Raised('ValueError', ln, 'could not broadcast input array', implicit=True)
                    self.data[k] = list(value.data)
                elif is_num(value):
                    self.data[k] = [value] * len(self.data[0])
                else:
                    raise Unsupported("row store")
            else:
                if not is_num(value):
                    raise Unsupported("element store of non-number")
                self.data[k] = value
            return
        raise Unsupported(f"numeric array store at {k!r}")

    def sym_iterate(self, interp, node=None):
        if self.ndim == 2:
            return [NpArr(list(r)) for r in self.data]
        return list(self.data)

    def sym_len(self, interp, node=None):
        return len(self.data)

    def sym_getattr(self, interp, attr, node=None):
        if attr == 'shape':
            return self.shape
        if attr == 'size':
            s = self.shape
            return s[0] * (s[1] if len(s) > 1 else 1)
        if attr == 'sum':
            return BoundV(self, BuiltinV('ndarray.sum', lambda i, a, k, n: np_sum(i, [a[0]], k, n)))
        if attr == 'round':
            from .builtins_ import round_value
            return BoundV(self, BuiltinV('ndarray.round',
                                         lambda i, a, k, n: round_value(i, a[0], a[1] if len(a) > 1 else 0, n)))
        if attr == 'flatten':
            return BoundV(self, BuiltinV('ndarray.flatten', lambda i, a, k, n: NpArr(
                [x for r in a[0].data for x in r] if a[0].ndim == 2 else list(a[0].data))))
        raise Unsupported(f"ndarray.{attr}")

    def sym_deepcopy(self, interp, memo):
        return NpArr([list(r) if isinstance(r, list) else r for r in self.data])

    def sym_sum(self, interp, start, node=None):
        total = start
        for x in self.sym_iterate(interp, node):
            total = interp.binop(ast.Add(), total, x, node)
        return total


class NpRow:
    """a[i] of a 2-D numeric array: a view (reads and row arithmetic only)."""
    py_type = 'ndarray'
    py_iterable = True

    def __new__(cls, arr, i):
        return NpArr(list(arr.data[i]))


def np_sum(interp, args, kwargs, node):
    a = args[0]
    if isinstance(a, NpArr):
        flat = [x for r in a.data for x in r] if a.ndim == 2 else list(a.data)
        total = 0
        for x in flat:
            total = interp.binop(ast.Add(), total, x, node)
        return total
    if hasattr(a, 'sym_sum'):
        return a.sym_sum(interp, 0, node)
    from .builtins_ import b_sum
    return b_sum(interp, args, kwargs, node)


def np_zeros(interp, args, kwargs, node):
    shape = args[0]
    if isinstance(shape, int):
        return NpArr([0] * shape)
    if isinstance(shape, tuple) and all(isinstance(x, int) for x in shape):
        if len(shape) == 1:
            return NpArr([0] * shape[0])
        if len(shape) == 2:
            return NpArr([[0] * shape[1] for _ in range(shape[0])])
    if isinstance(shape, tuple) and len(shape) == 2:
        return GridNum(shape[0], shape[1], 0)
    raise Unsupported("numpy.zeros of symbolic shape")


def np_identity(interp, args, kwargs, node):
    n = args[0]
    if not isinstance(n, int):
        raise Unsupported("numpy.identity of symbolic size")
    return NpArr([[1 if i == j else 0 for j in range(n)] for i in range(n)])


def np_roll(interp, args, kwargs, node):
    a, k = args[0], args[1]
    if isinstance(a, NpArr) and a.ndim == 1 and isinstance(k, int):
        n = len(a.data)
        if n == 0:
            return NpArr([])
        k %= n
        return NpArr(a.data[-k:] + a.data[:-k] if k else list(a.data))
    raise Unsupported("numpy.roll")


def np_array(interp, args, kwargs, node):
    src = args[0]
    from . import builtins_ as B
    if isinstance(src, NpArr):
        return src.sym_deepcopy(interp, {})
    items = B.iterate(interp, src, node)
    if items and all(isinstance(x, (list, tuple)) for x in items):
        rows = [list(x) for x in items]
        if all(is_num(y) or isinstance(y, bool) for r in rows for y in r):
            if len({len(r) for r in rows}) != 1:
                raise Unsupported("ragged array")
            return NpArr(rows)
        if all(isinstance(y, Obj) for r in rows for y in r):
            return GridArr.concrete(rows)
        raise Unsupported("numpy.array of mixed content")
    if all(is_num(x) or isinstance(x, bool) for x in items):
        return NpArr(list(items))
    if all(isinstance(x, GridArr) for x in items) and items:
        # np.array(list(map(array.__getitem__, slices))): a stack of 1x1 views
        if all(g.is_concrete() and g.shape_c == (1, 1) for g in items):
            return GridStack([g.cells[0][0] for g in items], [g for g in items])
        raise Unsupported("stack of symbolic views")
    raise Unsupported("numpy.array of non-numeric content")


def np_shape(interp, args, kwargs, node):
    a = args[0]
    if hasattr(a, 'sym_getattr'):
        return a.sym_getattr(interp, 'shape', node)
    raise Unsupported("numpy.shape")


def np_size(interp, args, kwargs, node):
    a = args[0]
    if hasattr(a, 'sym_getattr'):
        return a.sym_getattr(interp, 'size', node)
    raise Unsupported("numpy.size")


class LinalgV:
    pass


def np_solve(interp, args, kwargs, node):
    """numpy.linalg.solve(A, b): the x with A x = b if det A != 0, LinAlgError otherwise (T3).
    x is introduced as fresh reals constrained by the n equations (no closed form needed)."""
    A, b = args[0], args[1]
    ln = getattr(node, 'lineno', None)
    if not (isinstance(A, NpArr) and isinstance(b, NpArr) and A.ndim == 2 and b.ndim == 1):
        raise Unsupported("linalg.solve operands")
    n = len(A.data)
    if any(len(r) != n for r in A.data):
        raise Raised('LinAlgError', ln, 'Last 2 dimensions of the array must be square', implicit=True)
    if len(b.data) != n:
        raise Raised('ValueError', ln, 'solve: mismatch in core dimension', implicit=True)
    if all(is_conc_num(x) for r in A.data for x in r) and all(is_conc_num(x) for x in b.data):
        # all operands concrete: exact rational Gaussian elimination (the same x the axiom below characterises)
        from fractions import Fraction
        M = [[Fraction(x) for x in r] + [Fraction(y)] for r, y in zip(A.data, b.data)]
        for c in range(n):
            piv = next((r for r in range(c, n) if M[r][c] != 0), None)
            if piv is None:
                raise Raised('LinAlgError', ln, 'Singular matrix', implicit=True)
            M[c], M[piv] = M[piv], M[c]
            for r in range(n):
                if r != c and M[r][c] != 0:
                    f = M[r][c] / M[c][c]
                    M[r] = [a - f * b_ for a, b_ in zip(M[r], M[c])]
        return NpArr([M[i][n] / M[i][i] for i in range(n)])
    d = det([[real(x) for x in r] for r in A.data])
    d = z3.simplify(d)
    if not interp.decide(d != 0, f"det != 0 @{ln}"):
        raise Raised('LinAlgError', ln, 'Singular matrix', implicit=True)
    xs = [fresh('x', RS) for _ in range(n)]
    for i in range(n):
        interp.assume(sum((real(A.data[i][j]) * xs[j] for j in range(n)), z3.RealVal(0)) == real(b.data[i]))
    return NpArr(xs)


def det(M):
    n = len(M)
    if n == 1:
        return M[0][0]
    if n == 2:
        return M[0][0] * M[1][1] - M[0][1] * M[1][0]
    total = z3.RealVal(0)
    for j in range(n):
        minor = [r[:j] + r[j + 1:] for r in M[1:]]
        term = M[0][j] * det(minor)
        total = total + term if j % 2 == 0 else total - term
    return total


def np_round(interp, args, kwargs, node):
    from .builtins_ import round_value
    return round_value(interp, args[0], args[1] if len(args) > 1 else kwargs.get('decimals', 0), node)


def np_isclose(interp, args, kwargs, node):
    """numpy.isclose(a, b, rtol=1e-05, atol=1e-08) for scalars: |a - b| <= atol + rtol * |b| (A1: over the reals)"""
    from fractions import Fraction
    if len(args) < 2:
        raise Raised('TypeError', getattr(node, 'lineno', None), 'isclose() missing operands', implicit=True)
    a, b = args[0], args[1]
    rtol = args[2] if len(args) > 2 else kwargs.get('rtol', Fraction(1, 100000))
    atol = args[3] if len(args) > 3 else kwargs.get('atol', Fraction(1, 100000000))
    if not all(is_num(x) for x in (a, b, rtol, atol)):
        raise Unsupported("numpy.isclose on non-scalars")
    ra, rb = real(a), real(b)
    absz = lambda t: z3.If(t >= 0, t, -t)      # noqa: E731
    return z3.simplify(absz(ra - rb) <= real(atol) + real(rtol) * absz(rb))


def _flat(v):
    if isinstance(v, NpArr):
        return [x for r in v.data for x in r] if v.ndim == 2 else list(v.data)
    return [v]


def np_any(interp, args, kwargs, node):
    from .values import boolz
    items = [boolz(x) if not isinstance(x, bool) else x for x in _flat(args[0])]
    if all(isinstance(x, bool) for x in items):
        return any(items)
    return z3.simplify(z3.Or(*[x if not isinstance(x, bool) else z3.BoolVal(x) for x in items]))


def np_all(interp, args, kwargs, node):
    from .values import boolz
    items = [boolz(x) if not isinstance(x, bool) else x for x in _flat(args[0])]
    if all(isinstance(x, bool) for x in items):
        return all(items)
    return z3.simplify(z3.And(*[x if not isinstance(x, bool) else z3.BoolVal(x) for x in items]))


def np_abs(interp, args, kwargs, node):
    from .builtins_ import b_abs
    v = args[0]
    if isinstance(v, NpArr):
        return v.map1(interp, lambda x: b_abs(interp, [x], {}, node))
    return b_abs(interp, [v], {}, node)


def np_clip(interp, args, kwargs, node):
    """numpy.clip(a, lo, hi) elementwise (None = unbounded on that side)"""
    a = args[0]
    lo = args[1] if len(args) > 1 else kwargs.get('a_min', kwargs.get('min'))
    hi = args[2] if len(args) > 2 else kwargs.get('a_max', kwargs.get('max'))

    def one(x):
        if is_conc_num(x) and (lo is None or is_conc_num(lo)) and (hi is None or is_conc_num(hi)):
            y = x if lo is None else max(x, lo)
            return y if hi is None else min(y, hi)
        y = real(x)
        if lo is not None:
            y = z3.If(y < real(lo), real(lo), y)
        if hi is not None:
            y = z3.If(y > real(hi), real(hi), y)
        return y
    if isinstance(a, NpArr):
        return a.map1(interp, one)
    if not is_num(a):
        raise Unsupported("numpy.clip operand")
    return one(a)


def np_dot(interp, args, kwargs, node):
    return NpArr.matmul(interp, args[0], args[1], node)


NP_FUNCS = {'clip': np_clip, 'any': np_any, 'all': np_all, 'abs': np_abs, 'absolute': np_abs, 'dot': np_dot, 'isclose': np_isclose, 'round': np_round, 'zeros': np_zeros, 'identity': np_identity, 'roll': np_roll, 'array': np_array, 'sum': np_sum,
            'shape': np_shape, 'size': np_size}


def np_prod(interp, args, kwargs, node):
    """numpy.prod of a tuple/list of plain integers (shape arithmetic)"""
    v = args[0]
    if isinstance(v, (tuple, list)) and all(isinstance(x, int) and not isinstance(x, bool) for x in v) and not kwargs and len(args) == 1:
        out = 1
        for x in v:
            out *= x
        return out
    raise Unsupported("numpy.prod of this operand")


def module_attr(interp, mod, attr, node):
    if mod.name == 'numpy':
        if attr in NP_FUNCS:
            return BuiltinV('numpy.' + attr, NP_FUNCS[attr])
        if attr == 'prod':
            return BuiltinV('numpy.prod', np_prod)
        if attr == 'ndarray':
            return TypeMarker('ndarray')
        if attr == 'linalg':
            return ModuleV('numpy.linalg')
        if attr == 'vectorize':
            return BuiltinV('numpy.vectorize', np_vectorize)
        if attr == 'frompyfunc':
            return BuiltinV('numpy.frompyfunc', np_frompyfunc)
        raise Unsupported(f"numpy.{attr}")
    if mod.name == 'numpy.linalg':
        if attr == 'solve':
            return BuiltinV('numpy.linalg.solve', np_solve)
        if attr == 'LinAlgError':
            return ExcClassV('LinAlgError')
        raise Unsupported(f"numpy.linalg.{attr}")
    raise Unsupported(f"module {mod.name}")


# ============================================================================================ grids of wells
class GridArr:
    """Object array of wells.  Either abstract (symbolic shape R x C, only `shape` is known — enough for the
    selector obligations of C13) or concrete (explicit small matrix of cells, possibly a view into a parent)."""
    py_type = 'ndarray'
    py_iterable = True

    def __init__(self, R=None, C=None, cells=None, parent=None, index=None, fresh_=False):
        self.R, self.C = R, C
        self.cells = cells          # list of lists (concrete) or None (abstract)
        self.parent = parent        # for views: (parent GridArr, list of (r, c) coordinates per cell)
        self.index = index
        self.fresh = fresh_

    @staticmethod
    def concrete(rows, fresh_=True):
        g = GridArr(len(rows), len(rows[0]) if rows else 0, [list(r) for r in rows], fresh_=fresh_)
        return g

    def is_concrete(self):
        return self.cells is not None

    @property
    def shape_c(self):
        if isinstance(self.R, int) and isinstance(self.C, int) and not self.cells:
            return (self.R, self.C)       # an empty selection keeps the length of its other axis (numpy)
        return (len(self.cells), len(self.cells[0]) if self.cells else 0)

    def sym_getattr(self, interp, attr, node=None):
        if attr == 'shape':
            if self.is_concrete():
                return self.shape_c
            return (self.R, self.C)
        if attr == 'size':
            if self.is_concrete():
                return self.shape_c[0] * self.shape_c[1]
            return self.R * self.C
        if attr == '__getitem__':
            return BoundV(self, BuiltinV('ndarray.__getitem__', lambda i, a, k, n: a[0].sym_getitem(i, a[1], n)))
        if attr == '__setitem__':
            return BoundV(self, BuiltinV('ndarray.__setitem__', lambda i, a, k, n: a[0].sym_setitem(i, a[1], a[2], n)))
        if attr == 'flatten':
            return BoundV(self, BuiltinV('ndarray.flatten', lambda i, a, k, n: a[0].flat_list()))
        if attr == 'copy':
            def _copy(i, a, k, n):
                g = a[0]
                if not g.is_concrete():
                    raise Unsupported("copy of an abstract grid")
                return GridArr(g.R, g.C, [list(r) for r in g.cells], fresh_=True)      # new array, same well objects
            return BoundV(self, BuiltinV('ndarray.copy', _copy))
        raise Unsupported(f"ndarray.{attr} on a grid of wells")

    def flat_list(self):
        if not self.is_concrete():
            raise Unsupported("flatten of an abstract grid")
        return GridFlat([c for r in self.cells for c in r])

    # --- indexing (basic slicing = Python slice semantics per axis; a *view*)
    def _axis(self, interp, k, n, node):
        """indices selected on an axis of length n (concrete) by an int or a slice with concrete bounds."""
        ln = getattr(node, 'lineno', None)
        if isinstance(k, bool):
            k = int(k)
        if isinstance(k, int):
            if not (-n <= k < n):
                raise Raised('IndexError', ln, 'index out of bounds', implicit=True)
            return [k % n], True
        if isinstance(k, SliceV):
            vals = []
            for x in (k.start, k.stop, k.step):
                if x is not None and not isinstance(x, int):
                    raise Unsupported("symbolic slice bound on a concrete grid")
                vals.append(x)
            if vals[2] == 0:
                raise Raised('ValueError', ln, 'slice step cannot be zero', implicit=True)
            return list(range(*slice(*vals).indices(n))), False
        raise Raised('IndexError', ln, 'only integers and slices are valid indices', implicit=True)

    def _fancy(self, k, R, C, node):
        """coordinates addressed by integer-array indexing a[[rows], [cols]] (two lists of concrete ints), else None"""
        if not (isinstance(k, tuple) and len(k) == 2 and isinstance(k[0], list) and isinstance(k[1], list)):
            if isinstance(k, tuple) and any(isinstance(x, list) for x in k):
                raise Unsupported("mixed integer-array / basic indexing of a grid")
            return None
        ln = getattr(node, 'lineno', None)
        if len(k[0]) != len(k[1]):
            if len(k[0]) == 1 or len(k[1]) == 1:
                raise Unsupported("broadcast integer-array indexing")
            raise Raised('IndexError', ln, 'shape mismatch: indexing arrays could not be broadcast together', implicit=True)
        out = []
        for r, c in zip(k[0], k[1]):
            if r is None or c is None:
                raise Raised('IndexError', ln, 'only integers, slices, ellipsis, None and integer arrays are valid indices', implicit=True)
            if isinstance(r, bool) or isinstance(c, bool) or not isinstance(r, int) or not isinstance(c, int):
                raise Unsupported("non-integer entries in integer-array indexing")
            if not (-R <= r < R and -C <= c < C):
                raise Raised('IndexError', ln, 'index out of bounds', implicit=True)
            out.append((r % R, c % C))
        return out

    def sym_getitem(self, interp, k, node=None):
        if not self.is_concrete():
            raise Unsupported("indexing an abstract grid")
        R, C = self.shape_c
        if k is Ellipsis:
            k = (SliceV(None, None, None), SliceV(None, None, None))
        if not isinstance(k, tuple):
            k = (k, SliceV(None, None, None))
        if len(k) != 2:
            raise Raised('IndexError', getattr(node, 'lineno', None), 'too many indices', implicit=True)
        fancy = self._fancy(k, R, C, node)
        if fancy is not None:
            # integer-array indexing a[[r...], [c...]]: a 1-D COPY of the addressed cells, in the order given (T3)
            return GridFlat([self.cells[r][c] for r, c in fancy])
        rows, rint = self._axis(interp, k[0], R, node)
        cols, cint = self._axis(interp, k[1], C, node)
        if rint and cint:
            return self.cells[rows[0]][cols[0]]
        if rint and not cint:
            return GridRowView(self, rows[0], cols)
        if cint:
            raise Unsupported("column view of a grid")
        return GridArr(len(rows), len(cols), [[self.cells[r][c] for c in cols] for r in rows],
                       parent=self, index=[[(r, c) for c in cols] for r in rows], fresh_=self.fresh)

    def sym_setitem(self, interp, k, value, node=None):
        from .builtins_ import record_write
        ln = getattr(node, 'lineno', None)
        if not self.is_concrete():
            raise Unsupported("store into an abstract grid")
        R, C = self.shape_c
        if k is Ellipsis:
            k = (SliceV(None, None, None), SliceV(None, None, None))
        if not isinstance(k, tuple):
            k = (k, SliceV(None, None, None))
        fancy = self._fancy(k, R, C, node) if len(k) == 2 else None
        if fancy is not None:
            # a[[r...], [c...]] = values: element by element in the order given; a cell addressed twice keeps the LAST value (T3)
            if isinstance(value, GridFlat):
                vals = list(value.items)
            elif isinstance(value, list) and not (value and isinstance(value[0], list)):
                vals = list(value)
            elif isinstance(value, (GridArr, list)):
                raise Unsupported("2-D value stored through integer-array indexing")
            else:
                vals = [value] * len(fancy)
            if len(vals) != len(fancy):
                if len(vals) == 1:
                    vals = vals * len(fancy)
                else:
                    raise Raised('ValueError', ln, 'shape mismatch: value array could not be broadcast to indexing result', implicit=True)
            self.write_cells(interp, [(r, c, v) for (r, c), v in zip(fancy, vals)], ln)
            return
        rows, rint = self._axis(interp, k[0], R, node)
        cols, cint = self._axis(interp, k[1], C, node)
        tgt_shape = (len(rows), len(cols))
        # value: a grid of the same shape, a nested list [[v]], or a single object (broadcast)
        if isinstance(value, GridArr):
            if not value.is_concrete():
                raise Unsupported("store of abstract grid")
            vs = value.shape_c
            if vs != tgt_shape:
                if vs == (1, 1):
                    vals = [[value.cells[0][0]] * tgt_shape[1] for _ in range(tgt_shape[0])]
                else:
                    raise Raised('ValueError', ln, 'could not broadcast input array', implicit=True)
            else:
                vals = value.cells
        elif isinstance(value, GridFlat) or isinstance(value, GridStack):
            raise Raised('IndexError' if isinstance(value, GridFlat) else 'ValueError', ln,
                         'shape mismatch storing a flat array into a 2-D selection', implicit=True)
        elif isinstance(value, list):
            if value and isinstance(value[0], list):
                if (len(value), len(value[0])) == tgt_shape:
                    vals = value
                elif (len(value), len(value[0])) == (1, 1):
                    vals = [[value[0][0]] * tgt_shape[1] for _ in range(tgt_shape[0])]
                else:
                    raise Raised('ValueError', ln, 'could not broadcast input array', implicit=True)
            else:
                raise Unsupported("1-D list store into a grid")
        else:
            vals = [[value] * tgt_shape[1] for _ in range(tgt_shape[0])]
        self.write_cells(interp, [(r, c, vals[i][j]) for i, r in enumerate(rows) for j, c in enumerate(cols)], ln)

    def write_cells(self, interp, triples, ln):
        from .builtins_ import record_write
        for r, c, v in triples:
            if self.cells[r][c] is not v:
                if not self.fresh:
                    interp.writes.append((self, f'[{r},{c}]', ln, interp.call_stack[-1] if interp.call_stack else '?'))
                self.cells[r][c] = v
            if self.parent is not None:
                pr, pc = self.index[r][c]
                self.parent.write_cells(interp, [(pr, pc, v)], ln)

    def sym_iterate(self, interp, node=None):
        if not self.is_concrete():
            raise Unsupported("iteration over an abstract grid")
        return [GridFlat(list(r)) for r in self.cells]

    def sym_deepcopy(self, interp, memo):
        from .builtins_ import deep_copy
        if not self.is_concrete():
            g = GridArr(self.R, self.C, None, fresh_=True)
            return g
        return GridArr(self.R, self.C, [[deep_copy(interp, c, memo) for c in r] for r in self.cells], fresh_=True)

    def sym_equals(self, interp, other):
        return other is self

    def sym_len(self, interp, node=None):
        if self.is_concrete():
            return len(self.cells)
        return self.R


class GridRowView:
    """a[r] / a[r, c0:c1] of a grid of wells: a 1-D view that writes through."""
    py_type = 'ndarray'
    py_iterable = True

    def __init__(self, grid, r, cols):
        self.grid, self.r, self.cols = grid, r, cols

    def sym_getitem(self, interp, k, node=None):
        if isinstance(k, int) and -len(self.cols) <= k < len(self.cols):
            return self.grid.cells[self.r][self.cols[k]]
        if isinstance(k, int):
            raise Raised('IndexError', getattr(node, 'lineno', None), 'index out of bounds', implicit=True)
        raise Unsupported("row view index")

    def sym_setitem(self, interp, k, value, node=None):
        if isinstance(k, int) and -len(self.cols) <= k < len(self.cols):
            self.grid.write_cells(interp, [(self.r, self.cols[k], value)], getattr(node, 'lineno', None))
            return
        raise Unsupported("row view store")

    def sym_iterate(self, interp, node=None):
        return [self.grid.cells[self.r][c] for c in self.cols]

    def sym_len(self, interp, node=None):
        return len(self.cols)

    def sym_getattr(self, interp, attr, node=None):
        if attr == 'shape':
            return (len(self.cols),)
        if attr == 'size':
            return len(self.cols)
        raise Unsupported(f"ndarray.{attr} on a row view")


class GridFlat:
    """1-D array of wells (result of flatten())."""
    py_type = 'ndarray'
    py_iterable = True

    def __init__(self, items):
        self.items = list(items)

    def sym_iterate(self, interp, node=None):
        return list(self.items)

    def sym_getattr(self, interp, attr, node=None):
        if attr == 'shape':
            return (len(self.items),)
        if attr == 'size':
            return len(self.items)
        if attr == 'flatten':
            return BoundV(self, BuiltinV('ndarray.flatten', lambda i, a, k, n: GridFlat(a[0].items)))
        raise Unsupported(f"ndarray.{attr} on a flat array of wells")

    def sym_getitem(self, interp, k, node=None):
        if isinstance(k, int):
            try:
                return self.items[k]
            except IndexError:
                raise Raised('IndexError', getattr(node, 'lineno', None), 'index out of bounds', implicit=True)
        raise Unsupported("flat array index")

    def sym_setitem(self, interp, k, value, node=None):
        if isinstance(k, int):
            self.items[k] = value
            return
        if k is Ellipsis or (isinstance(k, SliceV) and k.start is None and k.stop is None and k.step is None):
            vals = value.items if isinstance(value, GridFlat) else (list(value) if isinstance(value, list) else [value] * len(self.items))
            if len(vals) != len(self.items):
                raise Raised('ValueError', getattr(node, 'lineno', None), 'could not broadcast input array', implicit=True)
            self.items[:] = vals          # this array is a copy of the selected cells: the plate does not see the store
            return
        raise Unsupported("flat array store")

    def sym_len(self, interp, node=None):
        return len(self.items)


class GridStack(GridFlat):
    """np.array([view, view, ...]).flatten(): copies of the selected cells (writes do not reach the plate)."""

    def __init__(self, items, views):
        super().__init__(items)
        self.views = views


class GridNum:
    """numpy.zeros(shape) of a plate shape: numeric per-well array (flows); only what the trackers use."""
    py_type = 'ndarray'

    def __init__(self, R, C, fill):
        self.R, self.C, self.fill = R, C, fill

    def sym_getattr(self, interp, attr, node=None):
        if attr == 'shape':
            return (self.R, self.C)
        raise Unsupported(f"numeric grid .{attr}")


def np_vectorize(interp, args, kwargs, node):
    f = args[0]
    return VectorizedV(f, bool(kwargs.get('cache', False)), kwargs.get('otypes'))


class VectorizedV:
    """numpy.vectorize(f, cache=True | otypes=...)(A): f once per element in C order, new array of results.
    Without cache/otypes numpy calls f one extra time on the first element (T3)."""

    def __init__(self, f, cache, otypes):
        self.f, self.cache, self.otypes = f, cache, otypes

    def _dtype(self, flat, node):
        """numeric results: with otypes the dtype is given ('d' -> float); WITHOUT otypes numpy takes the dtype from the
        Python type of the FIRST result — an int there makes an integer array and every later float is truncated."""
        import math as _m
        if self.otypes is not None or not flat:
            return flat
        first = flat[0]
        if isinstance(first, (bool, int)):
            out = []
            for x in flat:
                if isinstance(x, (bool, int)):
                    out.append(int(x))
                elif isinstance(x, (Fraction, float)):
                    out.append(_m.trunc(x))
                else:
                    raise Unsupported("numpy.vectorize without otypes: integer dtype taken from the first result, "
                                      "later symbolic values would be truncated")
            return out
        if isinstance(first, (Fraction, float)):
            return flat
        if any(not isinstance(x, (bool, int, Fraction, float)) for x in flat[:1]):
            # the Python type (int or float) of a symbolic first result is not tracked: the dtype is unknown
            raise Unsupported("numpy.vectorize without otypes: the dtype depends on the Python type of the first result")
        return flat

    def sym_call(self, interp, args, kwargs, node):
        A = args[0]
        if isinstance(A, Obj):
            # 0-d: a single object
            return interp.call(self.f, [A], {}, node)
        if isinstance(A, GridArr):
            if not A.is_concrete():
                raise Unsupported("vectorize over an abstract grid")
            if A.shape_c[0] * A.shape_c[1] == 0:
                if self.otypes is None:
                    raise Raised('ValueError', getattr(node, 'lineno', None),
                                 'cannot call vectorize on size 0 inputs unless otypes is set', implicit=True)
                return GridArr.concrete([[] for _ in A.cells])
            if not self.cache and self.otypes is None:
                interp.call(self.f, [A.cells[0][0]], {}, node)     # the extra probing call
            out = [[interp.call(self.f, [c], {}, node) for c in r] for r in A.cells]
            if all(is_num(x) or isinstance(x, bool) for r in out for x in r):
                flat = self._dtype([x for r in out for x in r], node)
                it = iter(flat)
                return NpArr([[next(it) for _ in r] for r in out])
            return GridArr.concrete(out)
        if isinstance(A, GridFlat):
            if not self.cache and self.otypes is None and A.items:
                interp.call(self.f, [A.items[0]], {}, node)
            out = [interp.call(self.f, [c], {}, node) for c in A.items]
            if all(is_num(x) or isinstance(x, bool) for x in out):
                return NpArr(self._dtype(out, node))
            return GridFlat(out)
        raise Unsupported(f"vectorize over {type(A).__name__}")


def np_frompyfunc(interp, args, kwargs, node):
    f, nin, nout = args[0], args[1], args[2]
    return FromPyFuncV(f, nin, nout)


class FromPyFuncV:
    """numpy.frompyfunc(f, 2, 2)(A, B): pairs elements in C order (broadcasting a size-1 operand)."""

    def __init__(self, f, nin, nout):
        self.f, self.nin, self.nout = f, nin, nout

    def sym_call(self, interp, args, kwargs, node):
        if self.nin != 2 or self.nout != 2 or len(args) != 2:
            raise Unsupported("frompyfunc arity")
        A, B = args
        if isinstance(A, GridArr) and isinstance(B, GridArr) and A.is_concrete() and B.is_concrete():
            if A.shape_c != B.shape_c:
                raise Unsupported("frompyfunc broadcasting")
            o1 = [[None] * A.shape_c[1] for _ in range(A.shape_c[0])]
            o2 = [[None] * A.shape_c[1] for _ in range(A.shape_c[0])]
            for i in range(A.shape_c[0]):
                for j in range(A.shape_c[1]):
                    r = interp.call(self.f, [A.cells[i][j], B.cells[i][j]], {}, node)
                    o1[i][j], o2[i][j] = interp.iterate(r, node)
            return (GridArr.concrete(o1), GridArr.concrete(o2))
        if isinstance(A, GridFlat) and isinstance(B, GridFlat):
            if len(A.items) != len(B.items):
                raise Raised('ValueError', getattr(node, 'lineno', None), 'operands could not be broadcast together',
                             implicit=True)
            o1, o2 = [], []
            for x, y in zip(A.items, B.items):
                r = interp.call(self.f, [x, y], {}, node)
                a, b = interp.iterate(r, node)
                o1.append(a)
                o2.append(b)
            return (GridFlat(o1), GridFlat(o2))
        raise Unsupported("frompyfunc operands")
