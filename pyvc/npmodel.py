"""numpy, exactly the calls the library makes (trusted axioms T3)."""
from .values import *   # noqa: F401,F403


class NpArr:
    py_type = 'ndarray'
    py_iterable = True

    @staticmethod
    def binop(interp, op, a, b, node):
        raise Unsupported("numpy arithmetic (model not loaded)")


def module_attr(interp, mod, attr, node):
    raise Unsupported(f"numpy.{attr}")
