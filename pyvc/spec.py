"""Specification vocabulary (DESIGN §4.2) — written from SI and from the property statements, not from
the code.  Every function works both on z3 terms (proof) and on exact Fractions (replay)."""
from fractions import Fraction

try:
    import z3
except ImportError:      # replay side (the repository's interpreter has no z3)
    z3 = None

SI = {'n': Fraction(1, 10 ** 9), 'u': Fraction(1, 10 ** 6), 'µ': Fraction(1, 10 ** 6), 'm': Fraction(1, 1000),
      'c': Fraction(1, 100), 'd': Fraction(1, 10), '': Fraction(1), 'da': Fraction(10), 'k': Fraction(1000),
      'M': Fraction(10 ** 6)}
PREFIXES = list(SI)
BASES = ['mol', 'g', 'L', 'U']
SOLID, LIQUID, ENZYME = 1, 2, 3


def all_units(bases=BASES, prefixes=PREFIXES):
    return [p + b for b in bases for p in prefixes]


def split_unit(u):
    """Documented unit grammar: SI prefix + base unit."""
    for b in ('mol', 'g', 'L', 'U'):
        if u.endswith(b) and u[:-len(b)] in SI:
            return u[:-len(b)], b
    raise ValueError(f"not a unit of the documented grammar: {u!r}")


def is_z3(x):
    return z3 is not None and isinstance(x, z3.ExprRef)


def ite(c, a, b):
    if isinstance(c, bool):
        return a if c else b
    return z3.If(c, num(a), num(b))


def num(x):
    if is_z3(x):
        return x
    if isinstance(x, int):
        return z3.RealVal(x)
    x = Fraction(x)
    return z3.RealVal(f"{x.numerator}/{x.denominator}")


def mul(a, b):
    if is_z3(a) or is_z3(b):
        return num(a) * num(b)
    return a * b


def div(a, b):
    if is_z3(a) or is_z3(b):
        return num(a) / num(b)
    return Fraction(a) / Fraction(b)


class SubSpec:
    """A substance as the specification sees it: kind and the three physical constants."""

    def __init__(self, kind, mw=None, dens=None, sa=None):
        self.kind, self.mw, self.dens, self.sa = kind, mw, dens, sa

    def is_enzyme(self):
        return self.kind == ENZYME if not is_z3(self.kind) else (self.kind == 3)


def to_g(s, base):
    """grams per one base unit of substance s (enzyme density is U/mL)."""
    enz = s.is_enzyme()
    if base == 'g':
        return Fraction(1) if not is_z3(enz) else z3.RealVal(1)
    if base == 'mol':
        return s.mw                                  # only meaningful for non-enzymes
    if base == 'L':
        if isinstance(enz, bool):
            return div(mul(1000, s.dens), s.sa) if enz else mul(1000, s.dens)
        return z3.If(enz, 1000 * s.dens / s.sa, 1000 * s.dens)
    if base == 'U':
        return div(1, s.sa)                          # only meaningful for enzymes
    raise ValueError(base)


def factor(s, fb, tb):
    """Multiplier converting an amount in base unit fb into base unit tb for substance s.
    0 where the property says "carry no moles / no activity".  (`U` as a *source* for a non-enzyme is a
    rejection, decided by `rejects`, and factor is then irrelevant.)"""
    enz = s.is_enzyme()
    zero = Fraction(0)
    if tb == 'U':
        if fb == 'mol':
            return zero if not is_z3(enz) else z3.RealVal(0)
        if isinstance(enz, bool):
            return div(to_g(s, fb), to_g(s, 'U')) if enz else zero
        return z3.If(enz, to_g(s, fb) / to_g(s, 'U'), 0)
    if fb == 'U':
        if tb == 'mol':
            return zero if not is_z3(enz) else z3.RealVal(0)
        if isinstance(enz, bool):
            return div(to_g(s, 'U'), to_g(s, tb)) if enz else zero
        return z3.If(enz, to_g(s, 'U') / to_g(s, tb), 0)
    if fb == 'mol' or tb == 'mol':
        if isinstance(enz, bool):
            return zero if enz else div(to_g(s, fb), to_g(s, tb))
        return z3.If(enz, 0, to_g(s, fb) / to_g(s, tb))
    return div(to_g(s, fb), to_g(s, tb))


def rejects(s, fb):
    """Measuring a non-enzyme in activity units is rejected."""
    enz = s.is_enzyme()
    if fb != 'U':
        return False
    if isinstance(enz, bool):
        return not enz
    return z3.Not(enz)


def convert_spec(s, q, from_unit, to_unit):
    """What converting q [from_unit] of s into to_unit must give."""
    pf, fb = split_unit(from_unit)
    pt, tb = split_unit(to_unit)
    return div(mul(mul(q, SI[pf]), factor(s, fb, tb)), SI[pt])


def storage_base(s_is_enzyme):
    return 'U' if s_is_enzyme else 'mol'
