"""for / while loops: concrete iteration is unrolled, symbolic iteration is cut by invariants."""
import ast
import z3
from .values import *   # noqa: F401,F403
from . import builtins_ as B

MAX_UNROLL = 4000


def exec_for(interp, st, env):
    it = interp.ev(st.iter, env)
    if B.is_symbolic_collection(it):
        return it.sym_loop(interp, st, env)
    items = interp.iterate(it, st.iter)
    broke = False
    for item in items:
        interp.assign(st.target, item, env)
        try:
            interp.exec_block(st.body, env)
        except BreakEx:
            broke = True
            break
        except ContinueEx:
            continue
    if not broke:
        interp.exec_block(st.orelse, env)


def exec_while(interp, st, env):
    inv = interp.loop_invariants.get(loop_signature(st))
    if inv is not None:
        return inv.run_while(interp, st, env)
    n = 0
    while True:
        c = interp.ev(st.test, env)
        if is_sym(c) and n >= interp.__dict__.get('while_unroll', 64):
            raise Unsupported(f"while loop at line {st.lineno} with symbolic condition and no invariant")
        if not interp.truth(c, f"while@{st.lineno}"):
            break
        n += 1
        if n > MAX_UNROLL:
            raise Unsupported("while loop unroll limit")
        try:
            interp.exec_block(st.body, env)
        except BreakEx:
            return
        except ContinueEx:
            continue
    interp.exec_block(st.orelse, env)


def assigned_names(st):
    names = set()
    for n in ast.walk(st):
        tg = []
        if isinstance(n, ast.Assign):
            tg = n.targets
        elif isinstance(n, (ast.AugAssign, ast.AnnAssign)):
            tg = [n.target]
        elif isinstance(n, ast.For):
            tg = [n.target]
        for t in tg:
            for m in ast.walk(t):
                if isinstance(m, ast.Name):
                    names.add(m.id)
    return names


def loop_signature(st):
    if isinstance(st, ast.For):
        return f"for {ast.unparse(st.target)} in {ast.unparse(st.iter)}"
    return f"while {ast.unparse(st.test)}"
