"""for / while loops: concrete iteration is unrolled, symbolic iteration is cut by invariants."""
import ast
import z3
from .values import *   # noqa: F401,F403
from . import builtins_ as B

MAX_UNROLL = 4000


def exec_for(interp, st, env):
    it = interp.ev(st.iter, env)
    if B.is_symbolic_collection(it):
        return it.sym_loop(interp, st, env)
    broke = False
    if isinstance(it, list):
        # CPython iterates a list by index over the LIVE object: removing/inserting during the loop skips/repeats items
        i = 0
        while i < len(it):
            item = it[i]
            i += 1
            if i > MAX_UNROLL:
                raise Unsupported("for loop over a list that keeps growing")
            interp.assign(st.target, item, env)
            try:
                interp.exec_block(st.body, env)
            except BreakEx:
                broke = True
                break
            except ContinueEx:
                continue
        if not broke:
            interp.exec_block(st.orelse, env)
        return
    items = interp.iterate(it, st.iter)
    n0 = len(it) if isinstance(it, dict) else None
    for item in items:
        if n0 is not None and len(it) != n0:
            raise Raised('RuntimeError', st.lineno, 'dictionary changed size during iteration', implicit=True)
        interp.assign(st.target, item, env)
        try:
            interp.exec_block(st.body, env)
        except BreakEx:
            broke = True
            break
        except ContinueEx:
            continue
    if n0 is not None and not broke and len(it) != n0:
        raise Raised('RuntimeError', st.lineno, 'dictionary changed size during iteration', implicit=True)
    if not broke:
        interp.exec_block(st.orelse, env)


def exec_while(interp, st, env):
    inv = interp.loop_invariants.get(loop_signature(st))
    if inv is not None:
        return inv.run_while(interp, st, env)
    n = 0
    while True:
        c = interp.ev(st.test, env)
        if is_sym(c) and n >= interp.__dict__.get('while_unroll', 64):
            raise Unsupported(f"while loop at line {st.lineno} with symbolic condition and no invariant")
        if not interp.truth(c, f"while@{st.lineno}"):
            break
        n += 1
        if n > MAX_UNROLL:
            raise Unsupported("while loop unroll limit")
        try:
            interp.exec_block(st.body, env)
        except BreakEx:
            return
        except ContinueEx:
            continue
    interp.exec_block(st.orelse, env)


def assigned_names(st):
    names = set()
    for n in ast.walk(st):
        tg = []
        if isinstance(n, ast.Assign):
            tg = n.targets
        elif isinstance(n, (ast.AugAssign, ast.AnnAssign)):
            tg = [n.target]
        elif isinstance(n, ast.For):
            tg = [n.target]
        for t in tg:
            for m in ([t] if not isinstance(t, (ast.Tuple, ast.List)) else t.elts):
                if isinstance(m, ast.Name):
                    names.add(m.id)
    return names


def loop_signature(st):
    if isinstance(st, ast.For):
        return f"for {ast.unparse(st.target)} in {ast.unparse(st.iter)}"
    return f"while {ast.unparse(st.test)}"


# ===================================================================================== merge-mode `if`
def merge_if(interp, st, c, env):
    """`if` on a symbolic condition inside a merge-mode evaluation: run both arms and merge what they assign."""
    from .interp import MergeAbort
    c = z3.simplify(c)
    t = interp.feasible(c)
    f = interp.feasible(z3.Not(c))
    if t and not f:
        return interp.exec_block(st.body, env)
    if f and not t:
        return interp.exec_block(st.orelse, env)
    if not t and not f:
        raise MergeAbort("infeasible")
    targets = merge_targets(interp, st, env)
    snap = read_targets(interp, targets, env)
    results = []
    for cond, block in ((c, st.body), (z3.Not(c), st.orelse)):
        write_targets(interp, targets, snap, env)
        interp.solver.push()
        nh = len(interp.hyps)
        try:
            interp.assume(cond)
            interp.exec_block(block, env)
            results.append(read_targets(interp, targets, env))
        finally:
            del interp.hyps[nh:]
            del interp.hyp_tags[nh:]
            interp.solver.pop()
    merged = {}
    for key in targets:
        v1, v2 = results[0].get(key, Undefined), results[1].get(key, Undefined)
        merged[key] = merge_values(c, v1, v2)
    write_targets(interp, targets, merged, env)


def merge_values(c, v1, v2):
    from .interp import MergeAbort
    if v1 is v2:
        return v1
    if v1 is Undefined or v2 is Undefined:
        return Undefined('assigned in one arm only')
    if isinstance(v1, Undefined) or isinstance(v2, Undefined):
        return Undefined('assigned in one arm only')
    if is_num(v1) and is_num(v2):
        if is_conc_num(v1) and is_conc_num(v2) and v1 == v2:
            return v1
        return z3.If(c, real(v1), real(v2))
    if (isinstance(v1, bool) or is_symbool(v1)) and (isinstance(v2, bool) or is_symbool(v2)):
        return z3.If(c, boolz(v1), boolz(v2))
    if isinstance(v1, str) and isinstance(v2, str):
        return v1 if v1 == v2 else IteV(c, v1, v2)
    if isinstance(v1, SubV) and isinstance(v2, SubV) and v1 == v2:
        return v1
    raise MergeAbort(f"cannot merge {type(v1).__name__} / {type(v2).__name__}")


def merge_targets(interp, st, env):
    """Assignment targets (names and attribute paths) inside a statement, as unparsed strings -> ast node."""
    tg = {}
    for n in ast.walk(st):
        ts = []
        if isinstance(n, ast.Assign):
            ts = n.targets
        elif isinstance(n, (ast.AugAssign, ast.AnnAssign)):
            ts = [n.target]
        elif isinstance(n, ast.For):
            ts = [n.target]
        for t in ts:
            for m in ([t] if not isinstance(t, (ast.Tuple, ast.List)) else t.elts):
                if isinstance(m, (ast.Name, ast.Attribute)):
                    tg[ast.unparse(m)] = m
                else:
                    from .interp import MergeAbort
                    raise MergeAbort(f"unsupported assignment target in merge mode: {ast.unparse(m)}")
    return tg


def read_targets(interp, targets, env):
    out = {}
    for key, node in targets.items():
        if isinstance(node, ast.Name):
            out[key] = env.lookup(node.id) if env.has(node.id) else Undefined
        else:
            o = interp.ev(node.value, env)
            try:
                out[key] = interp.getattr(o, node.attr, node)
            except Raised:
                out[key] = Undefined
    return out


def write_targets(interp, targets, values, env):
    from . import builtins_ as B
    for key, node in targets.items():
        v = values.get(key, Undefined)
        if v is Undefined:
            continue
        if isinstance(node, ast.Name):
            env.set(node.id, v)
        else:
            o = interp.ev(node.value, env)
            if isinstance(o, Obj):
                o.fields[node.attr] = v
            else:
                B.setattr_(interp, o, node.attr, v, node)


# ===================================================================================== loops over a symbolic contents map
class LoopCtx:
    """What a loop invariant may talk about."""

    def __init__(self, interp, env, view, key, idx, n, pre):
        self.I = interp
        self.env = env
        self.view = view
        self.m = view.m
        self.key, self.idx, self.n = key, idx, n
        self.pre = pre            # snapshot at loop entry: name -> value; ('obj', id) -> dict of fields
        self.amt0, self.mem0 = pre['__iter_amt'], pre['__iter_mem']

    def var(self, name):
        return self.env.lookup(name)

    def pre_field(self, obj, field):
        return self.pre[('obj', id(obj))][field]


def accum_shape(body):
    """Is the loop body a pure accumulation (temps + `acc += expr`, possibly under if/else)?  Returns the
    accumulator target nodes or None."""
    accs = {}

    def ok(stmts):
        for s in stmts:
            if isinstance(s, ast.Assign):
                if not all(isinstance(t, ast.Name) for t in s.targets):
                    return False
            elif isinstance(s, ast.AugAssign):
                if not isinstance(s.op, ast.Add) or not isinstance(s.target, (ast.Name, ast.Attribute)):
                    return False
                accs[ast.unparse(s.target)] = s.target
            elif isinstance(s, ast.If):
                if not ok(s.body) or not ok(s.orelse):
                    return False
            elif isinstance(s, ast.Expr) and isinstance(s.value, ast.Constant):
                continue
            elif isinstance(s, ast.Pass):
                continue
            else:
                return False
        return True
    if not ok(body) or not accs:
        return None
    # accumulators must not be assigned plainly nor read elsewhere
    names = set(accs)
    for n in ast.walk(ast.Module(body=body, type_ignores=[])):
        if isinstance(n, ast.Assign):
            for t in n.targets:
                if ast.unparse(t) in names:
                    return None
    return accs


def try_accumulate(interp, st, env, view):
    """Summarise `for x, a in m.items(): acc += T(x, a)` exactly as acc += sum (T2), T recognised as a canonical
    weighted sum where possible.  Returns True if the loop was handled."""
    from .interp import MergeAbort, Env
    from . import symcoll
    if st.orelse:
        return False
    accs = accum_shape(st.body)
    if not accs:
        return False
    m = view.m
    x = fresh('x', Sub)
    a = fresh('a', RS)
    # current accumulator values, and placeholders
    cur = read_targets(interp, accs, env)
    if any(not is_num(v) for v in cur.values()):
        return False
    place = {k: fresh('acc', RS) for k in accs}
    saved_writes = len(interp.writes)
    deltas = None
    temps_before = dict(env.vars)
    interp.solver.push()
    nh = len(interp.hyps)
    interp.pure += 1
    try:
        interp.assume(m.mem[x])
        interp.assume(symcoll.sub_wf_term(x))
        interp.assume(a == m.amt[x])
        write_targets(interp, accs, place, env)
        view.bind_generic(interp, st.target, env, x, a)
        interp.exec_block(st.body, env)
        after = read_targets(interp, accs, env)
        deltas = {}
        zero = [(place[j], z3.RealVal(0)) for j in accs]
        for k in accs:
            d = z3.simplify(z3.substitute(real(after[k]), *zero))
            # the body must add a term that does not depend on any accumulator: after == place + d
            chk = z3.Solver()
            chk.set('timeout', 3000)
            chk.add(real(after[k]) != place[k] + d)
            if chk.check() != z3.unsat:
                raise MergeAbort("accumulator is read by the loop body")
            deltas[k] = z3.substitute(d, (m.amt[x], a))
    except (MergeAbort, Raised, BreakEx, ContinueEx, ReturnEx):
        deltas = None
    finally:
        interp.pure -= 1
        del interp.hyps[nh:]
        del interp.hyp_tags[nh:]
        interp.solver.pop()
    if deltas is None or len(interp.writes) != saved_writes:
        write_targets(interp, accs, cur, env)
        del interp.writes[saved_writes:]
        return False
    final = {}
    for k in accs:
        final[k] = real(cur[k]) + symcoll.recognise_sum(interp, deltas[k], x, a, m)
    write_targets(interp, accs, final, env)
    # loop-local temporaries keep their last value in Python; here they are unknown afterwards
    for name in assigned_names(st):
        if name not in accs:
            env.vars[name] = Undefined(f"{name} (assigned in a summarised loop)")
    return True


def consts_of(term):
    out, seen, stack = [], set(), [term]
    while stack:
        t = stack.pop()
        if t.get_id() in seen:
            continue
        seen.add(t.get_id())
        if z3.is_const(t) and t.decl().kind() == z3.Z3_OP_UNINTERPRETED:
            out.append(t)
        stack.extend(t.children())
    return out


def loop_over_map(interp, st, env, view):
    """for <target> in m.items()/keys()/values() over a contents map of arbitrary size."""
    if interp.pure:
        from .interp import MergeAbort
        raise MergeAbort("nested loop over a symbolic map in merge mode")
    if try_accumulate(interp, st, env, view):
        return
    from . import symcoll as _sc
    if _sc.conditional_items_update_loop(interp, st, env, view):
        return
    sig = loop_signature(st) + ' -> ' + ','.join(sorted(assigned_targets(st)))
    inv = interp.loop_invariants.get(sig) or interp.loop_invariants.get(loop_signature(st))
    post_m = None
    if inv is None:
        # invariants attached by STRUCTURE (robust against renamed locals): the contract supplies a matcher that reads the
        # roles (which object is iterated, which is written, which name holds the ratio ...) off the loop's AST
        for matcher, inv_fn, post_fn in interp.__dict__.get('loop_invariant_matchers', []):
            roles = matcher(interp, st)
            if roles is not None:
                inv = (lambda ctx, k, f=inv_fn, r=roles: f(ctx, k, r))
                post_m = (lambda ctx, f=post_fn, r=roles: f(ctx, r)) if post_fn is not None else None
                break
    m = view.m
    key, idx, n = m.enum(interp)
    pre = snapshot(interp, st, env)
    pre['__iter_amt'], pre['__iter_mem'] = m.amt, m.mem
    ctx = LoopCtx(interp, env, view, key, idx, n, pre)
    name = f"inv[{loop_signature(st)}@{interp.call_stack[-1] if interp.call_stack else '?'}]"
    if inv is not None:
        interp.oblige(name + '.init', inv(ctx, z3.IntVal(0)), 'aux', lineno=st.lineno)
    else:
        interp.notes.append(f"loop without invariant (havoc only): {sig} at line {st.lineno}")
    choice = interp.choose(2, f"loop@{st.lineno} iteration/exit")
    havoc(interp, st, env)
    if choice == 0:
        k = fresh('k', IS)
        interp.assume(z3.And(k >= 0, k < n))
        if inv is not None:
            interp.assume(inv(ctx, k))
        cur = key(k)
        interp.assume(m.mem[cur])
        from . import symcoll
        interp.assume(symcoll.sub_wf_term(cur))
        view.bind_generic(interp, st.target, env, cur, view.m.amt[cur])
        mem_before = view.m.mem
        try:
            interp.exec_block(st.body, env)
        except ContinueEx:
            pass
        except BreakEx:
            raise Unsupported("break inside a loop over a symbolic map")
        if inv is not None:
            interp.oblige(name + '.step', inv(ctx, k + 1), 'aux', lineno=st.lineno)
        x = z3.Const('x!rs', Sub)
        interp.oblige(name + '.no-resize', z3.ForAll([x], view.m.mem[x] == mem_before[x]), 'aux', lineno=st.lineno)
        raise PathEnd()
    if inv is not None:
        interp.assume(inv(ctx, n))
    post = interp.__dict__.get('loop_post', {}).get(sig) or post_m
    if post is not None:
        post(ctx)
    interp.exec_block(st.orelse, env)


def assigned_targets(st):
    out = set()
    for n in ast.walk(st):
        ts = []
        if isinstance(n, ast.Assign):
            ts = n.targets
        elif isinstance(n, (ast.AugAssign, ast.AnnAssign)):
            ts = [n.target]
        for t in ts:
            for m in ([t] if not isinstance(t, (ast.Tuple, ast.List)) else t.elts):
                out.add(ast.unparse(m))
    return out


def snapshot(interp, st, env):
    """Values, at loop entry, of everything the invariant may need: all local names; for objects: a copy of fields
    (contents maps as (amt, mem) pairs)."""
    from .symcoll import SymMap
    pre = {}
    e = env
    seen = set()
    while e is not None and e.parent is not None:
        for k, v in e.vars.items():
            if k in seen:
                continue
            seen.add(k)
            pre[k] = v
            if isinstance(v, Obj):
                d = {}
                for f, fv in v.fields.items():
                    d[f] = (fv.amt, fv.mem) if isinstance(fv, SymMap) else fv
                pre[('obj', id(v))] = d
        e = e.parent
    return pre


def havoc(interp, st, env):
    """Forget everything the loop body may assign (sort-preserving fresh values)."""
    from .symcoll import SymMap
    for n in ast.walk(st):
        tgs = []
        if isinstance(n, ast.Assign):
            tgs = n.targets
        elif isinstance(n, (ast.AugAssign, ast.AnnAssign)):
            tgs = [n.target]
        elif isinstance(n, ast.For) and n is not st:
            tgs = [n.target]
        elif isinstance(n, ast.Call) and isinstance(n.func, ast.Attribute) and n.func.attr in (
                'append', 'extend', 'add', 'update', 'pop', 'insert') and isinstance(n.func.value, ast.Name):
            nm = n.func.value.id
            if env.has(nm) and isinstance(env.lookup(nm), (list, dict)):
                env.set(nm, Opaque(f'{nm} (mutated in a cut loop)'))
            continue
        for t in tgs:
            for m in ([t] if not isinstance(t, (ast.Tuple, ast.List)) else t.elts):
                havoc_target(interp, m, env)


def havoc_value(v, hint):
    from .symcoll import SymMap
    if is_symnum(v):
        return fresh(hint, v.sort())
    if is_conc_num(v) and not isinstance(v, bool):
        return fresh(hint, IS if isinstance(v, int) else RS)
    if is_symbool(v) or isinstance(v, bool):
        return fresh(hint, BS)
    if isinstance(v, (str, SegStr)):
        return SegStr([OpaqueHole(hint)])
    if isinstance(v, (list, dict)):
        return Opaque(hint)
    return None


def havoc_target(interp, t, env):
    from .symcoll import SymMap
    if isinstance(t, ast.Name):
        if env.has(t.id):
            nv = havoc_value(env.lookup(t.id), t.id)
            env.set(t.id, nv if nv is not None else Undefined(f"{t.id} (assigned in a cut loop)"))
        else:
            env.set(t.id, Undefined(f"{t.id} (assigned in a cut loop)"))
    elif isinstance(t, ast.Attribute):
        try:
            o = interp.ev(t.value, env)
        except (Raised, Unsupported):
            return
        if isinstance(o, Obj) and t.attr in o.fields:
            nv = havoc_value(o.fields[t.attr], t.attr)
            if nv is None:
                raise Unsupported(f"cannot havoc field {t.attr}")
            o.fields[t.attr] = nv
    elif isinstance(t, ast.Subscript):
        try:
            o = interp.ev(t.value, env)
        except (Raised, Unsupported):
            return
        if isinstance(o, SymMap):
            o.amt = fresh('amt', o.amt.sort())
            o.mem = fresh('mem', o.mem.sort())
        elif isinstance(o, (list, dict)):
            # a concrete collection mutated in a cut loop: forget it
            if isinstance(t.value, ast.Name):
                env.set(t.value.id, Opaque(f'{t.value.id} (mutated in a cut loop)'))
        elif isinstance(o, Opaque):
            pass
        else:
            raise Unsupported(f"cannot havoc subscript store on {type(o).__name__}")


# ===================================================================================== loops over a symbolic list
def loop_over_list(interp, st, env, lst, sl=None):
    """for x in <list of arbitrary length>: cut with the contract's invariant (or havoc only)."""
    sig = loop_signature(st)
    inv = interp.loop_invariants.get(sig)
    handlers = interp.__dict__.get('list_loop_handlers', {})
    # by full text, or by what is iterated (so that renaming the loop variable does not lose the handler)
    handler = handlers.get(sig) or handlers.get('iter:' + ast.unparse(st.iter)) or handlers.get('list:' + str(getattr(lst, 'tag', '')))
    if handler is not None:
        return handler(interp, st, env, lst, sl)
    raise Unsupported(f"loop over a list of arbitrary length without a handler: {sig}")
