"""Running a property check: cases -> worker pool -> verdicts -> findings / replay -> evidence -> exit code.

Exit codes: 0 all property obligations discharged (known findings printed) · 1 violation · 2 undecided ·
3 engine error (canary with the wrong verdict, zero obligations, traceback).
"""
import fnmatch
import hashlib
import importlib
import json
import multiprocessing
import os
import subprocess
import sys
import time
import traceback

VERIF = os.path.dirname(os.path.dirname(os.path.abspath(__file__)))
EVIDENCE_DIR = os.environ.get('PYVC_EVIDENCE_DIR') or os.path.join(VERIF, 'evidence')
REPLAY_DIR = os.environ.get('PYVC_REPLAY_DIR') or os.path.join(VERIF, 'replays')
FINDINGS = os.path.join(VERIF, 'findings', 'known_findings.json')
VENV_PY = os.environ.get('PYVC_VENV_PY', '/venv/bin/python')
REPO = os.environ.get('PYVC_REPO', '/repo')
NPROC = int(os.environ.get('PYVC_NPROC', '16'))

TRUSTED_BASE = [
    "A1 floats are reals (int/float arithmetic is mathematical; literals take the value of their decimal text)",
    "A2 round(x, config.internal_precision) is the identity",
    "A3 float(repr(x)) == x and f'{x}' prints repr(x)",
    "A4 partial correctness (termination not proved)",
    "A5 no reflection/monkey-patching; Substance equality is the library's own __eq__",
    "A6 dict iteration order/deepcopy/copy semantics of CPython",
    "T1 builtins as modelled in pyvc/builtins_.py",
    "T6 the SMT solvers (z3 5.1.0 API; cvc5 1.0.3 / z3 4.8.12 CLI on unknowns)",
    "pyvc itself (the VC generator): semantics of the Python subset as implemented in pyvc/interp.py",
]


# ------------------------------------------------------------------------------------------------ worker side
def _worker(task):
    modname, fname, args = task
    t0 = time.time()
    try:
        mod = importlib.import_module(modname)
        out = getattr(mod, fname)(*args)
        for r in out:
            r.setdefault('task', f"{fname}{args!r}"[:120])
        if os.environ.get('PYVC_TIMING'):
            sys.stderr.write(f"TIMING {time.time() - t0:8.1f}s {fname}{args!r}\n"[:200])
            if time.time() - t0 > 20:
                for r in sorted(out, key=lambda r: -r.get('secs', 0))[:5]:
                    sys.stderr.write(f"TIMING      . {r.get('secs', 0):6.1f}s {r['name']} [{r.get('case')}] {r['verdict']} "
                                     f"{r.get('backend')}\n")
        return out
    except Exception:
        return [{'name': f'{modname}.{fname}', 'case': repr(args)[:200], 'kind': 'engine', 'verdict': 'crash',
                 'note': traceback.format_exc()[-3000:], 'secs': time.time() - t0}]


def run_tasks(tasks, nproc=None):
    """runs the tasks; tasks that leave a property/aux obligation `unknown` are run ONCE more afterwards, a few at a time:
    the verdict of a non-linear query must not depend on how busy the machine was (an obligation is undecided only if it
    is undecided twice)"""
    res = _run_tasks_once(tasks, nproc)
    by_task = {}
    for r in res:
        by_task.setdefault(r.get('task'), []).append(r)
    flaky = []
    for t in tasks:
        key = f"{t[1]}{t[2]!r}"[:120]
        rs = by_task.get(key, [])
        if any(r['verdict'] == 'unknown' and r['kind'] in ('property', 'aux') and r.get('case') != 'wall-clock budget' for r in rs):
            flaky.append((t, key))
    if not flaky or len(flaky) > 12:
        return res
    again = _run_tasks_once([t for t, _ in flaky], min(4, NPROC))
    again_by = {}
    for r in again:
        again_by.setdefault(r.get('task'), []).append(r)
    out = [r for r in res if r.get('task') not in {k for _, k in flaky}]
    for _, key in flaky:
        first, second = by_task.get(key, []), again_by.get(key, [])
        n1 = sum(1 for r in first if r['verdict'] == 'unknown')
        n2 = sum(1 for r in second if r['verdict'] == 'unknown')
        crashed = any(r['verdict'] == 'crash' for r in second)
        out.extend(second if (second and not crashed and n2 <= n1) else first)
    return out


def _run_tasks_once(tasks, nproc=None):
    nproc = nproc or NPROC
    if not tasks:
        return []
    if nproc <= 1 or len(tasks) == 1:
        res = [_worker(t) for t in tasks]
    else:
        # ProcessPoolExecutor (not multiprocessing.Pool): a worker killed from outside (OOM, signal) breaks the pool
        # with an exception instead of hanging the check forever
        import concurrent.futures as cf
        ctx = multiprocessing.get_context('fork')
        res = [None] * len(tasks)
        # wall-clock budget of the whole check: solver time limits are not honoured inside some non-linear procedures, and
        # a changed body can make a query that was instant run for an hour; what is not finished by then is UNDECIDED
        budget = float(os.environ.get('PYVC_MAX_WALL', '2400'))
        ex = cf.ProcessPoolExecutor(min(nproc, len(tasks)), mp_context=ctx)
        try:
            futs = {ex.submit(_worker, t): i for i, t in enumerate(tasks)}
            try:
                for f in cf.as_completed(futs, timeout=budget):
                    i = futs[f]
                    try:
                        res[i] = f.result()
                    except Exception as e:      # BrokenProcessPool and friends
                        res[i] = [{'name': f'{tasks[i][0]}.{tasks[i][1]}', 'case': repr(tasks[i][2])[:200], 'kind': 'engine',
                                   'verdict': 'crash', 'note': f'worker process died: {e!r}', 'secs': 0.0}]
            except cf.TimeoutError:
                for f, i in futs.items():
                    if res[i] is None:
                        f.cancel()
                        res[i] = [{'name': f'{tasks[i][1]}{tasks[i][2]!r}'[:160], 'case': 'wall-clock budget', 'kind': 'aux',
                                   'verdict': 'unknown', 'secs': 0.0,
                                   'note': f'not finished within the wall-clock budget of {budget:.0f} s (PYVC_MAX_WALL)'}]
                for p_ in list(getattr(ex, '_processes', {}).values()):
                    try:
                        p_.terminate()
                    except Exception:
                        pass
        finally:
            ex.shutdown(wait=False, cancel_futures=True)
    flat = []
    for r in res:
        flat.extend(r)
    return flat


# ------------------------------------------------------------------------------------------------ replay
REPLAY_RUNNER = r'''
import json, sys, traceback
job = json.load(open(sys.argv[1]))
ns = {}
try:
    exec(job["code"], ns)
    out = ns["run"]()
except Exception as e:
    out = {"ok": None, "error": traceback.format_exc()[-1500:]}
print("@@REPLAY@@" + json.dumps(out, default=str))
'''


def run_replay(job, timeout=120):
    """Execute a replay job (python snippet defining run() -> {'ok': bool, ...}) against the real package of the
    current tree.  ok == False means: the property is violated on the real code for this input."""
    import tempfile
    with tempfile.TemporaryDirectory(prefix='pyvc-replay-') as d:
        jp = os.path.join(d, 'job.json')
        rp = os.path.join(d, 'runner.py')
        json.dump(job, open(jp, 'w'))
        open(rp, 'w').write(REPLAY_RUNNER)
        env = dict(os.environ)
        env['PYTHONPATH'] = REPO + os.pathsep + VERIF + os.pathsep + env.get('PYTHONPATH', '')
        for k, v in (job.get('env') or {}).items():
            env[k] = v
        if job.get('config_yaml'):
            cd = os.path.join(d, 'cfg')
            os.makedirs(cd)
            open(os.path.join(cd, 'pyplate.yaml'), 'w').write(job['config_yaml'])
            env['PYPLATE_CONFIG'] = cd
        try:
            p = subprocess.run([VENV_PY, rp, jp], capture_output=True, text=True, timeout=timeout, env=env, cwd=d)
        except subprocess.TimeoutExpired:
            return {'ok': None, 'error': 'replay timeout'}
        for line in p.stdout.splitlines():
            if line.startswith('@@REPLAY@@'):
                return json.loads(line[len('@@REPLAY@@'):])
        return {'ok': None, 'error': (p.stderr or p.stdout)[-1500:]}


# ------------------------------------------------------------------------------------------------ findings
def load_findings():
    if not os.path.exists(FINDINGS):
        return []
    return json.load(open(FINDINGS)).get('findings', [])


def _match(text, pattern):
    """glob match where only * and ? are special (obligation names contain brackets)"""
    return fnmatch.fnmatchcase(text or '', pattern.replace('[', '[[]'))


def finding_for(findings, pid, r):
    for f in findings:
        if f.get('status', 'known') != 'known':
            continue
        if pid not in f.get('properties', [f.get('property')]):
            continue
        if not _match(r['name'], f['obligation']):
            continue
        if 'case' in f and not _match(r.get('case', ''), f['case']):
            continue
        return f
    return None


# ------------------------------------------------------------------------------------------------ main driver
class Check:
    def __init__(self, pid, tier, level='proof'):
        self.pid = pid
        self.tier = tier
        self.level = level
        self.seed = int(os.environ.get('VERIF_SEED', '0') or 0)
        self.tasks = []
        self.functions = {}      # qualname -> source hash
        self.assumptions = []
        self.bounded = []        # bounded stand-in results (never counted as discharged)
        self.extra = {}
        self.explanation = ''
        self.t0 = time.time()
        self.post = []           # callables(results) -> more results (lemmas run in-process etc.)

    def add_tasks(self, modname, fname, arglist):
        for a in arglist:
            self.tasks.append((modname, fname, tuple(a)))

    def lean_start(self):
        """thorough tier: re-check the Lean proofs of the Sigma-axioms the SMT obligations assume (started before the
        worker pool, collected after it; lean is mostly I/O bound while loading Mathlib)"""
        import shutil
        f = os.path.join(VERIF, 'lemmas', 'Sigma.lean')
        if not shutil.which('lean') or not os.path.exists(f):
            return None
        return (time.time(), subprocess.Popen(['lean', f], stdout=subprocess.PIPE, stderr=subprocess.STDOUT, text=True,
                                              cwd=os.path.dirname(f)))

    def lean_collect(self, h):
        if h is None:
            return {'file': 'lemmas/Sigma.lean', 'status': 'unavailable'}
        t0, p = h
        try:
            out, _ = p.communicate(timeout=1800)
        except subprocess.TimeoutExpired:
            p.kill()
            return {'file': 'lemmas/Sigma.lean', 'status': 'timeout', 'secs': round(time.time() - t0, 1)}
        ok = p.returncode == 0 and 'error' not in out and 'sorry' not in out
        return {'file': 'lemmas/Sigma.lean', 'status': 'checked' if ok else 'failed', 'secs': round(time.time() - t0, 1),
                'theorems': ['WS_lin', 'WS_ext', 'WS_pos', 'WS_mono', 'WS_point'], 'output': out[-600:]}

    def differential(self, results):
        """thorough tier: engine-vs-CPython differential over pyvc/diff_corpus.py (validates the interpreter the
        obligations were generated with, on this very tree)"""
        try:
            from . import differential
            code, summary = differential.main(verbose=False)
        except Exception as e:
            code, summary = 3, {'error': repr(e)}
        self.extra.setdefault('coverage', {})['engine_vs_cpython'] = summary
        if code != 0:
            results.append({'name': 'pyvc.differential', 'case': '', 'kind': 'engine', 'verdict': 'crash',
                            'note': 'engine and CPython disagree on concrete scenarios: ' + json.dumps(summary, default=str)[:1500]})

    def run(self):
        if self.tier == 'thorough':
            self.post.append(lambda results: self.differential(results) or [])
        if self.tier == 'thorough' and any(a.startswith('Sigma-axioms') for a in self.assumptions):
            h = self.lean_start()
            results = run_tasks(self.tasks)
            r = self.lean_collect(h)
            self.extra.setdefault('coverage', {})['lean_lemmas'] = r
            if r.get('status') == 'failed':
                results.append({'name': 'lemmas/Sigma.lean', 'case': '', 'kind': 'engine', 'verdict': 'crash',
                                'note': 'lean rejected the Sigma lemmas: ' + r.get('output', '')})
            for p in self.post:
                results.extend(p(results))
            return self.finish(results)
        results = run_tasks(self.tasks)
        for p in self.post:
            results.extend(p(results))
        return self.finish(results)

    # -------------------------------------------------------------------------------------------- verdict logic
    def finish(self, results):
        pid = self.pid
        findings = load_findings()
        lines = []
        exit_code = 0
        crashes = [r for r in results if r['verdict'] == 'crash']
        canaries = [r for r in results if r['kind'].startswith('canary')]
        covers = [r for r in results if r['kind'] == 'cover']
        props = [r for r in results if r['kind'] == 'property']
        auxs = [r for r in results if r['kind'] == 'aux']
        bounded = [r for r in results if r['kind'] == 'bounded']
        engine_errors = []
        for r in crashes:
            engine_errors.append(f"crash in {r['name']} {r.get('case', '')}: {r.get('note', '')[-800:]}")
        for r in canaries:
            want = 'refuted' if r['kind'] == 'canary-false' else 'proved'
            if r['verdict'] != want:
                engine_errors.append(f"canary {r['name']} [{r.get('case')}] expected {want}, got {r['verdict']}")
        cover_unknown = []
        for r in covers:
            if r['verdict'] == 'unsat':
                engine_errors.append(f"cover {r['name']} [{r.get('case')}] is unsat (vacuous contract)")
            elif r['verdict'] != 'sat':
                # reachability not decided within the budget (non-linear sat query): reported, not fatal
                cover_unknown.append(r)
        if not props:
            engine_errors.append("zero property obligations generated")

        violations, known_hits, undecided = [], [], []
        discharged = 0
        by_backend = {}
        solver_seconds = 0.0
        for r in props + auxs:
            solver_seconds += r.get('secs', 0.0)
            if r['verdict'] == 'proved':
                discharged += 1
                by_backend[r.get('backend', 'z3api')] = by_backend.get(r.get('backend', 'z3api'), 0) + 1
                continue
            if r['kind'] == 'aux' or r['verdict'] in ('unknown', 'unsupported'):
                undecided.append(r)
                continue
            # refuted property obligation
            f = finding_for(findings, pid, r)
            if f is not None:
                known_hits.append((f, r))
            else:
                violations.append(r)
        # bounded stand-ins that found a concrete failing input; one that could not be executed at all leaves its part of the
        # property undecided (it must not pass silently)
        for r in bounded:
            if r['verdict'] == 'unknown':
                undecided.append(r)
            if r['verdict'] == 'refuted':
                f = finding_for(findings, pid, r)
                if f is not None:
                    known_hits.append((f, r))
                else:
                    violations.append(r)

        # a refuted property obligation whose path depends on an undecided/refuted aux obligation means nothing
        bad_aux_tasks = {(r.get('task'), r.get('case')) for r in undecided if r['kind'] == 'aux'}
        real_violations = []
        for r in violations:
            if (r.get('task'), r.get('case')) in bad_aux_tasks and not r.get('independent'):
                r = dict(r)
                r['verdict'] = 'unknown'
                r['note'] = (r.get('note') or '') + ' [refutation ignored: an aux obligation of the same case is undecided]'
                undecided.append(r)
            else:
                real_violations.append(r)
        violations = real_violations

        # known findings: print one line per listed finding that was hit, and re-run its witness on the real code
        seen = {}
        for f, r in known_hits:
            seen.setdefault(f['id'], (f, []))[1].append(r)
        kf_report = []
        for fid, (f, rs) in sorted(seen.items()):
            wit = f.get('witness')
            status = 'not-replayed'
            if wit:
                out = run_replay(wit)
                status = 'reproduced' if out.get('ok') is False else ('stale' if out.get('ok') else 'error')
                if status == 'error':
                    status += ': ' + str(out.get('error'))[-300:]
            kf_report.append({'id': fid, 'what': f['what'], 'obligations_hit': len(rs), 'witness': status,
                              'cases': sorted({x.get('case', '') for x in rs})[:12]})
            if status == 'stale':
                # the listed witness no longer fails on the real code: the entry suppresses nothing
                violations.extend(rs)
            else:
                lines.append(f"KNOWN-FINDING: property={pid} {f['what']} [{fid}; witness {status}]")

        # violations: replay the verifier's counterexample on the real code (grouped by obligation name)
        os.makedirs(REPLAY_DIR, exist_ok=True)
        reported = {}
        groups = {}
        for r in violations:
            groups.setdefault(r['name'], []).append(r)
        for name, rs in sorted(groups.items()):
            rep = None
            tried = []
            budget = 6
            for r in rs:
                for job in (r.get('replays') or []):
                    if budget <= 0:
                        break
                    budget -= 1
                    out = run_replay(job)
                    tried.append({'case': r.get('case'), 'inputs': job.get('inputs'), 'result': out})
                    if out.get('ok') is False:
                        rep = (r, job, out)
                        break
                if rep or budget <= 0:
                    break
            r0 = rep[0] if rep else rs[0]
            h = hashlib.sha256(name.encode()).hexdigest()[:12]
            path = os.path.join(REPLAY_DIR, f"{pid}-{h}.json")
            doc = {'property': pid, 'obligation': name, 'case': r0.get('case'), 'kind': r0['kind'],
                   'failing_cases': sorted({str(x.get('case')) for x in rs})[:200], 'n_failing_cases': len(rs),
                   'path': r0.get('path'), 'lineno': r0.get('lineno'), 'note': r0.get('note'),
                   'solver': {'verdict': r0['verdict'], 'backend': r0.get('backend'), 'model': r0.get('model')},
                   'reproduced_on_real_code': rep is not None,
                   'replay': rep[1] if rep else None, 'replay_result': rep[2] if rep else None,
                   'models_tried': tried, 'repo_head': _head()}
            json.dump(doc, open(path, 'w'), indent=1, default=str)
            reported[name] = path
            tail = '' if rep is not None else ' no-failing-input-found'
            lines.append(f"VIOLATION property={pid} replay={path}{tail}")
            lines.append(f"  obligation={name} cases={len(rs)} first={r0.get('case')} "
                         f"{'witness=' + json.dumps(rep[1].get('inputs'), default=str)[:300] + ' observed=' + str(rep[2].get('observed'))[:80] + ' expected=' + str(rep[2].get('expected'))[:80] if rep else ''}")
        if violations:
            exit_code = 1
        for r in undecided[:40]:
            lines.append(f"UNDECIDED property={pid} obligation={r['name']} case={r.get('case')} "
                         f"reason={r['verdict']}: {(r.get('note') or '')[:200]}")
        if undecided and exit_code == 0:
            exit_code = 2
        if engine_errors:
            for e in engine_errors[:20]:
                lines.append(f"ENGINE-ERROR property={pid} {e}")
            exit_code = 3

        n_obl = len(props) + len(auxs) - sum(sum(1 for r in rs if r['kind'] != 'bounded') for _, (f, rs) in seen.items()
                                              if not any(k['id'] == f['id'] and k['witness'] == 'stale'
                                                         for k in kf_report))
        wall = time.time() - self.t0
        samples = []
        for r in (props[:3] + auxs[:1] + canaries[:2] + covers[:1]):
            samples.append({k: r.get(k) for k in ('name', 'case', 'kind', 'verdict', 'backend', 'secs', 'path',
                                                   'formula_size', 'note') if r.get(k) is not None})
        level = self.level
        cov = {
            'obligations': n_obl,
            'discharged': discharged,
            'checker_cmd': f"./check {pid} --tier {self.tier}",
            'trusted_base': TRUSTED_BASE + self.extra.get('trusted_base', []),
            'by_backend': by_backend,
            'solver_seconds': round(solver_seconds, 2),
            'functions_under_contract': self.functions,
            'property_obligations': len(props),
            'aux_obligations': len(auxs),
            'canaries': {'total': len(canaries), 'ok': sum(1 for r in canaries if r['verdict'] == (
                'refuted' if r['kind'] == 'canary-false' else 'proved'))},
            'covers': {'total': len(covers), 'sat': sum(1 for r in covers if r['verdict'] == 'sat'),
                       'undecided': [f"{r['name']} [{r.get('case')}]" for r in cover_unknown[:20]]},
            'known_findings': kf_report,
            'undecided': [{'name': r['name'], 'case': r.get('case'), 'reason': r['verdict'],
                           'note': (r.get('note') or '')[:300]} for r in undecided[:50]],
            'bounded': self._bounded_summary(bounded),
            'samples': samples,
            'repo_head': _head(),
            'explanation': self.explanation,
            'evaluations': len(props) + len(auxs) + len(bounded),
            'distinct_nontrivial': len({(r['name'], r.get('case')) for r in props + auxs}),
            'rule': 'one evaluation = one proof obligation (name, case, path); distinct = distinct (name, case)',
        }
        cov.update(self.extra.get('coverage', {}))
        ev = {'property_id': pid, 'tier': self.tier, 'seed': self.seed, 'level': level, 'coverage': cov,
              'assumptions': list(self.assumptions) + [a for a in TRUSTED_BASE if a not in self.assumptions], 'wall_s': round(wall, 2), 'violations': len(reported)}
        os.makedirs(EVIDENCE_DIR, exist_ok=True)
        json.dump(ev, open(os.path.join(EVIDENCE_DIR, f"{pid}.json"), 'w'), indent=1, default=str)
        for ln in lines:
            print(ln)
        print(f"{pid} [{self.tier}] obligations={n_obl} discharged={discharged} known-findings={len(seen)} "
              f"violations={len(reported)} undecided={len(undecided)} bounded={len(bounded)} "
              f"solver={solver_seconds:.1f}s wall={wall:.1f}s exit={exit_code}")
        return exit_code

    def _bounded_summary(self, bounded):
        out = {}
        for r in bounded:
            d = out.setdefault(r['name'], {'runs': 0, 'failing': 0, 'bound': r.get('bound')})
            d['runs'] += r.get('count', 1)
            d['failing'] += 1 if r['verdict'] == 'refuted' else 0
        return out


def _head():
    try:
        h = subprocess.run(['git', '-C', REPO, 'rev-parse', '--short', 'HEAD'], capture_output=True, text=True,
                           timeout=20).stdout.strip()
        d = subprocess.run(['git', '-C', REPO, 'status', '--porcelain', '--untracked-files=no'], capture_output=True,
                           text=True, timeout=20).stdout.strip()
        return h + ('+dirty' if d else '')
    except Exception:
        return '?'
