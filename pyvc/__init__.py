"""pyvc: verification-condition generator for the Python subset used by PyPlate."""
