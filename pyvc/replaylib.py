"""Helpers for replay snippets.  Runs under the repository's interpreter (/venv/bin/python): no z3 here."""
from fractions import Fraction as F

from pyvc import spec


def mksub(kind, mw=None, dens=None, sa=None, name='s'):
    """A real pyplate Substance with the physical constants of a counter-model."""
    from pyplate import Substance
    mw, dens, sa = fr(mw), fr(dens), fr(sa)
    if kind == 1:
        s = Substance.solid(name, float(mw))
        if dens is not None:
            s.density = float(dens)
    elif kind == 2:
        s = Substance.liquid(name, float(mw), float(dens))
    else:
        s = Substance.enzyme(name, f"{float(sa)!r} U/g")
        s.specific_activity = float(sa)
        if dens is not None:
            s.density = float(dens)
    return s


def subspec(kind, mw=None, dens=None, sa=None):
    return spec.SubSpec(kind, F(mw) if mw is not None else None, F(dens) if dens is not None else None,
                        F(sa) if sa is not None else None)


def close(a, b, rel=1e-9, abs_=1e-12):
    a, b = float(a), float(b)
    return abs(a - b) <= max(abs_, rel * max(abs(a), abs(b)))


def fr(x):
    """Fraction from the string form used in replay jobs."""
    if x is None:
        return None
    return F(str(x))
