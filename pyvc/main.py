"""Command line: ./check <id> --tier quick|thorough | ./check replay <path> | ./check selftest"""
import importlib
import json
import os
import sys

from . import harness

REGISTRY = {
    'C06': 'contracts.c06_units',
    'C13': 'contracts.c13_slicer',
    'C14': 'contracts.c14_parse',
    'C16': 'contracts.c16_recipe',
    'C18': 'contracts.c18_config',
    'C19': 'contracts.c19_text',
    'C01': ('contracts.propsets', 'C01'),
    'C02': ('contracts.propsets', 'C02'),
    'C03': ('contracts.propsets', 'C03'),
    'C04': ('contracts.propsets', 'C04'),
    'C05': ('contracts.propsets', 'C05'),
    'C07': ('contracts.propsets', 'C07'),
    'C08': ('contracts.bake', 'C08'),
    'C09': ('contracts.recipe_props', 'C09'),
    'C10': ('contracts.propsets', 'C10'),
    'C15': ('contracts.recipe_props', 'C15'),
    'C11': ('contracts.propsets', 'C11'),
    'C12': ('contracts.propsets', 'C12'),
    'C17': ('contracts.propsets', 'C17'),
}


def main(argv):
    if not argv:
        print(__doc__)
        return 3
    if argv[0] == 'replay':
        doc = json.load(open(argv[1]))
        job = doc.get('replay') or (doc.get('models_tried') or [{}])[0]
        if not job or 'code' not in job:
            print(f"obligation {doc.get('obligation')} case {doc.get('case')}: no concrete failing input was found "
                  f"(solver: {doc.get('solver')})")
            return 1
        out = harness.run_replay(job)
        print(json.dumps({'obligation': doc.get('obligation'), 'case': doc.get('case'), 'inputs': job.get('inputs'),
                          'result': out}, indent=1, default=str))
        return 1 if out.get('ok') is False else 0
    if argv[0] == 'selftest':
        from . import selftest
        return selftest.main()
    pid = argv[0]
    tier = os.environ.get('VERIF_TIER', 'quick')
    if '--tier' in argv:
        tier = argv[argv.index('--tier') + 1]
    if pid not in REGISTRY:
        print(f"unknown property {pid}")
        return 3
    entry = REGISTRY[pid]
    modname, arg = (entry, None) if isinstance(entry, str) else entry
    mod = importlib.import_module(modname)
    if hasattr(mod, 'build_check'):
        chk = mod.build_check(tier)
    else:
        chk = harness.Check(pid, tier)
        if arg is None:
            chk.add_tasks(modname, 'run', mod.tasks(tier))
            fns = getattr(mod, 'FUNCTIONS', [])
        else:
            chk.add_tasks(modname, 'run', [(arg,) + tuple(t) for t in mod.tasks(tier, arg)])
            fns = getattr(mod, 'FUNCTIONS', {}).get(arg, [])
        from . import vc
        for q in fns:
            try:
                chk.functions[q] = vc.repo().source_hash(q)
            except Exception as e:
                chk.functions[q] = f'missing: {e}'
        chk.assumptions = list(getattr(mod, 'ASSUMPTIONS', []))
        chk.explanation = getattr(mod, 'EXPLANATION', '')
    from contracts import assumptions as _A
    expl, extra = _A.for_property(pid)
    chk.explanation = chk.explanation or expl
    chk.assumptions = list(chk.assumptions) + [a for a in extra if a not in chk.assumptions]
    try:
        return chk.run()
    except Exception:
        import traceback
        traceback.print_exc()
        print(f"ENGINE-ERROR property={pid} traceback in driver")
        return 3


if __name__ == '__main__':
    sys.exit(main(sys.argv[1:]))
