"""Loading of the code under verification.

Everything is re-read from the repository working tree on every run: the two
library modules are parsed with `ast`, the shipped `pyplate.yaml` is read as
data (through the repository's own interpreter and yaml loader, so that it is
the same data the library sees).  Nothing of PyPlate is imported here.
"""
import ast
import hashlib
import json
import os
import subprocess

REPO = os.environ.get('PYVC_REPO', '/repo')
VENV_PY = os.environ.get('PYVC_VENV_PY', '/venv/bin/python')

_cache = {}


class ClassInfo:
    def __init__(self, name, node, module):
        self.name = name
        self.node = node
        self.module = module
        self.bases = [ast.unparse(b) for b in node.bases]
        self.methods = {}      # name -> FunctionDef (last definition wins, setters kept apart)
        self.setters = {}      # property name -> FunctionDef
        self.decorators = {}   # name -> list of decorator source strings
        self.assigns = []      # class-level simple assignments (ast.Assign) in order
        for st in node.body:
            if isinstance(st, ast.FunctionDef):
                decs = [ast.unparse(d) for d in st.decorator_list]
                if any(d.endswith('.setter') for d in decs):
                    self.setters[st.name] = st
                else:
                    self.methods[st.name] = st
                    self.decorators[st.name] = decs
            elif isinstance(st, ast.Assign):
                self.assigns.append(st)
            elif isinstance(st, ast.AnnAssign) and st.value is not None and isinstance(st.target, ast.Name):
                # NAME: annotation = value  -> the same class-level assignment
                self.assigns.append(ast.copy_location(ast.Assign(targets=[st.target], value=st.value), st))

    def __repr__(self):
        return f"<class {self.name}>"


class Module:
    def __init__(self, name, path):
        self.name = name
        self.path = path
        self.text = open(path, encoding='utf-8').read()
        self.tree = ast.parse(self.text)
        self.classes = {}
        self.functions = {}
        for st in self.tree.body:
            if isinstance(st, ast.ClassDef):
                self.classes[st.name] = ClassInfo(st.name, st, self)
            elif isinstance(st, ast.FunctionDef):
                self.functions[st.name] = st


class Repo:
    """Parsed view of the repository working tree."""

    def __init__(self, root=None):
        self.root = root or REPO
        self.modules = {
            'pyplate': Module('pyplate', os.path.join(self.root, 'pyplate', 'pyplate.py')),
            'slicer': Module('slicer', os.path.join(self.root, 'pyplate', 'slicer.py')),
        }
        self.classes = {}
        for m in self.modules.values():
            self.classes.update(m.classes)
        # pyplate/__init__.py: class Config (its __init__ is executed on the yaml data to obtain the configuration object)
        try:
            self.init_module = Module('init', os.path.join(self.root, 'pyplate', '__init__.py'))
            for k_, v_ in self.init_module.classes.items():
                self.classes.setdefault(k_, v_)
        except (OSError, SyntaxError):
            self.init_module = None
        self.config_data = load_config(self.root)

    def find(self, qual):
        """Locate a function by qualified name `Class.method` (or `Class.method.nested`)."""
        parts = qual.split('.')
        cls = self.classes[parts[0]]
        if len(parts) >= 2 and parts[1].endswith('@setter'):
            node = cls.setters[parts[1][:-7]]
        else:
            node = cls.methods[parts[1]]
        for p in parts[2:]:
            for sub in ast.walk(node):
                if isinstance(sub, ast.FunctionDef) and sub.name == p and sub is not node:
                    node = sub
                    break
            else:
                raise KeyError(qual)
        return node

    def source_hash(self, qual):
        node = self.find(qual)
        return hashlib.sha256(ast.unparse(node).encode()).hexdigest()[:16]

    def head(self):
        try:
            return subprocess.run(['git', '-C', self.root, 'rev-parse', '--short', 'HEAD'],
                                  capture_output=True, text=True, timeout=20).stdout.strip()
        except Exception:
            return '?'


def load_config(root):
    """The shipped configuration, read as data with the repository's own yaml loader."""
    path = os.path.join(root, 'pyplate', 'pyplate.yaml')
    key = (path, os.path.getmtime(path))
    if key in _cache:
        return _cache[key]
    code = ("import yaml,json,sys;"
            "print(json.dumps(yaml.safe_load(open(sys.argv[1]))))")
    try:
        out = subprocess.run([VENV_PY, '-c', code, path], capture_output=True, text=True, timeout=60)
        data = json.loads(out.stdout)
    except Exception:
        data = _mini_yaml(open(path).read())
    _cache[key] = data
    return data


def _mini_yaml(text):
    """Fallback reader for the flat `key: value` (+ one nested mapping) layout of pyplate.yaml."""
    data = {}
    cur = None
    for line in text.splitlines():
        raw = line.split('#', 1)[0].rstrip()
        if not raw.strip():
            continue
        indent = len(raw) - len(raw.lstrip())
        k, _, v = raw.strip().partition(':')
        v = v.strip()
        if indent == 0:
            if v == '':
                cur = {}
                data[k] = cur
            else:
                data[k] = _scalar(v)
                cur = None
        elif cur is not None:
            cur[k] = _scalar(v)
    return data


def _scalar(v):
    try:
        return int(v)
    except ValueError:
        pass
    try:
        return float(v)
    except ValueError:
        return v.strip('\'"')
