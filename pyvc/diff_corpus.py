"""Corpus for the engine-vs-CPython differential (pyvc/differential.py).

Every static method is a closed scenario over the public API.  The native side imports this file and calls the method;
the engine side runs the method's AST through pyvc's interpreter on the repository's parsed source.  Results are
normalised (numbers, names, contents maps, well grids, exception class) and compared with a relative tolerance that
absorbs A1/A2 (real arithmetic, internal rounding as identity).  Scenarios stay away from feasibility boundaries, where
A1/A2 legitimately differ from IEEE arithmetic (those are the subject of the bounded float check of C03)."""
from pyplate import Substance, Container, Plate, Recipe
from pyplate.pyplate import Unit


class Scenarios:
    # ------------------------------------------------------------------ units
    @staticmethod
    def u01():
        return [Unit.parse_quantity(s) for s in ('10 mL', '2.5 umol', '3 kg', '7 U', '1e-3 L', '0.5 dag', '12 nmol')]

    @staticmethod
    def u02():
        out = []
        for s in ('10', 'mL', '10 mL x', '1 2 mL', '10 xL', '', '10  mL', 'ten mL'):
            try:
                out.append(Unit.parse_quantity(s))
            except ValueError:
                out.append('ValueError')
            except TypeError:
                out.append('TypeError')
        return out

    @staticmethod
    def u03():
        return [Unit.parse_concentration(s) for s in ('1 M', '0.5 mM', '2 m', '10 %w/w', '5 %v/v', '3 %w/v',
                                                        '1 mol/L', '2 g/mL', '0.1 umol/uL', '4 mg/g', '1 U/mL',
                                                        '0.25 mmol/kg', '7 uL/mL')]

    @staticmethod
    def u04():
        out = []
        for s in ('1', 'M', '1 mol/', '1 /L', '1 mol/L/g', '1 mol x/L', '1 %x/y', '1 mol/2 L', '1 xM', '1 mol/ L'):
            try:
                out.append(Unit.parse_concentration(s))
            except ValueError:
                out.append('ValueError')
        return out

    @staticmethod
    def u05():
        w = Substance.liquid('water', 18.0153, 1)
        s = Substance.solid('salt', 58.44)
        e = Substance.enzyme('lip', '45.5 U/mg')
        out = []
        for sub in (w, s, e):
            for a, b in (('mL', 'mol'), ('g', 'L'), ('mmol', 'mg'), ('uL', 'ug'), ('g', 'U'), ('L', 'U'), ('mol', 'U'),
                         ('kg', 'mL'), ('dag', 'cL')):
                out.append(Unit.convert_from(sub, 3, a, b))
            for a, b in (('U', 'g'), ('U', 'mL'), ('kU', 'mol')):
                try:
                    out.append(Unit.convert_from(sub, 3, a, b))
                except ValueError:
                    out.append('ValueError')
        return out

    @staticmethod
    def u06():
        w = Substance.liquid('dmso', 78.13, 1.1)
        return [Unit.convert(w, '3 mL', 'mmol'), Unit.convert(w, '2 g', 'uL'), Unit.convert_to_storage(5, 'mL'),
                Unit.convert_to_storage(2, 'mol'), Unit.convert_from_storage(1234.5, 'mL'),
                Unit.convert_from_storage(77, 'mmol'), Unit.convert_prefix_to_multiplier('m'),
                Unit.convert_prefix_to_multiplier('da'), Unit.convert_prefix_to_multiplier('')]

    @staticmethod
    def u07():
        out = []
        for v, u in ((0.5, 'mg'), (1500, 'uL'), (1e-8, 'L'), (0.02, 'mol'), (123456, 'umol'), (0, 'mL'), (3, 'U')):
            out.append(Unit.get_human_readable_unit(v, u))
        return out

    @staticmethod
    def u08():
        w = Substance.liquid('water', 18.0153, 1)
        s = Substance.solid('salt', 58.44)
        return [Unit.convert_from_storage_to_standard_format(w, 5000), Unit.convert_from_storage_to_standard_format(s, 20),
                Unit.convert_from_storage_to_standard_format(s, 2000000)]

    # ------------------------------------------------------------------ containers
    @staticmethod
    def c01():
        w = Substance.liquid('water', 18.0153, 1)
        s = Substance.solid('salt', 58.44)
        return Container('stock', '10 mL', [(w, '5 mL'), (s, '100 mg')])

    @staticmethod
    def c02():
        w = Substance.liquid('water', 18.0153, 1)
        s = Substance.solid('salt', 58.44)
        a = Container('a', '10 mL', [(w, '5 mL'), (s, '100 mg')])
        b = Container('b', '20 mL', [(w, '1 mL')])
        a2, b2 = Container.transfer(a, b, '2 mL')
        a3, b3 = Container.transfer(a2, b2, '10 mg')
        a4, b4 = Container.transfer(a3, b3, '3 mmol')
        return [a, b, a2, b2, a3, b3, a4, b4]

    @staticmethod
    def c03():
        w = Substance.liquid('water', 18.0153, 1)
        a = Container('a', '10 mL', [(w, '5 mL')])
        b = Container('b', '2 mL')
        out = []
        for q in ('6 mL', '3 mL', '-1 mL', '1 U', '400 mmol', '0 mL'):
            try:
                out.append(Container.transfer(a, b, q))
            except ValueError:
                out.append('ValueError')
        try:
            out.append(Container.transfer(a, a, '1 mL'))
        except ValueError:
            out.append('ValueError')
        return out

    @staticmethod
    def c04():
        w = Substance.liquid('water', 18.0153, 1)
        s = Substance.solid('salt', 58.44)
        e = Substance.enzyme('lip', '45.5 U/mg')
        a = Container('a', '100 mL', [(w, '5 mL'), (s, '100 mg'), (e, '50 U')])
        return [a.remove(), a.remove(s), a.remove(Substance.LIQUID), a.remove(Substance.ENZYME), a.get_volume('uL'), a.get_volume(),
                a.has_liquid(), a.get_concentration(s, 'M'), a.get_concentration(s, '%w/w'), a.get_concentration(e, 'U/mL'),
                a.get_concentration(w, 'g/mL'), a.get_quantity(s, 'mg'), a.get_mass('g'), a.get_mass(substance=s)]

    @staticmethod
    def c05():
        w = Substance.liquid('water', 18.0153, 1)
        s = Substance.solid('salt', 58.44)
        a = Container('a', '10 mL', [(w, '5 mL'), (s, '100 mg')])
        out = [a.fill_to(w, '8 mL'), a.fill_to(w, '7 g'), a.fill_to(s, '6 g')]
        for q in ('4 mL', '20 mL', '1 U'):
            try:
                out.append(a.fill_to(w, q))
            except ValueError:
                out.append('ValueError')
        return out

    @staticmethod
    def c06():
        w = Substance.liquid('water', 18.0153, 1)
        s = Substance.solid('salt', 58.44)
        d = Substance.liquid('dmso', 78.13, 1.1)
        a = Container('a', '50 mL', [(w, '5 mL'), (s, '100 mg'), (d, '1 mL')])
        out = [a.dilute(s, '0.1 M', w), a.dilute(s, '1 %w/w', w), a.dilute(s, '5 mg/mL', d, 'renamed')]
        for c in ('1 M', '0.001 M'):
            try:
                out.append(a.dilute(s, c, w))
            except ValueError:
                out.append('ValueError')
        return out

    @staticmethod
    def c07():
        w = Substance.liquid('water', 18.0153, 1)
        s = Substance.solid('salt', 58.44)
        k = Substance.solid('kcl', 74.55)
        e = Substance.enzyme('lip', '45.5 U/mg')
        out = [Container.create_solution(s, w, 'x', concentration='1 M', total_quantity='10 mL'),
               Container.create_solution(s, w, 'x', concentration='5 %w/w', quantity='2 g'),
               Container.create_solution(s, w, 'x', quantity='1 g', total_quantity='20 g'),
               Container.create_solution([s, k], w, 'x', concentration=['0.5 M', '0.25 M'], total_quantity='10 mL'),
               Container.create_solution([s, k], w, 'x', quantity=['1 g', '2 g'], total_quantity='50 mL'),
               Container.create_solution(e, w, 'x', concentration='0.1 U/mL', total_quantity='5 mL')]
        for kw in ({'concentration': '100 M', 'total_quantity': '10 mL'}, {'concentration': '1 M'},
                   {'concentration': '1 M', 'quantity': '1 g', 'total_quantity': '1 L'}):
            try:
                out.append(Container.create_solution(s, w, 'x', **kw))
            except ValueError:
                out.append('ValueError')
        return out

    @staticmethod
    def c08():
        w = Substance.liquid('water', 18.0153, 1)
        s = Substance.solid('salt', 58.44)
        solvent = Container('sv', '1 L', [(w, '500 mL')])
        return Container.create_solution(s, solvent, 'x', concentration='0.5 M', total_quantity='100 mL')

    @staticmethod
    def c09():
        w = Substance.liquid('water', 18.0153, 1)
        s = Substance.solid('salt', 58.44)
        stock = Container.create_solution(s, w, 'stock', concentration='1 M', total_quantity='100 mL')
        out = [Container.create_solution_from(stock, s, '0.1 M', w, '50 mL', 'dil'),
               Container.create_solution_from(stock, s, '1 %w/w', w, '20 g', 'dil')]
        for c, q in (('2 M', '10 mL'), ('0.5 M', '1 L')):
            try:
                out.append(Container.create_solution_from(stock, s, c, w, q, 'dil'))
            except ValueError:
                out.append('ValueError')
        return out

    @staticmethod
    def c10():
        w = Substance.liquid('water', 18.0153, 1)
        out = []
        for args in (('a', '-1 mL'), ('a', '1 g'), ('', '1 mL'), (3, '1 mL'), ('a', '1 mL', [(w, '2 mL')]), ('a', '1 mL', [(w, '-1 mL')])):
            try:
                out.append(Container(*args))
            except ValueError:
                out.append('ValueError')
            except TypeError:
                out.append('TypeError')
        return out

    # ------------------------------------------------------------------ plates and slices
    @staticmethod
    def p01():
        w = Substance.liquid('water', 18.0153, 1)
        p = Plate('p', '500 uL', rows=3, columns=4)
        src = Container('src', '50 mL', [(w, '20 mL')])
        src, p = Plate.transfer(src, p[1], '10 uL')
        src, p = Plate.transfer(src, p['B':'C', 2:3], '20 uL')
        src, p = Plate.transfer(src, p[:, 4], '5 uL')
        src, p = Plate.transfer(src, p[['A:1', (3, 4)]], '7 uL')
        return [src, p, p.get_volumes(unit='uL'), p[2].get_volumes(unit='uL'), p.get_substances(), p[1, 1].get_volumes(w, 'uL')]

    @staticmethod
    def p02():
        w = Substance.liquid('water', 18.0153, 1)
        s = Substance.solid('salt', 58.44)
        p = Plate('p', '500 uL', rows=2, columns=3)
        q = Plate('q', '500 uL', rows=2, columns=3)
        src = Container('src', '50 mL', [(w, '20 mL'), (s, '1 g')])
        src, p = Plate.transfer(src, p, '100 uL')
        p, q = Plate.transfer(p[1], q[2], '10 uL')
        p, q = Plate.transfer(p[1, 1], q[:, 3], '5 uL')
        p, q = Plate.transfer(p[:, 2], q[1, 1], '5 uL')
        p, q = Plate.transfer(p, q, '1 uL')
        p, dst = Container.transfer(p[2], Container('dst', '5 mL'), '3 uL')
        return [p, q, dst, src]

    @staticmethod
    def p03():
        w = Substance.liquid('water', 18.0153, 1)
        s = Substance.solid('salt', 58.44)
        p = Plate('p', '500 uL', rows=2, columns=3)
        src = Container('src', '50 mL', [(w, '20 mL'), (s, '1 g')])
        src, p = Plate.transfer(src, p, '100 uL')
        a = p[1].remove(w)
        b = p.remove(s)
        c = p['A':'B', 2:3].fill_to(w, '300 uL')
        d = p.fill_to(w, '200 uL')
        return [a, b, c, d, p]

    @staticmethod
    def p04():
        p = Plate('p', '500 uL', rows=3, columns=4)
        out = []
        for item in (1, 'B', (2, 3), 'C:4', slice(1, 2), (slice(None), slice(2, None, 2)), ['A:1', 'B:2'], (slice('A', 'B'), 2),
                     (slice(2, 3), slice(2, 3))):
            sl = p[item]
            g = sl.get()
            if sl.size == 1 and isinstance(g, Container):
                names = g.name
            else:
                names = [c.name for c in g.flatten()]
            out.append([sl.shape, sl.size, names])
        return out

    @staticmethod
    def p05():
        p = Plate('p', '500 uL', rows=3, columns=4)
        out = []
        for item in (0, 4, 'D', (1, 5), 'A:9', 'A:1:2', (1, 2, 3), [1, 'A:1'], slice(3, 1), 1.5, None, slice(1, 2, 0), slice(1, 2, -1), 'a'):
            try:
                out.append(p[item].shape)
            except ValueError:
                out.append('ValueError')
            except TypeError:
                out.append('TypeError')
            except IndexError:
                out.append('IndexError')
        return out

    @staticmethod
    def p06():
        out = [Plate('p', '1 mL', rows=['x', 'y'], columns=['k', 'l', 'm']).row_names,
               Plate('p', '1 mL', rows=28, columns=2).row_names[-3:],
               Plate('p', '1 mL').n_rows, Plate('p', '1 mL', make='m').wells[7, 11].name]
        for kw in ({'rows': 0}, {'rows': ['a', 'a']}, {'rows': ['a', 1]}, {'max_volume_per_well': '1 g'}, {'columns': []}, {'rows': ['1']}):
            try:
                args = dict(name='p', max_volume_per_well='1 mL')
                args.update(kw)
                out.append(Plate(**args).n_rows)
            except ValueError:
                out.append('ValueError')
            except TypeError:
                out.append('TypeError')
        return out

    @staticmethod
    def p07():
        w = Substance.liquid('water', 18.0153, 1)
        p = Plate('p', '50 uL', rows=2, columns=2)
        src = Container('src', '1 mL', [(w, '100 uL')])
        out = []
        for q in ('30 uL', '60 uL'):
            try:
                out.append(Plate.transfer(src, p, q))
            except ValueError:
                out.append('ValueError')
        out.append([src, p])
        return out

    # ------------------------------------------------------------------ recipes and trackers
    @staticmethod
    def r01():
        w = Substance.liquid('water', 18.0153, 1)
        s = Substance.solid('salt', 58.44)
        stock = Container('stock', '100 mL', [(w, '50 mL'), (s, '2 g')])
        p = Plate('p', '500 uL', rows=2, columns=3)
        r = Recipe()
        r.uses(stock, p)
        r.start_stage('fill')
        r.transfer(stock, p, '100 uL')
        r.end_stage('fill')
        r.start_stage('edit')
        r.remove(p[1], w)
        r.fill_to(p, w, '150 uL')
        r.end_stage('edit')
        res = r.bake()
        out = [res['stock'], res['p'], stock, p]
        for st in ('all', 'fill', 'edit'):
            out.append(r.get_substance_used(w, timeframe=st, unit='uL', destinations=[p]))
            out.append(r.get_substance_used(s, timeframe=st, unit='mg', destinations='plates'))
            out.append(r.get_container_flows(stock, timeframe=st, unit='uL'))
            out.append(r.get_amount_remaining(stock, timeframe=st, unit='mL'))
        out.append(r.get_container_flows(p, timeframe='all', unit='uL'))
        out.append(r.get_amount_remaining(p, timeframe='all', unit='uL'))
        return out

    @staticmethod
    def r02():
        w = Substance.liquid('water', 18.0153, 1)
        s = Substance.solid('salt', 58.44)
        r = Recipe()
        c = r.create_container('c', '20 mL', [(w, '10 mL')])
        sol = r.create_solution(s, w, 'sol', concentration='1 M', total_quantity='10 mL')
        dil = r.create_solution_from(sol, s, '0.1 M', w, '5 mL', 'dil')
        r.transfer(sol, c, '1 mL')
        r.dilute(dil, s, '0.05 M', w)
        r.fill_to(c, w, '15 mL')
        r.remove(c, s)
        res = r.bake()
        return [res['c'], res['sol'], res['dil'], r.get_substance_used(s, unit='mg'), r.get_substance_used(w, unit='mL'),
                r.get_container_flows(sol, unit='mL'), r.get_amount_remaining(sol, unit='mL'), sorted(res)]

    @staticmethod
    def r03():
        w = Substance.liquid('water', 18.0153, 1)
        a = Container('a', '10 mL', [(w, '5 mL')])
        b = Container('b', '10 mL')
        out = []
        r = Recipe()
        for f in ('transfer-undeclared', 'uses-twice', 'end-unopened', 'start-twice', 'bake-open', 'after-bake', 'bake-twice',
                  'infeasible', 'used-unbaked'):
            r = Recipe()
            try:
                if f == 'transfer-undeclared':
                    r.transfer(a, b, '1 mL')
                elif f == 'uses-twice':
                    r.uses(a)
                    r.uses(a)
                elif f == 'end-unopened':
                    r.end_stage('x')
                elif f == 'start-twice':
                    r.start_stage('x')
                    r.start_stage('y')
                elif f == 'bake-open':
                    r.uses(a, b)
                    r.transfer(a, b, '1 mL')
                    r.start_stage('x')
                    r.bake()
                elif f == 'after-bake':
                    r.uses(a, b)
                    r.transfer(a, b, '1 mL')
                    r.bake()
                    r.transfer(a, b, '1 mL')
                elif f == 'bake-twice':
                    r.uses(a, b)
                    r.transfer(a, b, '1 mL')
                    r.bake()
                    r.bake()
                elif f == 'infeasible':
                    r.uses(a, b)
                    r.transfer(a, b, '7 mL')
                    r.bake()
                elif f == 'used-unbaked':
                    r.uses(a, b)
                    r.transfer(a, b, '1 mL')
                    r.get_substance_used(w)
                out.append('accepted')
            except ValueError:
                out.append('ValueError')
            except RuntimeError:
                out.append('RuntimeError')
            except TypeError:
                out.append('TypeError')
        out.append([a, b])
        return out

    @staticmethod
    def r04():
        """flows / amounts remaining with a partly filled plate, a withdrawal, a remove step and a transfer inside the plate"""
        w = Substance.liquid('water', 18.0153, 1)
        s = Substance.solid('salt', 58.44)
        stock = Container('stock', initial_contents=[(w, '10 mL'), (s, '0.7777 mmol')])
        waste = Container('waste')
        p = Plate('P', '500 uL', rows=2, columns=3)
        r = Recipe().uses(stock, waste, p)
        r.start_stage('s1')
        r.transfer(stock, p[2], '37.3 uL')
        r.transfer(stock, p[1, 2:3], '11.7 uL')
        r.end_stage('s1')
        r.start_stage('s2')
        r.transfer(p[2, 1], waste, '5.5 uL')
        r.remove(p[2], w)
        r.end_stage('s2')
        r.start_stage('s3')
        r.transfer(p[1, 2:3], p[2, 2:3], '3.3 uL')
        r.end_stage('s3')
        res = r.bake()
        out = [res['P'], res['stock'], res['waste']]
        for tf in ('all', 's1', 's2', 's3'):
            for obj in (stock, waste, p):
                try:
                    out.append(r.get_container_flows(obj, tf, 'mg'))
                    out.append(r.get_amount_remaining(obj, tf, 'uL', mode='before'))
                    out.append(r.get_amount_remaining(obj, tf, 'uL'))
                except ValueError:
                    out.append('ValueError')
            for sub in (w, s):
                try:
                    out.append(r.get_substance_used(sub, tf, 'umol', destinations=[p]))
                except ValueError:
                    out.append('ValueError')
        return out

    @staticmethod
    def r05():
        """solution steps with a container solvent, a second solution from it, dilute with a new solvent at the current
        concentration (no-op) and a fill"""
        w = Substance.liquid('water', 18.0153, 1)
        d = Substance.liquid('dmso', 78.13, 1.1)
        s = Substance.solid('salt', 58.44)
        buf = Container('buffer', '200 mL', [(w, '100 mL'), (d, '5 mL')])
        r = Recipe().uses(buf)
        s1 = r.create_solution(s, buf, 's1', concentration='0.25 M', total_quantity='20 mL')
        s2 = r.create_solution_from(s1, s, '0.05 M', w, '10 mL', 's2')
        r.fill_to(s2, w, '12 mL')
        res = r.bake()
        return [res['buffer'], res['s1'], res['s2'], sorted(res), r.get_container_flows(buf, unit='mL'),
                r.get_substance_used(s, unit='mg', destinations=[s1, s2]), r.get_amount_remaining(s1, unit='mL')]

    @staticmethod
    def p08():
        """list selectors and slices of slices"""
        w = Substance.liquid('water', 18.0153, 1)
        s = Substance.solid('salt', 58.44)
        p = Plate('p', '500 uL', rows=3, columns=4)
        q = Plate('q', '500 uL', rows=3, columns=4)
        src = Container('src', '50 mL', [(w, '20 mL'), (s, '1 g')])
        src, p = Plate.transfer(src, p, '100 uL')
        p, q = Plate.transfer(p[['A:1', 'C:4', 'B:2']], q[['B:1', 'A:3', 'C:2']], '10 uL')
        src, q = Plate.transfer(src, q[[(1, 1), 'C:3']], '7 uL')
        q, c = Container.transfer(q[['B:1', 'A:3']], Container('c', '5 mL'), '2 uL')
        sub = p[2:3, 2:4][0:1, 1:3]
        a = sub.remove(w)
        b = p[1:3][1:2].fill_to(w, '150 uL')
        return [p, q, c, src, a, b, sub.shape, sub.get_volumes(unit='uL'), p[2:3, 2:4][0:2, 0:1].get_volumes(s, 'uL'),
                q.get_moles(s, 'umol'), q.get_moles([s, w], 'mmol'), q[['B:1', 'A:3']].get_volumes(unit='uL')]

    @staticmethod
    def c11():
        """enzymes in mixtures: transfers in every unit family, fill, remove by kind, observers"""
        w = Substance.liquid('water', 18.0153, 1)
        s = Substance.solid('salt', 58.44)
        e = Substance.enzyme('lip', '45.5 U/mg')
        a = Container('a', '100 mL', [(w, '5 mL'), (s, '100 mg'), (e, '50 U')])
        b = Container('b', '100 mL', [(e, '5 U')])
        out = []
        for q in ('1.5 mL', '300 mg', '2 mmol', '7 U', '2500 uL', '0.1 g'):
            a, b = Container.transfer(a, b, q)
            out += [a, b]
        for f in (lambda: a.fill_to(w, '80 mL'), lambda: a.fill_to(w, '70 g'), lambda: b.remove(Substance.ENZYME), lambda: b.remove(e),
                  lambda: a.get_concentration(e, 'U/mL'), lambda: a.get_concentration(s, 'mmol/g'),
                  lambda: a.get_concentration(w, '%v/v'), lambda: b.get_volume('mL'), lambda: a.has_liquid()):
            try:
                out.append(f())
            except ValueError:
                out.append('ValueError')
        return out

    @staticmethod
    def c12():
        """dilute: every unit family, a third component, renaming, refusals"""
        w = Substance.liquid('water', 18.0153, 1)
        d = Substance.liquid('dmso', 78.13, 1.1)
        s = Substance.solid('salt', 58.44)
        a = Container('a', '500 mL', [(w, '5 mL'), (s, '300 mg'), (d, '2 mL')])
        out = []
        for c in ('0.3 M', '20 mg/mL', '2 %w/w', '1 %w/v', '0.4 mmol/g', '0.5 mol/kg', '3 mg/g', '0.01 mol/mol'):
            for solvent in (w, d):
                try:
                    out.append(a.dilute(s, c, solvent))
                except ValueError:
                    out.append('ValueError')
        out.append(a.dilute(d, '10 %v/v', w, 'dd'))
        cur = a.get_concentration(s, 'M')
        out.append(a.dilute(s, f'{cur} M', Substance.liquid('etoh', 46.07, 0.789)))
        return out

    @staticmethod
    def c13():
        """solution builders: container solvents holding an enzyme / the solute, mole totals, percent forms"""
        w = Substance.liquid('water', 18.0153, 1)
        s = Substance.solid('salt', 58.44)
        k = Substance.solid('kcl', 74.55)
        e = Substance.enzyme('lip', '45.5 U/mg')
        sv = Container('sv', '1 L', [(w, '500 mL'), (e, '20 U'), (s, '1 g')])
        out = []
        for f in (lambda: Container.create_solution(k, sv, 'x', concentration='2 %w/w', total_quantity='50 g'),
                  lambda: Container.create_solution(k, sv, 'x', concentration='0.1 M', total_quantity='40 mL'),
                  lambda: Container.create_solution([k, s], w, 'x', concentration=['0.5 M', '0.2 M'], quantity=['1 g', '0.5 g']),
                  lambda: Container.create_solution([k, s], w, 'x', quantity=['1 g', '0.5 g'], total_quantity='30 mL'),
                  lambda: Container.create_solution(s, w, 'x', concentration='3 %w/v', total_quantity='2 mol')):
            try:
                out.append(f())
            except ValueError:
                out.append('ValueError')
        stock = Container.create_solution(s, sv, 'stock', concentration='1 M', total_quantity='100 mL')[1]
        out.append(Container.create_solution_from(stock, s, '0.2 M', sv, '30 mL', 'y'))
        out.append(Container.create_solution_from(stock, s, '1 %w/w', w, '0.5 mol', 'y'))
        out.append(Container.create_solution_from(stock, s, '5 mg/mL', w, '25 g', 'y'))
        return out

    # ------------------------------------------------------------------ instruction text
    @staticmethod
    def t01():
        w = Substance.liquid('water', 18.0153, 1)
        s = Substance.solid('salt', 58.44)
        a = Container('a', '10 mL', [(w, '5 mL'), (s, '100 mg')])
        b = Container('b', '10 mL')
        a2, b2 = Container.transfer(a, b, '2 mL')
        c = a.fill_to(w, '8 mL')
        d = a.dilute(s, '0.2 M', w)
        return [a.instructions, a2.instructions, b2.instructions, c.instructions, d.instructions]
