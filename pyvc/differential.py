"""Engine-vs-CPython differential: every scenario of pyvc/diff_corpus.py is executed (a) by CPython on the real package
and (b) by pyvc's interpreter on the repository's parsed source, all inputs concrete; the normalised results must agree.
This validates the trusted part of the VC generator (statement/expression semantics, the builtin and numpy models T1/T3,
class machinery, exceptions) on the code paths the contracts exercise.  `python3-vt -m pyvc.differential` exits 0 when
all scenarios agree, 3 otherwise; scenarios the engine cannot run concretely are listed as unsupported (not failures).

Tolerance: A1/A2 — the engine computes in exact rationals and treats the 10-digit internal rounding as the identity, so
numbers are compared with rel 1e-7 / abs 1e-6 (storage units); instruction texts are compared with their numbers parsed
back at the same tolerance."""
import ast
import json
import os
import re
import sys
from fractions import Fraction

from . import harness

HERE = os.path.dirname(os.path.abspath(__file__))
CORPUS = os.path.join(HERE, 'diff_corpus.py')

NATIVE = r'''
import json, inspect
import numpy
from pyplate import Substance, Container, Plate
from pyvc.diff_corpus import Scenarios

def norm(v):
    if isinstance(v, bool) or v is None or isinstance(v, str):
        return v
    if isinstance(v, (int, float, numpy.integer, numpy.floating)):
        return {'#': float(v)}
    if isinstance(v, Substance):
        return {'substance': v.name}
    if isinstance(v, Container):
        return {'container': v.name, 'contents': {s.name: norm(a) for s, a in v.contents.items()},
                'volume': norm(v.volume), 'max_volume': norm(v.max_volume) if v.max_volume != float('inf') else 'inf',
                'instructions': v.instructions}
    if isinstance(v, Plate):
        return {'plate': v.name, 'wells': [[norm(w) for w in row] for row in v.wells]}
    if isinstance(v, numpy.ndarray):
        return [norm(x) for x in v.tolist()] if v.ndim else norm(v.item())
    if isinstance(v, dict):
        return {'dict': sorted(([norm(k), norm(x)] for k, x in v.items()), key=lambda kv: json.dumps(kv[0], sort_keys=True))}
    if isinstance(v, (set, frozenset)):
        return {'set': sorted((norm(x) for x in v), key=lambda x: json.dumps(x, sort_keys=True))}
    if isinstance(v, (list, tuple)):
        return [norm(x) for x in v]
    return {'other': type(v).__name__}

def run():
    out = {}
    for n, f in inspect.getmembers(Scenarios, inspect.isfunction):
        try:
            out[n] = norm(f())
        except Exception as e:
            out[n] = {'raised': type(e).__name__}
    return {'ok': True, 'results': out}
'''


def engine_results():
    from . import vc
    from .values import Obj, SegStr, NumHole, Raised, Unsupported, SliceV
    from .interp import Interp
    from .source import ClassInfo
    from . import npmodel
    import z3
    repo = vc.repo()
    tree = ast.parse(open(CORPUS).read())
    cnode = [n for n in tree.body if isinstance(n, ast.ClassDef) and n.name == 'Scenarios'][0]
    repo.classes['Scenarios'] = ClassInfo('Scenarios', cnode, repo.modules['pyplate'])

    def num(v):
        if isinstance(v, bool):
            return v
        if isinstance(v, (int, Fraction)):
            return {'#': float(v)}
        if isinstance(v, float):
            return {'#': v}
        if z3.is_expr(v):
            s = z3.simplify(v)
            if z3.is_rational_value(s) or z3.is_int_value(s):
                return {'#': float(Fraction(s.numerator_as_long(), s.denominator_as_long()))}
            if z3.is_algebraic_value(s):
                return {'#': float(s.approx(20).as_fraction())}
            return {'symbolic': str(s)[:80]}
        raise TypeError(v)

    def text(v):
        if isinstance(v, str):
            return v
        out = []
        for p in v.parts:
            if isinstance(p, str):
                out.append(p)
            elif isinstance(p, NumHole):
                n = num(p.value)
                if isinstance(p.value, int) and not isinstance(p.value, bool):
                    out.append(str(p.value))
                elif isinstance(n, dict) and '#' in n:
                    out.append(repr(n['#']))
                else:
                    out.append('<?>')
            else:
                out.append('<?>')
        return ''.join(out)

    def norm(v):
        if isinstance(v, bool) or v is None or isinstance(v, str):
            return v
        if isinstance(v, SegStr):
            return text(v)
        if isinstance(v, (int, Fraction, float)) or z3.is_expr(v):
            return num(v)
        if isinstance(v, Obj):
            c = v.cls.name
            f = v.fields
            if c == 'Substance':
                return {'substance': norm(f['name'])}
            if c == 'Container':
                mv = f['max_volume']
                return {'container': norm(f['name']), 'contents': {norm(s.fields['name']): norm(a) for s, a in f['contents'].items()},
                        'volume': norm(f['volume']), 'max_volume': 'inf' if mv == float('inf') or str(mv) == 'inf' else norm(mv),
                        'instructions': norm(f['instructions'])}
            if c == 'Plate':
                g = f['wells']
                return {'plate': norm(f['name']), 'wells': [[norm(w) for w in row] for row in g.cells]}
            return {'other': c}
        if isinstance(v, npmodel.NpArr):
            return norm(v.data)
        if isinstance(v, npmodel.GridArr):
            return [[norm(x) for x in row] for row in v.cells]
        if isinstance(v, (npmodel.GridFlat,)):
            return [norm(x) for x in v.items()] if hasattr(v, 'items') else {'other': 'GridFlat'}
        if isinstance(v, dict):
            return {'dict': sorted(([norm(k), norm(x)] for k, x in v.items()), key=lambda kv: json.dumps(kv[0], sort_keys=True))}
        if isinstance(v, (set, frozenset)) or type(v).__name__ in ('PySet', 'SetV'):
            return {'set': sorted((norm(x) for x in (v if isinstance(v, (set, frozenset)) else v.items)),
                                  key=lambda x: json.dumps(x, sort_keys=True))}
        if isinstance(v, (list, tuple)):
            return [norm(x) for x in v]
        if hasattr(v, 'py_iterable') and hasattr(v, 'to_list'):
            return [norm(x) for x in v.to_list()]
        return {'other': type(v).__name__}

    out = {}
    for name in sorted(repo.classes['Scenarios'].methods):
        I = Interp(repo, [], contracts=None, cfg=None)
        try:
            o = vc.call(I, f'Scenarios.{name}', [])
            if o.kind == 'return':
                out[name] = norm(o.value)
            else:
                out[name] = {'raised': o.exc.cls}
        except Unsupported as u:
            out[name] = {'unsupported': str(u)[:300]}
        except Exception as e:        # an engine crash on concrete input is a finding about the engine
            import traceback
            out[name] = {'engine-crash': traceback.format_exc()[-600:]}
    return out


NUM = re.compile(r'-?\d+\.?\d*(?:[eE][-+]?\d+)?')
QTY = re.compile(r'(-?\d+\.?\d*(?:[eE][-+]?\d+)?) (n|u|µ|m|c|d|da|k|M|)(L|g|mol|U)\b')
_SI = {'n': 1e-9, 'u': 1e-6, 'µ': 1e-6, 'm': 1e-3, 'c': 1e-2, 'd': 1e-1, '': 1.0, 'da': 10.0, 'k': 1e3, 'M': 1e6}


def _base(text):
    """'1000.0 uL' and '1.0 mL' state the same amount: quantities are rewritten in the base unit (the choice of prefix
    depends on float noise at exact powers of 1000, which A1 does not reproduce)"""
    return QTY.sub(lambda m: f"{float(m.group(1)) * _SI[m.group(2)]:.6g} {m.group(3)}", text)


def same(a, b, path=''):
    """structural comparison; returns a list of differences"""
    if isinstance(a, dict) and isinstance(b, dict) and '#' in a and '#' in b:
        x, y = a['#'], b['#']
        if x == y or abs(x - y) <= 1e-6 + 1e-7 * max(abs(x), abs(y)):
            return []
        return [f'{path}: {x} != {y}']
    if isinstance(a, str) and isinstance(b, str):
        if a == b or _base(a) == _base(b):
            return []
        if '<?>' in b:      # engine text with opaque pieces: those match anything
            if re.fullmatch('.*?'.join(re.escape(x) for x in b.split('<?>')), a, re.S):
                return []
        # texts with numbers: same skeleton, numbers within tolerance
        if NUM.sub('#', a) == NUM.sub('#', b):
            xs, ys = [float(t) for t in NUM.findall(a)], [float(t) for t in NUM.findall(b)]
            if all(abs(x - y) <= 1e-6 + 1e-6 * max(abs(x), abs(y)) for x, y in zip(xs, ys)):
                return []
        return [f'{path}: {a!r} != {b!r}']
    if type(a) is not type(b):
        # int-valued bool/number mixes do not occur in the corpus
        return [f'{path}: {json.dumps(a)[:120]} != {json.dumps(b)[:120]}']
    if isinstance(a, dict):
        d = []
        if set(a) != set(b):
            return [f'{path}: keys {sorted(a)} != {sorted(b)}']
        for k in a:
            d += same(a[k], b[k], f'{path}.{k}')
        return d
    if isinstance(a, list):
        if len(a) != len(b):
            return [f'{path}: length {len(a)} != {len(b)}']
        d = []
        for i, (x, y) in enumerate(zip(a, b)):
            d += same(x, y, f'{path}[{i}]')
        return d
    return [] if a == b else [f'{path}: {a!r} != {b!r}']


def main(verbose=True):
    nat = harness.run_replay({'code': NATIVE}, timeout=600)
    if nat.get('ok') is not True:
        print('differential: native side failed:', nat)
        return 3, {}
    eng = engine_results()
    agree, differ, unsup = [], {}, {}
    for k, nv in sorted(nat['results'].items()):
        ev = eng.get(k)
        if isinstance(ev, dict) and 'unsupported' in ev:
            unsup[k] = ev['unsupported']
            continue
        d = same(nv, ev, k)
        if d:
            differ[k] = d[:6]
        else:
            agree.append(k)
    summary = {'scenarios': len(nat['results']), 'agree': len(agree), 'differ': differ, 'unsupported': unsup}
    if verbose:
        print(f"differential: {len(agree)}/{len(nat['results'])} scenarios agree; {len(unsup)} unsupported; {len(differ)} differ")
        for k, d in differ.items():
            print('  DIFF', k, *d, sep='\n     ')
        for k, u in unsup.items():
            print('  UNSUPPORTED', k, u)
    return (3 if differ else 0), summary


if __name__ == '__main__':
    sys.exit(main()[0])
