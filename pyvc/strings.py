"""Operations on segmented strings (concrete text with typed holes).

Every operation either returns the exact Python result or raises Unsupported; nothing is guessed.
"""
from fractions import Fraction
import math

from .values import *   # noqa: F401,F403


def parts_of(s):
    if isinstance(s, str):
        return [s] if s else []
    return list(s.parts)


def hole_excludes(h, chars):
    return all(c in h.excluded for c in chars)


def has_strhole(s):
    return isinstance(s, SegStr) and any(isinstance(p, StrHole) for p in s.parts)


def to_z3str(s):
    """z3 String term of a string whose holes are all StrHoles."""
    import z3
    ps = parts_of(s)
    terms = []
    for p in ps:
        if isinstance(p, str):
            terms.append(z3.StringVal(p))
        elif isinstance(p, StrHole):
            terms.append(p.term)
        else:
            raise Unsupported("mixed hole kinds in a symbolic string")
    if not terms:
        return z3.StringVal('')
    if len(terms) == 1:
        return terms[0]
    return z3.Concat(*terms)


def seg_contains(s, sub):
    """`sub in s` for a concrete sub."""
    if not isinstance(sub, str):
        raise Unsupported("symbolic needle in string containment")
    if sub == '':
        return True
    ps = parts_of(s)
    for p in ps:
        if isinstance(p, str) and sub in p:
            return True
    # could the needle lie inside / across a hole?
    for p in ps:
        if isinstance(p, Hole) and not any(c in p.excluded for c in sub):
            raise Unsupported(f"containment of {sub!r} in text with an unconstrained hole")
    if len(sub) == 1:
        return False
    # multi-character needle: it would have to span a hole boundary, needing a hole to contribute a character
    # of the needle; every hole excludes at least one needle character but maybe not the boundary ones.
    for p in ps:
        if isinstance(p, Hole) and not hole_excludes(p, sub):
            raise Unsupported(f"containment of {sub!r} across a hole")
    return False


def seg_count(s, sub):
    if not isinstance(sub, str) or sub == '':
        raise Unsupported("count of symbolic/empty needle")
    n = 0
    for p in parts_of(s):
        if isinstance(p, str):
            n += p.count(sub)
        elif not hole_excludes(p, sub):
            raise Unsupported(f"count of {sub!r} in text with an unconstrained hole")
    return n


def seg_split(s, sep=None, maxsplit=-1):
    """str.split(sep) / str.split()."""
    if maxsplit != -1:
        raise Unsupported("split with maxsplit on segmented string")
    ps = parts_of(s)
    if sep is None:
        # whitespace split
        tokens, cur = [], []
        for p in ps:
            if isinstance(p, str):
                buf = ''
                for ch in p:
                    if ch.isspace():
                        if buf:
                            cur.append(buf)
                            buf = ''
                        if cur:
                            tokens.append(mkstr(cur))
                            cur = []
                    else:
                        buf += ch
                if buf:
                    cur.append(buf)
            else:
                if not hole_excludes(p, ' \t\n'):
                    raise Unsupported("whitespace split over an unconstrained hole")
                cur.append(p)
        if cur:
            tokens.append(mkstr(cur))
        return tokens
    if not isinstance(sep, str) or sep == '':
        raise Unsupported("split separator")
    tokens, cur = [], []
    for p in ps:
        if isinstance(p, str):
            pieces = p.split(sep)
            cur.append(pieces[0])
            for piece in pieces[1:]:
                tokens.append(mkstr(cur))
                cur = [piece]
        else:
            if not hole_excludes(p, sep):
                raise Unsupported(f"split on {sep!r} over an unconstrained hole")
            cur.append(p)
    tokens.append(mkstr(cur))
    return tokens


def seg_endswith(s, suffix):
    if isinstance(suffix, tuple):
        return any(seg_endswith(s, x) for x in suffix)
    if not isinstance(suffix, str):
        raise Unsupported("symbolic suffix")
    if suffix == '':
        return True
    ps = parts_of(s)
    if not ps:
        return False
    last = ps[-1]
    if has_strhole(s) and all(isinstance(p, (str, StrHole)) for p in ps):
        import z3
        if isinstance(last, str) and len(last) >= len(suffix):
            return last.endswith(suffix)
        return z3.SuffixOf(z3.StringVal(suffix), to_z3str(s))
    if isinstance(last, str):
        if len(last) >= len(suffix):
            return last.endswith(suffix)
        if not suffix.endswith(last):
            return False
        raise Unsupported("endswith reaching into a hole")
    if isinstance(last, NumHole) and suffix[-1] in 'LgUMlom%':
        # decimal text of a finite number ends in a digit or '.'; (inf/nan end in f/y/n)
        return False
    raise Unsupported("endswith on a hole")


def seg_startswith(s, prefix):
    if not isinstance(prefix, str):
        raise Unsupported("symbolic prefix")
    if prefix == '':
        return True
    ps = parts_of(s)
    if not ps:
        return False
    first = ps[0]
    if isinstance(first, str):
        if len(first) >= len(prefix):
            return first.startswith(prefix)
        if not prefix.startswith(first):
            return False
    raise Unsupported("startswith reaching into a hole")


def seg_index(s, i):
    ps = parts_of(s)
    if not isinstance(i, int):
        raise Unsupported("symbolic string index")
    if i < 0:
        k = -i
        for p in reversed(ps):
            if isinstance(p, str):
                if k <= len(p):
                    return p[-k]
                k -= len(p)
            else:
                raise Unsupported("index into a hole")
        raise Raised('IndexError', None, 'string index out of range', implicit=True)
    k = i
    for p in ps:
        if isinstance(p, str):
            if k < len(p):
                return p[k]
            k -= len(p)
        else:
            raise Unsupported("index into a hole")
    raise Raised('IndexError', None, 'string index out of range', implicit=True)


def seg_slice(s, sl):
    """s[a:b] for the patterns the library uses: [:k] [k:] [:-k] [-k:] with concrete k."""
    ps = parts_of(s)
    if sl.step is not None:
        raise Unsupported("string slice with step")
    a, b = sl.start, sl.stop
    for x in (a, b):
        if x is not None and not isinstance(x, int):
            raise Unsupported("symbolic string slice bound")
    if a is None and b is None:
        return mkstr(ps)
    if len(ps) == 1 and isinstance(ps[0], StrHole):
        import z3
        t = ps[0].term
        n = z3.Length(t)
        if a is None and b < 0:
            return SegStr([StrHole(z3.SubString(t, 0, n + b), ps[0].excluded)])
        if b is None and a < 0:
            k = -a
            return SegStr([StrHole(z3.If(n >= k, z3.SubString(t, n - k, k), t), ps[0].excluded)])
        raise Unsupported("slice of a symbolic string")
    if a is None and b < 0:          # s[:-k]
        k = -b
        out = list(ps)
        while k > 0:
            if not out:
                return ''
            last = out[-1]
            if not isinstance(last, str):
                raise Unsupported("slice cutting into a hole")
            if len(last) > k:
                out[-1] = last[:-k]
                k = 0
            else:
                k -= len(last)
                out.pop()
        return mkstr(out)
    if b is None and a < 0:          # s[-k:]
        k = -a
        out = []
        for p in reversed(ps):
            if k == 0:
                break
            if isinstance(p, str):
                if len(p) >= k:
                    out.insert(0, p[-k:])
                    k = 0
                else:
                    out.insert(0, p)
                    k -= len(p)
            else:
                # unknown text of unknown length: keep an opaque marker (only suffix comparisons are sound)
                out.insert(0, OpaqueHole('cut'))
                k = 0
        return mkstr(out)
    if a is None and b >= 0:         # s[:k]
        k = b
        out = []
        for p in ps:
            if k == 0:
                break
            if isinstance(p, str):
                out.append(p[:k])
                k -= min(k, len(p))
            else:
                raise Unsupported("slice cutting into a hole")
        return mkstr(out)
    if b is None and a >= 0:         # s[k:]
        k = a
        out = []
        for idx, p in enumerate(ps):
            if k == 0:
                out.extend(ps[idx:])
                break
            if isinstance(p, str):
                if len(p) > k:
                    out.append(p[k:])
                    out.extend(ps[idx + 1:])
                    k = 0
                    break
                k -= len(p)
            else:
                raise Unsupported("slice cutting into a hole")
        return mkstr(out)
    if s.__class__ is str:
        return s[a:b]
    raise Unsupported("general slice of segmented string")


def seg_equal(a, b):
    """a == b for strings; returns bool or raises Unsupported."""
    pa, pb = parts_of(a), parts_of(b)
    if all(isinstance(p, str) for p in pa) and all(isinstance(p, str) for p in pb):
        return ''.join(pa) == ''.join(pb)
    if (has_strhole(a) or has_strhole(b)) and all(isinstance(p, (str, StrHole)) for p in pa + pb):
        return to_z3str(a) == to_z3str(b)
    if len(pa) == 1 and len(pb) == 1 and isinstance(pa[0], LabelHole) and isinstance(pb[0], LabelHole):
        if pa[0].term.eq(pb[0].term):
            return True
        return pa[0].term == pb[0].term
    if len(pa) == len(pb) and all((x is y) or (isinstance(x, str) and x == y) for x, y in zip(pa, pb)):
        return True
    # compare concrete prefixes and suffixes
    i = 0
    sa = pa[0] if pa and isinstance(pa[0], str) else ''
    sb = pb[0] if pb and isinstance(pb[0], str) else ''
    n = min(len(sa), len(sb))
    if sa[:n] != sb[:n]:
        return False
    ea = pa[-1] if pa and isinstance(pa[-1], str) else ''
    eb = pb[-1] if pb and isinstance(pb[-1], str) else ''
    n = min(len(ea), len(eb))
    if n and ea[-n:] != eb[-n:]:
        return False
    # an empty string against something containing a number/label hole
    if (not pa or not pb):
        other = pa or pb
        if any(isinstance(p, (NumHole, LabelHole)) or (isinstance(p, str) and p) for p in other):
            return False
    # a concrete string against hole+text where the concrete string contains an excluded character ...
    conc, seg = (None, None)
    if all(isinstance(p, str) for p in pa):
        conc, seg = ''.join(pa), pb
    elif all(isinstance(p, str) for p in pb):
        conc, seg = ''.join(pb), pa
    if conc is not None:
        need = sum(len(p) for p in seg if isinstance(p, str))
        if need > len(conc):
            return False
        if len(seg) == 1 and isinstance(seg[0], NumHole):
            # decimal text of a number vs. a concrete text: equal only if that text parses to the same number;
            # several texts denote one number, so only the negative answer is sound
            try:
                float(conc)
            except ValueError:
                return False
    raise Unsupported(f"equality of strings with holes: {a!r} == {b!r}")


def seg_float(interp, s, node=None):
    """float(s)."""
    ps = parts_of(s)
    ln = getattr(node, 'lineno', None)
    if len(ps) == 1 and isinstance(ps[0], NumHole):
        v = ps[0].value
        return v
    if all(isinstance(p, str) for p in ps):
        return parse_float_text(''.join(ps), ln)
    if len(ps) == 1 and isinstance(ps[0], StrHole):
        isf, fv = float_functions()
        if interp.decide(isf(ps[0].term), f"float({ps[0].term}) accepted"):
            return fv(ps[0].term)
        raise Raised('ValueError', ln, 'could not convert string to float', implicit=True)
    # sign/whitespace around a number hole
    if len([p for p in ps if isinstance(p, NumHole)]) == 1 and all(
            isinstance(p, NumHole) or (isinstance(p, str) and p.strip() == '') for p in ps):
        return [p for p in ps if isinstance(p, NumHole)][0].value
    if any(isinstance(p, (LabelHole,)) for p in ps):
        raise Unsupported("float() of a label")
    if any(isinstance(p, NumHole) for p in ps) and any(isinstance(p, str) and p.strip() for p in ps):
        # digits glued to other text: e.g. "<num>mL" — not a float unless the glue is itself numeric
        glue = ''.join(p for p in ps if isinstance(p, str))
        if any(c.isalpha() and c not in 'eE' for c in glue) or '%' in glue:
            raise Raised('ValueError', ln, 'could not convert string to float', implicit=True)
    raise Unsupported(f"float() of {s!r}")


def parse_float_text(t, ln=None):
    txt = t.strip()
    try:
        f = float(txt)
    except ValueError:
        raise Raised('ValueError', ln, f'could not convert string to float: {t!r}', implicit=True)
    if math.isinf(f) or math.isnan(f):
        return f
    low = txt.lower().replace('_', '')
    try:
        return Fraction(low)
    except (ValueError, ZeroDivisionError):
        return Fraction(repr(f))
