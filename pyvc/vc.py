"""Glue used by contract modules inside worker processes: path exploration and obligation discharge."""
import time

import z3

from .values import *   # noqa: F401,F403
from .interp import Interp, Env
from .source import Repo
from . import solve

_repo = None
CFG_OVERRIDE = None      # configuration sweep (C18): storage units other than the shipped ones


def repo():
    global _repo
    if _repo is None:
        _repo = Repo()
    return _repo


class Outcome:
    def __init__(self, kind, value=None, exc=None, note=None):
        self.kind = kind      # 'return' | 'raise' | 'end' | 'unsupported'
        self.value = value
        self.exc = exc
        self.note = note

    def __repr__(self):
        return f"Outcome({self.kind}, {self.exc or self.value!r})"


def call(I, qual, args, kwargs=None, inline=True):
    """Run the real function `qual` (body from the repository AST) on the given (symbolic) arguments."""
    from .values import FuncV
    node = I.repo.find(qual)
    cls = I.repo.classes[qual.split('.')[0]]
    f = FuncV(node, qual, cls)
    try:
        v = I.call_func(f, list(args), dict(kwargs or {}), None, force_inline=inline)
        return Outcome('return', v)
    except Raised as ex:
        return Outcome('raise', exc=ex)


def explore(body, contracts=None, cfg=None, max_paths=400, setup=None):
    """Enumerate all paths of `body(I)` by re-execution under decision schedules.
    body(I) sets up the symbolic inputs, runs the code, and emits obligations; it may return a value.
    Returns a list of (I, result_or_Outcome)."""
    pending = [[]]
    out = []
    if cfg is None and CFG_OVERRIDE is not None:
        cfg = CFG_OVERRIDE
    while pending:
        sched = pending.pop()
        I = Interp(repo(), sched, contracts=contracts, cfg=cfg)
        if setup:
            setup(I)
        try:
            r = body(I)
        except PathEnd:
            r = Outcome('end')
        except Unsupported as u:
            r = Outcome('unsupported', note=str(u))
        pending.extend(I.pending)
        out.append((I, r))
        if len(out) > max_paths:
            out.append((I, Outcome('unsupported', note=f'more than {max_paths} paths')))
            break
    return out


def discharge(I, name_prefix, case, timeout_ms=20000, inputs=None, replay_fn=None, ladder=None, prefer=None,
              only=None, fallbacks=True):
    """Discharge the obligations collected on one path; returns plain-dict results."""
    res = []
    for ob in I.obls:
        if only is not None and (name_prefix + ob.name) not in only and ob.kind != 'cover':
            continue
        hyps = I.hyps[:ob.nhyps] + list(ob.extra)
        t0 = time.time()
        if ob.kind == 'cover':
            st, model, dt, be = solve.cover_sat(hyps + [ob.goal], timeout_ms)
            res.append({'name': name_prefix + ob.name, 'case': case, 'kind': 'cover', 'verdict': st, 'secs': dt,
                        'backend': be})
            continue
        if ladder:
            groups = ladder(I, ob, hyps)
            verdict, model, dt, be = solve.prove_ladder(groups, ob.goal, timeout_ms, fallbacks)
        else:
            verdict, model, dt, be = solve.prove(hyps, ob.goal, timeout_ms, fallbacks)
        r = {'name': name_prefix + ob.name, 'case': case, 'kind': ob.kind, 'verdict': verdict, 'secs': dt,
             'backend': be, 'lineno': ob.lineno, 'note': ob.note, 'path': list(I.trace)[-12:],
             'formula_size': len(hyps)}
        if verdict == 'refuted' and prefer:
            # prefer a small counter-model (same formula plus size bounds) so that it can be replayed
            for extra in prefer:
                st2, m2, _, _ = solve.check_sat(hyps + [z3.Not(ob.goal)] + list(extra), min(timeout_ms, 5000), True, False)
                if st2 == 'sat' and m2 is not None:
                    model = m2
                    break
        if verdict == 'refuted':
            mv = {}
            if model is not None and inputs:
                for k, term in inputs.items():
                    mv[k] = solve.model_value(model, term)
            r['model'] = {k: str(v) for k, v in mv.items()}
            if replay_fn is not None and ob.kind in ('property',):
                try:
                    jobs = replay_fn(mv, ob)
                    r['replays'] = jobs if isinstance(jobs, list) else [jobs]
                except Exception as e:     # a replay builder must never turn into a verdict
                    r['note'] = (r.get('note') or '') + f" [replay builder failed: {e}]"
        res.append(r)
    return res


def definite_results(I, name_prefix, case):
    """violations the interpreter itself established on this path before it had to stop (e.g. a store to an attribute of
    a Substance argument): reported although the rest of the path is unsupported"""
    return [{'name': name_prefix + d['name'], 'case': case, 'kind': 'property', 'verdict': 'refuted', 'independent': True,
             'secs': 0.0, 'backend': 'interpreter (definite)', 'note': d['note']} for d in I.__dict__.get('definite', [])]


def unsupported_result(name, case, note, kind='property'):
    return {'name': name, 'case': case, 'kind': kind, 'verdict': 'unsupported', 'note': note, 'secs': 0.0}


def sub_wf(s):
    """Type invariant of a substance (what the three factories guarantee, plus sa > 0 as the property quantifies
    over positive specific activities)."""
    return z3.And(kind(s) >= 1, kind(s) <= 3, mw(s) > 0, dens(s) > 0, sa(s) > 0)
