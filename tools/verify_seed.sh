#!/bin/sh
# tools/verify_seed.sh <dir with patch.diff and demo.py>  — confirm: pristine demo exits 0; patched: suite passes, demo exits 1.
DIR="$1"
D=$(mktemp -d /tmp/pyvc-seed-XXXXXX)
DEMO="$DIR/demo.py"; [ -f "$DIR/demo_head.py" ] && DEMO="$DIR/demo_head.py"   # demonstration rebased on the repaired tree
git -C /repo worktree add -q --detach "$D/repo" HEAD || exit 3
cd "$D/repo"
PYTHONPATH="$D/repo" /venv/bin/python "$DEMO" > "$D/demo0.out" 2>&1; d0=$?
( git apply "$DIR/patch.diff" 2>/dev/null || git apply --3way "$DIR/patch.diff" ) || { echo "PATCH-FAIL"; cd /; git -C /repo worktree remove --force "$D/repo"; rm -rf "$D"; exit 3; }
PYTHONPATH="$D/repo" /venv/bin/python -m pytest -q -p no:cacheprovider -x > "$D/suite.out" 2>&1; s=$?
PYTHONPATH="$D/repo" /venv/bin/python "$DEMO" > "$D/demo1.out" 2>&1; d1=$?
echo "$DIR pristine_demo=$d0 suite_exit=$s ($(tail -1 $D/suite.out)) patched_demo=$d1"
cd /
git -C /repo worktree remove --force "$D/repo"; rm -rf "$D"
[ $d0 -eq 0 ] && [ $s -eq 0 ] && [ $d1 -eq 1 ]
