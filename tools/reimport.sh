#!/bin/sh
# tools/reimport.sh <seed name> <property> [check ids...] : re-confirm a stored seed and re-run the checks against it
set -e
here=$(cd "$(dirname "$0")/.." && pwd)
n=$1; p=$2; shift 2
t=$(mktemp -d /tmp/reimport-XXXXXX)
cp "$here/seeded/$n/patch.diff" "$here/seeded/$n/demo.py" "$t/" 
for f in notes.md demo_head.py; do [ -f "$here/seeded/$n/$f" ] && cp "$here/seeded/$n/$f" "$t/"; done
python3-vt "$here/tools/import_seed.py" "$t" "$p" "$n" "$@"
rm -rf "$t"
