#!/usr/bin/env python3
"""tools/regress_seeds.py [-j N] [seed ...]: re-run, for every stored seed, the checks recorded in its meta.json against the
seeded change (scratch worktree, tools/mutant.sh) and compare the exit codes with the recorded ones.  Prints one line per
seed and a summary; exit 1 if a check that detected the seed (exit 1) no longer does."""
import json
import os
import subprocess
import sys
from concurrent.futures import ThreadPoolExecutor

HERE = os.path.dirname(os.path.dirname(os.path.abspath(__file__)))


def one(name):
    d = os.path.join(HERE, 'seeded', name)
    meta = json.load(open(os.path.join(d, 'meta.json')))
    want = meta.get('check_exit_codes', {})
    checks = [c for c, v in want.items() if v == 1]
    if not checks:
        return name, 'no-detecting-check', {}, want
    m = subprocess.run([os.path.join(HERE, 'tools', 'mutant.sh'), os.path.join(d, 'patch.diff')] + checks,
                       capture_output=True, text=True)
    got = {}
    for c in checks:
        import re
        mm = re.search(rf'--- {c} exit=(\d+)', m.stdout)
        got[c] = int(mm.group(1)) if mm else None
    ok = all(got[c] == 1 for c in checks)
    return name, 'ok' if ok else 'REGRESSION', got, want


def main():
    args = sys.argv[1:]
    j = 4
    if args[:1] == ['-j']:
        j = int(args[1])
        args = args[2:]
    names = args or sorted(n for n in os.listdir(os.path.join(HERE, 'seeded'))
                           if os.path.exists(os.path.join(HERE, 'seeded', n, 'meta.json')))
    bad = 0
    with ThreadPoolExecutor(j) as ex:
        for name, verdict, got, want in ex.map(one, names):
            print(name, verdict, got, flush=True)
            bad += verdict == 'REGRESSION'
    print(f'{len(names)} seeds, {bad} regressions')
    return 1 if bad else 0


if __name__ == '__main__':
    sys.exit(main())
