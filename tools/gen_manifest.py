#!/usr/bin/env python3
"""Regenerates /verif/MANIFEST.json from the table below (kept next to the code so the two do not drift)."""
import json
import os

HERE = os.path.dirname(os.path.dirname(os.path.abspath(__file__)))
IDS = [json.loads(l)['id'] for l in open(os.path.join(HERE, 'properties.jsonl'))]

COMMON_NOTE = ("Relative to: floats treated as reals and round(x, internal_precision) as identity (A1/A2), partial "
               "correctness (A4), no reflection (A5), CPython dict/copy semantics (A6), the modelled builtins, the SMT "
               "solvers, and pyvc's own semantics of the Python subset. The verified text is the AST of /repo's "
               "working tree, re-parsed on every run; contracts are sidecars in /verif/contracts.")

CHECKS = {
    'C06': dict(
        category='proof',
        text=("Every cell of the conversion table is a discharged obligation: for each substance kind x 40 source "
              "spellings x 40 target spellings the real Unit.convert_from / Unit.convert body is executed symbolically "
              "(amount, molecular weight, density, specific activity and the configured default densities are "
              "unconstrained positive reals) and its result is proved equal to the SI/physics specification function; "
              "rejection of non-enzymes measured in U, the storage conversions, the three Substance factories, and "
              "the algebraic lemmas (linear, composes, round-trips) are further obligations. Unbounded in all numeric "
              "inputs; the unit strings are the complete finite grammar."),
        design_ref='DESIGN.md §7 C06',
        technique='contract-based deductive verification: ast->z3 VC generation on the real function bodies, spec-function postconditions',
        note=COMMON_NOTE),
}

CHECKS['C13'] = dict(
    category='proof',
    text=("For every documented selector form (row int/label, 'A:1', tuples, one- and two-axis slices with every "
          "combination of int / label / open ends and optional step, slice+element mixes, lists of up to three "
          "singles, label-for-integer interchange) the real Slicer.__init__ (and Plate.__getitem__ -> "
          "PlateSlicer.__init__) is executed symbolically with the plate size, the labeling (an abstract injective "
          "label list) and every integer in the selector unconstrained; the obligation is: it returns iff all parts "
          "are inside the plate, and then self.slices equals the documented 0-based slices — numpy basic slicing "
          "(trusted, T3) turns those into exactly the documented wells in row-major order. Unbounded in plate size, "
          "labeling and integers; list selectors are proved for lengths 1..3. Bounded stand-ins (labelled, not "
          "counted): default labels / well names of Plate.__init__ for shapes up to the stated bound; an exhaustive "
          "native enumeration of selectors on plates up to n x n against a pure-Python reference of the docs."),
    design_ref='DESIGN.md §7 C13',
    technique='contract-based deductive verification: ast->z3 VC generation on the real Slicer code over symbolic ints and an abstract label list (LIA)',
    note=COMMON_NOTE + " Labels are assumed not to contain ':'; numpy basic slicing semantics is trusted (T3).")
CHECKS['C14'] = dict(
    category='proof',
    text=("Meaning: for every unit shape of the grammar (41 quantity shapes; 3200 ratio shapes with and without a "
          "denominator value; molar/molal shorthand with every prefix; the three percent forms) the real "
          "parse_quantity / parse_concentration is executed on a string whose numerals are symbolic reals and the "
          "result is proved equal to the SI denotation; spellings named in the property are proved to denote the same "
          "triple. Rejection: parse_quantity is verified over ALL strings (z3 string variables, case split on the "
          "number of blanks): a returning call implies the text is '<float> <unit of the grammar>' and carries its SI "
          "meaning. parse_concentration's rejection half is a BOUNDED stand-in (token-level enumeration on the real "
          "code against a grammar reference written from the docs), labelled bounded and not counted as proved."),
    design_ref='DESIGN.md §7 C14, §8 B-C14-reject',
    technique='contract-based deductive verification: ast->z3 VC generation with segmented strings (symbolic numerals) and z3 string variables; bounded enumeration stand-in for one clause',
    note=COMMON_NOTE + " float(text) is modelled by uninterpreted isfloat/floatval on symbolic text; numerals contain no blank, '/' or ':'.")


CONTAINER_TECH = ('contract-based deductive verification: ast->z3 VC generation on the real Container code; contents are '
                  'maps of arbitrary size (arrays + quantified loop invariant), sums as canonical weighted sums; '
                  'refutation by finite instantiation of the same AST, counter-models replayed on the real package')
CONTAINER_NOTE = COMMON_NOTE + (" Sums over a contents dict are the weighted finite sums WS_k (T2); the Sigma-algebra "
                                "facts used (linearity, point update, monotonicity, non-negativity) are instances of "
                                "lemmas stated in lemmas/Sigma.lean. Unit.convert_from is used through its contract "
                                "(the spec function verified by C06).")
CHECKS['C01'] = dict(category='proof', design_ref='DESIGN.md §7 C01', technique=CONTAINER_TECH, note=CONTAINER_NOTE + (
    " Plate level: the real Slicer.apply/set/get, Container._transfer_slice, PlateSlicer._transfer, Plate.transfer are "
    "executed on plates of small concrete shapes (2x3, 3x3 for same-plate cases; every slice geometry kind incl. "
    "stepped slices, lists, repeated list entries, same-named plates) with abstract wells and Container._transfer used "
    "modularly (event with fresh results); the obligation `linear` (every state consumed at most once, every produced "
    "state placed exactly once, nothing dropped) plus `locality` lift per-event conservation to the whole operation "
    "(lemma sum_pairs). Bounded in the plate shape, unbounded in contents and quantities."),
    text=("Container._transfer is executed symbolically for every unit family (L with all prefixes; g, mol, U), "
          "request class (negative, zero from empty, in range, more than held) and capacity kind, with source and "
          "destination contents as maps of arbitrary size: the per-substance move loop is cut by a quantified "
          "invariant (init/step discharged), and at every return `for all s: src'[s] + dst'[s] = src[s] + dst[s]` "
          "and the key-set clause are discharged. Unbounded in the number of substances and in all numeric inputs."))
CHECKS['C02'] = dict(category='proof', design_ref='DESIGN.md §7 C02', technique=CONTAINER_TECH, note=CONTAINER_NOTE + (
    " Drift of the 10-digit internal rounding over long chains is outside A2 and not claimed. Plate level (n wells "
    "lose/gain n*q): obligations `count`, `same-args`, `linear` on the event log of the real pairing code for plates of "
    "small concrete shape (bounded in the shape) — with `size` per event this gives n*q."),
    text=("At every normal return of Container._transfer with a request q in range: every substance of the source is "
          "reduced by the same fraction r = q/measure_u(source) and exactly that aliquot is added to the destination "
          "(`uniform`), and the moved size measured in the unit of q (total volume, total mass, non-enzyme moles, "
          "enzyme activity) equals q on both sides (`size`); a zero request on an empty source moves nothing. "
          "Discharged for contents of arbitrary size, all numeric inputs, every unit family."))
CHECKS['C03'] = dict(category='proof', design_ref='DESIGN.md §7 C03', technique=CONTAINER_TECH, note=CONTAINER_NOTE + (
    " The exact-capacity boundary under IEEE doubles is invisible to a real-arithmetic proof (A1/A2). "
    "create_solution / create_solution_from / dilute / recipe steps are not yet part of this check. Container.__init__ "
    "is proved per list length 0..2 (bounded in the number of initial entries)."),
    text=("For Container.__init__, _add/_self_add, _transfer, remove, fill_to: every returned container has "
          "non-negative amounts and volume and volume <= capacity (`nonneg`, `cap`); a returning call implies the "
          "request was feasible (`refuse`: negative quantity, more than the source holds in the unit of the request, "
          "capacity exceeded, fill target below the current quantity); a ValueError implies it was infeasible "
          "(`accept`), and no other exception is possible (`safe[...]`: division by zero, KeyError, ...). All as "
          "obligations over contents of arbitrary size."))
CHECKS['C10'] = dict(category='proof', design_ref='DESIGN.md §7 C10', technique=CONTAINER_TECH, note=CONTAINER_NOTE + (
    " Plate observers (get_volumes/get_moles/get_volume/get_substances of Plate and PlateSlicer) are not yet part of "
    "this check; dataframe/_repr_html_ (pandas) are out of reach."),
    text=("Representation invariant `cached volume = sum of the volumes of the contents` as a postcondition of "
          "Container.__init__, _add, _transfer (both results), remove, fill_to and as precondition where the cached "
          "volume is read; observers: get_volume(u) and get_concentration(solute, units) for 24 unit spellings x 3 "
          "solute kinds equal their definition computed from the contents."))
CHECKS['C11'] = dict(category='proof', design_ref='DESIGN.md §7 C11', technique=CONTAINER_TECH, note=CONTAINER_NOTE + (
    " Container.dilute is proved on explicit mixtures (binary, solute only, ternary, with an enzyme bystander; 1..3 "
    "substances — bounded in the number of substances, each a complete QF_NRA proof over all amounts and constants); "
    "quick tier: 4 representative unit pairs, thorough: all 9. The library treats concentrations within a relative "
    "1e-6 as equal; the target clause allows 2e-6."),
    text=("Container.fill_to for solid and liquid solvents, fill units L/g/mol with several prefixes, relation of the "
          "target to the current quantity (above / equal / below / non-positive) and capacity kind: the result's "
          "total in the fill unit equals the target, only the solvent increased, capacity respected, targets below "
          "the current quantity refused, reachable targets accepted. Contents of arbitrary size incl. enzymes. "
          "Container.dilute: the solute's concentration in the requested unit equals the target, only the solvent "
          "increased, targets above the current concentration refused and those at or below accepted, no exception "
          "other than ValueError."))
CHECKS['C17'] = dict(category='proof', design_ref='DESIGN.md §7 C17', technique=CONTAINER_TECH, note=CONTAINER_NOTE + (
    " Plate/slice remove: real PlateSlicer.remove / Plate.remove / Slicer.apply on plates of small concrete shape with "
    "Container.remove used modularly (per-well, locality, linear, frame). The recipe's trash accounting is not yet "
    "part of this check."),
    text=("Container.remove(what) for what = a substance or one of the three classes: no selected substance remains, "
          "every other substance keeps membership and amount (the dict comprehension is modelled as a pointwise "
          "filter, quantified over all substances), the reported volume is the sum of the remaining volumes, name and "
          "capacity are carried over."))

CHECKS['C16'] = dict(category='proof', design_ref='DESIGN.md §7 C16',
    technique='contract-based deductive verification: class invariant + one contract per Recipe method on a symbolic recipe state (name-keyed maps/sets of arbitrary size, symbolic step count); bounded call-sequence enumeration as stand-in for the bake loop interior',
    note=COMMON_NOTE + (" Arguments are well-typed objects of the documented kinds. The step loop of bake is cut: its "
                        "effect on results/used is havocked and a syntactic frame obligation shows the loop cannot touch "
                        "locked/stages/current_stage/steps; the clauses that need the loop's effect on `used` "
                        "(refusing to bake with an unused object) rest on the bounded stand-in."),
    text=("Every declaring / step-adding / stage method and bake is executed symbolically on an arbitrary recipe state "
          "satisfying the class invariant (dom(results), used, stages as sets of arbitrary size; len(steps), "
          "current_stage symbolic): on a locked recipe each call raises RuntimeError and writes nothing; on an open "
          "recipe a call returns only if every container/plate operand is declared and no created name clashes, then "
          "appends exactly one step and changes nothing else; stage rules (one open stage, unique names, only the open "
          "stage can be ended); bake closes an open stage, returns only when #used == #declared, and locks. Unbounded "
          "in the call history. Bounded stand-in (labelled): all call sequences up to length 4 (5 thorough) over a "
          "small alphabet on the real package against a reference state machine."))

CHECKS['C07'] = dict(category='proof', design_ref='DESIGN.md §7 C07',
    technique='contract-based deductive verification: the real pairing/apply code executed on plates of small concrete shape with abstract wells; container operations used modularly as events; dataflow obligations (dispatch, pairing, linear, locality, per-well, same-args)',
    note=COMMON_NOTE + (" Bounded in the plate shape (2x3; 3x3 for same-plate cases) — each shape/geometry is a complete "
                        "proof over all well contents and operands; numpy vectorize/frompyfunc/basic slicing semantics are "
                        "trusted (T3) incl. the extra probing call of vectorize without cache/otypes. The recipe-step half "
                        "(bake) is not yet part of this check. Known findings: overlapping regions of one plate; "
                        "list selectors in plate-to-plate transfers."),
    text=("Plate.transfer / Container.transfer with every combination of container, whole plate and slice geometries "
          "(single well, row, column, rectangle, stepped, list, repeated list entry), plate-to-plate 1->N, N->1, N->N, "
          "mismatching shapes, same plate, same-named plates; PlateSlicer/Plate.remove and fill_to: every documented "
          "kind is dispatched (no TypeError/AttributeError), wells are paired as documented and other shape "
          "combinations raise ValueError, each addressed well receives the result of the stand-alone container "
          "operation on its old state with the operation's own operands, no state is used twice or dropped, wells "
          "outside the selection are unchanged in place."))

CHECKS['C04'] = dict(category='proof', design_ref='DESIGN.md §7 C04',
    technique='contract-based deductive verification: frame (modifies-nothing) and freshness obligations generated by the symbolic executor on every heap write of the real code, on every normal and exceptional path; syntactic frame scan for rendering/observer functions',
    note=COMMON_NOTE + (" Lemma (paper): if no public operation ever writes a non-fresh object then no object observable "
                        "before a call differs after it, whatever aliasing exists and whether or not the call raised. "
                        "Recipe.bake and the trackers are not yet part of this check; rendering functions (pandas) only "
                        "get the syntactic over-approximation, reported as such; functools caches are assumed not to "
                        "be mutated (checked syntactically for in-package callers)."),
    text=("Every heap write (attribute store, dict/array element store, append/add) executed by Container.__init__, "
          "_add, _transfer, transfer, _transfer_slice, remove, fill_to, get_volume, get_concentration, "
          "PlateSlicer._transfer/remove/fill_to, Plate.transfer/remove/fill_to, Slicer.apply/set and by every "
          "declaring / step-adding / stage method of Recipe is checked to target an object allocated in that "
          "activation (or a deep copy): `frame` on every path including the ones that raise (a later well refusing, a "
          "capacity overflow after partial work), `fresh` (results are new objects, never the arguments), and "
          "`frame[arguments]` for objects handed to a recipe. Symbolic contents of arbitrary size; plates of small "
          "concrete shape."))

CHECKS['C12'] = dict(category='proof', design_ref='DESIGN.md §7 C12',
    technique='contract-based deductive verification: ast->z3 VC generation on the real create_solution_from (2x2 system via a solve axiom), callees Container._transfer / __init__ used through their verified contracts; QF_NRA obligations per explicit mixture',
    note=COMMON_NOTE + (" numpy.linalg.solve is the trusted axiom T3 (x with A x = b if det != 0, LinAlgError — a "
                        "ValueError subclass — otherwise). Mixtures are explicit key sets (2..3 substances): bounded in "
                        "the number of substances, unbounded in amounts, constants, target and quantity. The refusal "
                        "side is covered only by `no exception other than ValueError` and `some request of each class "
                        "is accepted`; a closed-form feasibility spec is not stated. Tolerance 1e-6 relative."),
    text=("For substance and container solvents (with and without solute in the solvent container), representative "
          "concentration unit pairs x quantity units (all 9 x 6 in the thorough tier), stock mixtures binary / other "
          "solvent / ternary / with enzyme: at every normal return the new solution has the requested total in the "
          "quantity unit and the requested solute concentration, residual(s) + solution = inputs (+ added pure "
          "solvent) per substance, the residual stock is a uniform remainder of the stock, results are non-negative "
          "with consistent volumes, arguments are not written; only ValueError can be raised, and each request class "
          "accepts some input."))

CHECKS['C05'] = dict(category='proof', design_ref='DESIGN.md §7 C05, §8 B-C05-n',
    technique='contract-based deductive verification: ast->z3 VC generation on the real create_solution (matrix assembly with numpy zeros/identity/roll modelled exactly on concrete shapes, linalg.solve as an axiom), callees Container.__init__ / _transfer through their verified contracts; QF_NRA obligations',
    note=COMMON_NOTE + (" Bounded in the number of solutes: n = 1 complete, n = 2 for three argument shapes (n = 3 one "
                        "case in the thorough tier); for each n all numeric inputs and physical constants are symbolic. "
                        "numpy.linalg.solve is the trusted axiom T3; LinAlgError is a ValueError subclass, so singular "
                        "argument combinations count as refusals. The refusal side is `only ValueError` plus `some request "
                        "of each class is accepted`. Tolerance 1e-6 relative (and the library's own 1e-6 residual test "
                        "for over-determined rows)."),
    text=("For solids, liquids and enzymes as solutes, each pair of {concentration, quantity, total_quantity}, "
          "representative concentration unit pairs (all 9 in thorough), quantity and total units, pure-substance and "
          "container solvents: at every normal return the solution contains exactly the named solutes and the solvent "
          "in positive amounts, meets each stated concentration in its own unit, each solute quantity and the total "
          "quantity; with a container solvent the depleted container is a uniform remainder and nothing is lost; a "
          "displayed (rounded) value never drives a state change; only ValueError can be raised."))

CHECKS['C08'] = dict(category='proof', design_ref='DESIGN.md §7 C08, Appendix D',
    technique='contract-based deductive verification: induction over the step loop of Recipe.bake — the real loop body is executed for one step of each kind on an arbitrary (symbolic) recipe state; direct operations are used modularly as events; dataflow obligations resolve / same-op / store (the loop invariant SIM)',
    note=COMMON_NOTE + (" The direct container/plate operations are uninterpreted events here (their behaviour is "
                        "C01..C12's business); what is proved is which objects bake hands to them and where it stores "
                        "the results. Arbitrary prior state = arbitrary current-state objects for the involved names, "
                        "symbolic dom(results)/used/stages/number of earlier steps; plates of shape 1x2 / 2x2. fill_to on a "
                        "container or whole plate is applied twice by bake (accepted by the idempotence of fill_to, which "
                        "follows from its C11 contract). Known finding: fill_to on a slice."),
    text=("For each of 24 step kinds (transfer between containers, plates, slices, sub-slices, same plate; "
          "create_container with and without contents; create_solution with substance/container solvent and with a "
          "solute list; create_solution_from; remove on container/plate/slice/sub-slice/class; dilute with and without "
          "rename; fill_to on container/plate/slice): adding the step performs no operation; bake performs exactly the "
          "step's operation, every container/plate operand is results[<its name>] at that moment (a slice: the same "
          "selector on the current plate, never the declaration-time object), the remaining operands are the step's, "
          "the outcomes are stored under the operands' names and nothing else changes; a refused step-adding call "
          "leaves no step behind; uses() stores deep copies. By induction over the steps bake equals the eager fold."))

RECIPE_TECH = ('contract-based deductive verification: bookkeeping obligations of the real bake loop body per step kind on an arbitrary recipe state (snapshots, objects-used, substances-used, trash) + the real tracker code executed on abstract step records satisfying that bookkeeping invariant, result proved equal to the specification (telescoped ledger) over contents of arbitrary size')
CHECKS['C09'] = dict(category='proof', design_ref='DESIGN.md §7 C09, Appendix D', technique=RECIPE_TECH,
    note=COMMON_NOTE + (" Two layers: (1) BOOK — per step kind, bake records [state before, state after] of the touched "
                        "names, the names used, substances_used covering every changed substance, and trash = discarded "
                        "amounts (unbounded in the recipe history, induction step); (2) get_substance_used on step lists of "
                        "1..3 abstract records satisfying BOOK (bounded in the number of records; contents, substance, "
                        "units symbolic). The tracker obligations are discharged on the BOOK facts instantiated at the "
                        "queried substance (complete for that substance). Display rounding is the uninterpreted rnd."),
    text=("get_substance_used(substance, timeframe, unit, destinations) equals rnd(display precision, convert(sum "
          "over exactly the steps of the timeframe of [gain of the destinations + discarded amount])) for whole-recipe "
          "and named stages, default (all plates) and explicit destination sets, solids / liquids / enzymes and their "
          "units; a net decrease raises ValueError and nothing else does; amounts over consecutive stages add up to the "
          "amount over their union (before display rounding); trackers write nothing."))
CHECKS['C15'] = dict(category='proof', design_ref='DESIGN.md §7 C15, Appendix D', technique=RECIPE_TECH,
    note=COMMON_NOTE + (" Same two layers as C09. Per-well answers for plates (numpy.vectorize with otypes, numpy.round: "
                        "T3 models the dtype rule and that the builtin round() is undefined for arrays). `Flows are never "
                        "negative` is not proved here: it needs the sign facts of the container contracts (C01/C02/C03) "
                        "about every step, which the abstract records do not carry."),
    text=("get_amount_remaining(object, timeframe, unit, mode) equals the total content of the object (per well for "
          "plates) in the first/last snapshot touching it inside the timeframe; get_container_flows returns per well "
          "the sum of the gains as destination (in) and of the losses as source plus discarded amounts (out), and "
          "inflow - outflow = remaining(end) - remaining(start); for 5 program shapes x stages x objects x units."))

CHECKS['C18'] = dict(category='proof', design_ref='DESIGN.md §7 C18',
    technique='contract-based deductive verification: configuration-parametric contracts — the obligations of the configuration-dependent functions are re-discharged under every documented storage-unit setting (the configuration strings are concrete per case, everything else symbolic)',
    note=COMMON_NOTE + (" Quick: the 19 one-at-a-time settings of moles_storage_unit / volume_storage_unit (10 SI "
                        "prefixes each; heavier solution cases only for mol, mmol, L); thorough: all 100 pairs. The "
                        "lifting from per-operation parametricity to whole scripts is a paper lemma (induction over "
                        "the script: contracts are alpha_cfg(result) = F(alpha_cfg(args)) with F free of cfg). Internal "
                        "precision effects ('within rounding') are outside A2. Default densities are symbolic in C06."),
    text=("Under each setting: convert_to_storage / convert_from_storage and their round trip for every unit; "
          "Container._transfer (uniform, size, cap, refuse/accept), _add, fill_to, remove, __init__, get_volume, "
          "get_concentration, dilute, create_solution, create_solution_from, get_substance_used and container flows "
          "satisfy the same user-unit contracts as under the shipped configuration — all phrased over amounts in base "
          "units and volumes in litres, so accept/refuse decisions and reported values cannot depend on the storage "
          "units."))
CHECKS['C19'] = dict(category='proof', design_ref='DESIGN.md §7 C19',
    technique='contract-based deductive verification: the two rescaling helpers proved against `same physical amount`; instruction lines kept as structured text terms (numbers as typed holes) and compared with the true amounts symbolically',
    note=COMMON_NOTE + (" A3 (f-string of a number prints repr, float(repr(x)) == x). In the instruction-line runs the "
                        "helpers are used through the contract proved in part A (one fork per possible prefix). "
                        "Mixtures are explicit key sets of 1-2 substances. Out of reach: the literal characters of the "
                        "text, create_solution's per-substance list, collapse()'s well-range wording for plate fill_to, "
                        "HTML/pandas output."),
    text=("Unit.get_human_readable_unit for every unit spelling and convert_from_storage_to_standard_format for "
          "solids, liquids, enzymes and containers return a value and unit denoting exactly the physical amount "
          "handed in (symbolic value; all rescaling paths). The line appended by Container.__init__, _transfer "
          "(liquid / solid / mixed sources; volume, mass and mole requests), fill_to, dilute, create_solution_from "
          "and the instruction of baked dilute / fill_to steps print, before display rounding, exactly the amount "
          "added / transferred / filled (relative to the current state for recipe steps), in a unit of the right base, "
          "rounded to the display precision configured for that unit."))

FLOAT_TARGETS = (" What A1/A2 hide (WHERE the library rounds, float noise at feasibility boundaries) is covered only by the "
                 "bounded stand-in `bounded[float-targets]` (a native sweep of the real package comparing achieved with "
                 "requested amounts at relative 1e-9, plate scale included); it is labelled bounded and not counted in "
                 "`discharged`.")
for _pid in ('C01', 'C02', 'C05', 'C10', 'C11', 'C12', 'C14'):
    CHECKS[_pid]['note'] += FLOAT_TARGETS
ROUNDING = (" Rounding placement (A2 relaxed for this function): the same code is re-executed with every internal rounding "
            "returning some number within half a unit of the 10th decimal, and accuracy bounds with an explicit scale "
            "precondition are discharged (obligations `rounding-placement/*/accuracy[...]`).")
for _pid in ('C01', 'C02', 'C10', 'C11', 'C14'):
    CHECKS[_pid]['note'] += ROUNDING
CHECKS['C07']['note'] += (" Instruction text of wells is opaque but carries a provenance (whose text it was derived from, "
                          "propagated through splitlines/replace/join); obligation `instructions-home`: every well's final "
                          "text derives from its own.")
CHECKS['C19']['note'] += (" Plate operations: obligation `plate.transfer/instructions-home` (text provenance) on the same "
                          "plate cases as C07 — no well's instructions are replaced by another container's text.")
EXTRA = {
    'C03': " Recipe steps: the simulation clauses of bake (`resolve`, `same-op`, `store`) are re-discharged here; `raises[refuse-unreachable]`: a returned dilution lies between the diluent's and the stock's concentration; the stored volume after every operation (`ensures[vol]`) is re-discharged because capacity checks read it.",
    'C08': " `store[results-unedited]`: bake files the very objects the direct operation returned; `safe[*]`: no exception the eager fold does not raise.",
    'C10': " Plate observers (get_volumes / get_moles / get_substances) are under contract cell by cell on 2x3 plates with contents of arbitrary size; `observers[has_liquid/*]`: the arguments have been asked before the operation and every result answers for its own contents.",
    'C11': " Plate.fill_to / PlateSlicer.fill_to: `plate.fill_to/per-well`, `locality`, `dispatch` on the plate geometries of C07.",
    'C14': " `ensures[same-on-reuse]` (functools.cache modelled faithfully: the same text parsed twice means the same), `ensures[config-change]` ('%w/v' after default_weight_volume_units changed), and the unit conversion table re-discharged ('interchangeable everywhere a quantity is accepted').",
    'C15': " Flows are per well for plates, also for discarding steps and for transfers inside one plate; `filed-under-own-name` (the trackers find objects by name). Obligations the solvers leave undecided are decided by a native run of the replay scenario (refutation only).",
    'C17': " Recipe remove steps: the simulation clauses of bake for the remove kinds are re-discharged here.",
    'C19': " `bounded[plate-fill-step-text]`: the per-well wording of a plate fill_to step (through collapse()) is checked natively, labelled bounded.",
}
EXTRA2 = {
    'C01': " The selector contract of C13 (Slicer.__init__ / Plate.__getitem__ for symbolic plate sizes, labelings and selector contents) is re-discharged under this property: `no substance appears in a well that is neither source nor destination` is decided modulo `plate[selector]` addressing the documented wells.",
    'C07': " The selector contract of C13 is re-discharged under this property (`exactly the addressed wells` is decided modulo `plate[selector]` addressing the documented wells).",
    'C03': " Plate level: `plate.fill_to/dispatch` and `per-well` (every addressed well goes through Container.fill_to, so its refusal is the plate's refusal); `plate.transfer/linear`, `dispatch` for container->wells and wells->container (every aliquot is a Container.transfer on the current stock).",
    'C05': " Concentration units may differ per solute (different denominators in one call).",
    'C08': " `steps-kept`: the baked recipe keeps all its steps in order (stage windows are positions in that list).",
    'C09': " `Recipe.bake/steps-kept`: the baked recipe keeps all its steps in order (stage windows are positions in that list). `ensures[net-gain/asked-again]`: the same question asked again in another unit is answered in that unit. Unbounded in the number of steps: `inv[step-loop@Recipe.get_substance_used].init/.step` (induction over the step loop, one arbitrary abstract record per step shape) and the code after the loop against TOTAL; the telescoping of TOTAL to the net gain along the bookkeeping chain is a paper lemma.",
    'C15': " `Recipe.bake/steps-kept` as in C09. get_container_flows of a CONTAINER is proved for a step list of arbitrary length (induction over the step loop with the two accumulators in/out); per-well arrays of plates stay with the 1..3-record scenarios.",
    'C18': " Config.__init__ (pyplate/__init__.py) is executed by the engine on the yaml data of each setting (file search and yaml parsing dropped), so attributes it computes are what the code under verification sees; the sweep includes the refusal boundaries (over-draw by volume / mass / moles, fill below the current quantity).",
    'C13': " Default row labels are compared with the spreadsheet convention A..Z, AA, AB, ... (bounded, shapes up to the stated bound; native fallback when the constructor is outside the subset).",
    'C19': " `cache-transparent` is re-discharged here (a memoised conversion must not conflate equal-named substances).",
    'C10': " `Plate.get_volume` (total = sum over the wells to the displayed precision) and `Container.get_substances` are under contract; `observers[has_liquid/*]`, `observers[get_substances/*]` after _transfer, _add, remove and fill_to: the argument has been asked before, the result answers for its own contents (memo fields carried over by copies). Stores into private attributes (`_x`) are not frame writes.",
    'C11': " `rounding-placement/Container.dilute/accuracy[dilute]`, `refuse-higher`: the target is reached within the library's band and a higher target refused at every scale of concentration the two-component domain reaches (down to ~1e-11 M), with native replay.",
}
for _pid, _t in EXTRA.items():
    CHECKS[_pid]['note'] += _t
for _pid, _t in EXTRA2.items():
    CHECKS[_pid]['note'] += _t
DEPS = (" Modular dependencies are re-discharged under this property's name (a change inside a callee is reported under every "
        "property decided modulo its contract): the unit conversion table, and for C05/C12 the contracts of Container._transfer and __init__.")
for _pid in ('C02', 'C03', 'C05', 'C09', 'C10', 'C11', 'C12', 'C14', 'C15', 'C17', 'C19'):
    CHECKS[_pid]['note'] += DEPS
THOROUGH = (" Thorough tier additionally: Lean re-check of the Sigma lemmas (where assumed), the engine-vs-CPython "
            "differential over pyvc/diff_corpus.py, and the larger case tables / bounds stated in the evidence.")
for _c in CHECKS.values():
    _c['note'] += THOROUGH

NOT_YET = "check not built yet in this round (under construction; not claimed)"
NOT_APPLICABLE = {}


def main():
    checks = []
    for pid in IDS:
        if pid not in CHECKS:
            continue
        c = CHECKS[pid]
        checks.append({
            'property_id': pid,
            'quick_cmd': f'./check {pid} --tier quick',
            'thorough_cmd': f'./check {pid} --tier thorough',
            'evidence_file': f'evidence/{pid}.json',
            'replay_cmd_template': './check replay {path}',
            'engine': 'pyvc',
            'level_claimed': {'category': c['category'], 'text': c['text'], 'design_ref': c['design_ref']},
            'level_note': c['note'],
            'technique': c['technique'],
        })
    na = []
    for pid in IDS:
        if pid in CHECKS:
            continue
        na.append({'property_id': pid, 'reason': NOT_APPLICABLE.get(pid, NOT_YET)})
    m = {
        'version': 1,
        'setup_cmd': './check selftest',
        'hooks': {
            'guard': 'PYPLATE_VERIF',
            'enable': 'no hooks are needed: contracts are sidecars under /verif/contracts and the source is parsed, '
                      'not instrumented; the guard name is reserved and unused by /repo',
            'baseline_off_cmd': 'cd /repo && /venv/bin/python -m pytest -ra -q -p no:cacheprovider --timeout=900 '
                                '--continue-on-collection-errors',
            'source_commits': [],
            'add_only': True,
        },
        'engines': [{
            'name': 'pyvc',
            'path': 'pyvc/',
            'serves_properties': sorted(CHECKS),
            'kind_free_text': 'own verification-condition generator: symbolic execution of the real function ASTs '
                              'under sidecar contracts, obligations discharged by z3 (cvc5 / z3 4.8 CLI on unknowns); '
                              'counter-models replayed on the real package',
        }],
        'checks': checks,
        'notes': 'Exit codes of every check: 0 held, 1 violation (VIOLATION line), 2 undecided, 3 engine error. '
                 'Known findings: findings/known_findings.json.',
        'not_applicable': na,
    }
    json.dump(m, open(os.path.join(HERE, 'MANIFEST.json'), 'w'), indent=1)
    print('MANIFEST.json written:', len(checks), 'checks,', len(na), 'not claimed')


if __name__ == '__main__':
    main()
