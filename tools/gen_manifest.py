#!/usr/bin/env python3
"""Regenerates /verif/MANIFEST.json from the table below (kept next to the code so the two do not drift)."""
import json
import os

HERE = os.path.dirname(os.path.dirname(os.path.abspath(__file__)))
IDS = [json.loads(l)['id'] for l in open(os.path.join(HERE, 'properties.jsonl'))]

COMMON_NOTE = ("Relative to: floats treated as reals and round(x, internal_precision) as identity (A1/A2), partial "
               "correctness (A4), no reflection (A5), CPython dict/copy semantics (A6), the modelled builtins, the SMT "
               "solvers, and pyvc's own semantics of the Python subset. The verified text is the AST of /repo's "
               "working tree, re-parsed on every run; contracts are sidecars in /verif/contracts.")

CHECKS = {
    'C06': dict(
        category='proof',
        text=("Every cell of the conversion table is a discharged obligation: for each substance kind x 40 source "
              "spellings x 40 target spellings the real Unit.convert_from / Unit.convert body is executed symbolically "
              "(amount, molecular weight, density, specific activity and the configured default densities are "
              "unconstrained positive reals) and its result is proved equal to the SI/physics specification function; "
              "rejection of non-enzymes measured in U, the storage conversions, the three Substance factories, and "
              "the algebraic lemmas (linear, composes, round-trips) are further obligations. Unbounded in all numeric "
              "inputs; the unit strings are the complete finite grammar."),
        design_ref='DESIGN.md §7 C06',
        technique='contract-based deductive verification: ast->z3 VC generation on the real function bodies, spec-function postconditions',
        note=COMMON_NOTE),
}

CHECKS['C13'] = dict(
    category='proof',
    text=("For every documented selector form (row int/label, 'A:1', tuples, one- and two-axis slices with every "
          "combination of int / label / open ends and optional step, slice+element mixes, lists of up to three "
          "singles, label-for-integer interchange) the real Slicer.__init__ (and Plate.__getitem__ -> "
          "PlateSlicer.__init__) is executed symbolically with the plate size, the labeling (an abstract injective "
          "label list) and every integer in the selector unconstrained; the obligation is: it returns iff all parts "
          "are inside the plate, and then self.slices equals the documented 0-based slices — numpy basic slicing "
          "(trusted, T3) turns those into exactly the documented wells in row-major order. Unbounded in plate size, "
          "labeling and integers; list selectors are proved for lengths 1..3. Bounded stand-ins (labelled, not "
          "counted): default labels / well names of Plate.__init__ for shapes up to the stated bound; an exhaustive "
          "native enumeration of selectors on plates up to n x n against a pure-Python reference of the docs."),
    design_ref='DESIGN.md §7 C13',
    technique='contract-based deductive verification: ast->z3 VC generation on the real Slicer code over symbolic ints and an abstract label list (LIA)',
    note=COMMON_NOTE + " Labels are assumed not to contain ':'; numpy basic slicing semantics is trusted (T3).")
CHECKS['C14'] = dict(
    category='proof',
    text=("Meaning: for every unit shape of the grammar (41 quantity shapes; 3200 ratio shapes with and without a "
          "denominator value; molar/molal shorthand with every prefix; the three percent forms) the real "
          "parse_quantity / parse_concentration is executed on a string whose numerals are symbolic reals and the "
          "result is proved equal to the SI denotation; spellings named in the property are proved to denote the same "
          "triple. Rejection: parse_quantity is verified over ALL strings (z3 string variables, case split on the "
          "number of blanks): a returning call implies the text is '<float> <unit of the grammar>' and carries its SI "
          "meaning. parse_concentration's rejection half is a BOUNDED stand-in (token-level enumeration on the real "
          "code against a grammar reference written from the docs), labelled bounded and not counted as proved."),
    design_ref='DESIGN.md §7 C14, §8 B-C14-reject',
    technique='contract-based deductive verification: ast->z3 VC generation with segmented strings (symbolic numerals) and z3 string variables; bounded enumeration stand-in for one clause',
    note=COMMON_NOTE + " float(text) is modelled by uninterpreted isfloat/floatval on symbolic text; numerals contain no blank, '/' or ':'.")

NOT_YET = "check not built yet in this round (under construction; not claimed)"
NOT_APPLICABLE = {}


def main():
    checks = []
    for pid in IDS:
        if pid not in CHECKS:
            continue
        c = CHECKS[pid]
        checks.append({
            'property_id': pid,
            'quick_cmd': f'./check {pid} --tier quick',
            'thorough_cmd': f'./check {pid} --tier thorough',
            'evidence_file': f'evidence/{pid}.json',
            'replay_cmd_template': './check replay {path}',
            'engine': 'pyvc',
            'level_claimed': {'category': c['category'], 'text': c['text'], 'design_ref': c['design_ref']},
            'level_note': c['note'],
            'technique': c['technique'],
        })
    na = []
    for pid in IDS:
        if pid in CHECKS:
            continue
        na.append({'property_id': pid, 'reason': NOT_APPLICABLE.get(pid, NOT_YET)})
    m = {
        'version': 1,
        'setup_cmd': './check selftest',
        'hooks': {
            'guard': 'PYPLATE_VERIF',
            'enable': 'no hooks are needed: contracts are sidecars under /verif/contracts and the source is parsed, '
                      'not instrumented; the guard name is reserved and unused by /repo',
            'baseline_off_cmd': 'cd /repo && /venv/bin/python -m pytest -ra -q -p no:cacheprovider --timeout=900 '
                                '--continue-on-collection-errors',
            'source_commits': [],
            'add_only': True,
        },
        'engines': [{
            'name': 'pyvc',
            'path': 'pyvc/',
            'serves_properties': sorted(CHECKS),
            'kind_free_text': 'own verification-condition generator: symbolic execution of the real function ASTs '
                              'under sidecar contracts, obligations discharged by z3 (cvc5 / z3 4.8 CLI on unknowns); '
                              'counter-models replayed on the real package',
        }],
        'checks': checks,
        'notes': 'Exit codes of every check: 0 held, 1 violation (VIOLATION line), 2 undecided, 3 engine error. '
                 'Known findings: findings/known_findings.json.',
        'not_applicable': na,
    }
    json.dump(m, open(os.path.join(HERE, 'MANIFEST.json'), 'w'), indent=1)
    print('MANIFEST.json written:', len(checks), 'checks,', len(na), 'not claimed')


if __name__ == '__main__':
    main()
