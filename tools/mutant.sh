#!/bin/sh
# tools/mutant.sh <patch.diff> <property-id>...   — run checks against a scratch copy of /repo with the patch applied.
# The scratch copy lives under /tmp and is removed afterwards; evidence/replays of the run go to a temp dir.
PATCH="$1"; shift
D=$(mktemp -d /tmp/pyvc-scratch-XXXXXX)
git -C /repo worktree add -q --detach "$D/repo" HEAD || exit 3
( cd "$D/repo" && ( git apply "$PATCH" 2>/dev/null || git apply --3way "$PATCH" ) ) || { echo "patch does not apply"; git -C /repo worktree remove --force "$D/repo"; rm -rf "$D"; exit 3; }
mkdir -p "$D/ev" "$D/rp"
rc=0
for P in "$@"; do
  PYVC_REPO="$D/repo" PYVC_EVIDENCE_DIR="$D/ev" PYVC_REPLAY_DIR="$D/rp" /verif/check "$P" --tier "${TIER:-quick}" > "$D/out.$P" 2>&1
  r=$?
  echo "--- $P exit=$r"
  grep -E "^(VIOLATION|UNDECIDED|ENGINE-ERROR|KNOWN-FINDING|  obligation)" "$D/out.$P" | head -${LINES_MAX:-12}
  tail -1 "$D/out.$P"
  if [ -n "$SHOW_REPLAY" ]; then for f in "$D"/rp/*.json; do [ -f "$f" ] && python3 -c "
import json,sys; d=json.load(open('$f')); print(d["obligation"], d["case"], d["n_failing_cases"], d["reproduced_on_real_code"])"; done; fi
  [ $r -gt $rc ] && rc=$r
done
git -C /repo worktree remove --force "$D/repo"
rm -rf "$D"
exit $rc
