#!/usr/bin/env python3
"""Regenerates the generated parts of DESIGN.md (between <!-- BEGIN:x --> / <!-- END:x --> markers):
fixes (table of fix commits from `git log` + findings/known_findings.json), known (known findings), seeds (seed table)."""
import json
import os
import re
import subprocess
HERE = os.path.dirname(os.path.dirname(os.path.abspath(__file__)))
BASE = 'af9f2c3'


def fixes():
    k = json.load(open(os.path.join(HERE, 'findings', 'known_findings.json')))
    log = subprocess.run(['git', '-C', '/repo', 'log', '--reverse', '--format=%h|%s', f'{BASE}..HEAD'], capture_output=True,
                         text=True).stdout.strip().splitlines()
    fixed = {}
    for line in k['fixed']:
        m = re.match(r'fixed: property=(\S+) (\S+) (.*)', line)
        fixed[m.group(2)] = (m.group(1), m.group(3))
    rows = ["| # | commit | property | fix | what failed, and the obligation that found it |", "|---|---|---|---|---|"]
    for i, l in enumerate(log, 1):
        h, subj = l.split('|', 1)
        pid, what = fixed.get(h, ('?', '(no record)'))
        rows.append(f"| F{i} | `{h}` | {pid} | {subj[5:]} | {what.replace('|', '/')} |")
    return '\n'.join(rows)


def known():
    k = json.load(open(os.path.join(HERE, 'findings', 'known_findings.json')))
    out = []
    for f in k['findings']:
        out.append(f"* **{f['id']}** ({', '.join(f.get('properties', []))}; obligation `{f['obligation']}`"
                   + (f", case `{f['case']}`" if 'case' in f else '') + f"). {f.get('what', '')}\n"
                   f"  *Why not repaired:* {f.get('why_not_fixed', '?')}")
    return '\n'.join(out)


def seeds():
    return subprocess.run(['python3', os.path.join(HERE, 'tools', 'seed_table.py')], capture_output=True, text=True).stdout.strip()


def main():
    p = os.path.join(HERE, 'DESIGN.md')
    d = open(p).read()
    for name, gen in (('fixes', fixes), ('known', known), ('seeds', seeds)):
        a, b = f'<!-- BEGIN:{name} -->', f'<!-- END:{name} -->'
        if a in d and b in d:
            i, j = d.index(a) + len(a), d.index(b)
            d = d[:i] + '\n' + gen() + '\n' + d[j:]
        else:
            print('marker missing:', name)
    open(p, 'w').write(d)


if __name__ == '__main__':
    main()
