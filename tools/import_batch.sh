#!/bin/sh
# tools/import_batch.sh <out dir> <property> [extra check ids...] : import every m*/ under <out dir>/<property> under the next free seed names
out=$1; p=$2; shift 2
here=$(cd "$(dirname "$0")/.." && pwd)
for d in "$out/$p"/m*; do
  [ -f "$d/patch.diff" ] || continue
  k=1; while [ -d "$here/seeded/$p-m$k" ]; do k=$((k+1)); done
  python3-vt "$here/tools/import_seed.py" "$d" "$p" "$p-m$k" "$p" "$@" | tail -1
done
