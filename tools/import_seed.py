#!/usr/bin/env python3
"""tools/import_seed.py <src dir (patch.diff, demo.py, notes.md)> <property> <name> [check ids...]
Confirms the seeded change (pristine demo passes, patched suite passes, patched demo fails), runs the given checks
against it on a scratch worktree, and stores everything under /verif/seeded/<name>/ with meta.json."""
import json
import os
import re
import shutil
import subprocess
import sys

HERE = os.path.dirname(os.path.dirname(os.path.abspath(__file__)))


def main():
    src, prop, name = sys.argv[1:4]
    checks = sys.argv[4:] or [prop]
    dst = os.path.join(HERE, 'seeded', name)
    os.makedirs(dst, exist_ok=True)
    for f in ('patch.diff', 'demo.py', 'demo_head.py', 'notes.md'):
        if os.path.exists(os.path.join(src, f)):
            shutil.copy(os.path.join(src, f), os.path.join(dst, f))
    v = subprocess.run([os.path.join(HERE, 'tools', 'verify_seed.sh'), dst], capture_output=True, text=True)
    confirmed = v.returncode == 0
    m = subprocess.run([os.path.join(HERE, 'tools', 'mutant.sh'), os.path.join(dst, 'patch.diff')] + checks,
                       capture_output=True, text=True)
    out = m.stdout
    det = {}
    for c in checks:
        mm = re.search(rf'--- {c} exit=(\d+)', out)
        det[c] = int(mm.group(1)) if mm else None
    obligations = re.findall(r'obligation=(\S+)', out)
    notes = open(os.path.join(dst, 'notes.md')).read() if os.path.exists(os.path.join(dst, 'notes.md')) else ''
    meta = {
        'property': prop,
        'name': name,
        'confirmed': confirmed,
        'confirmation': v.stdout.strip().splitlines()[-1:] if v.stdout else v.stderr[-300:],
        'needs_to_manifest': notes.strip().splitlines()[:12],
        'ran': [f'tools/verify_seed.sh seeded/{name}', f'tools/mutant.sh seeded/{name}/patch.diff ' + ' '.join(checks)],
        'check_exit_codes': det,
        'detected_by': sorted(set(obligations))[:10],
        'replayed_on_real_code': 'no-failing-input-found' not in out and 'VIOLATION' in out,
        'check_output': [l[:400] for l in out.splitlines() if l.startswith(('VIOLATION', '  obligation', 'UNDECIDED', 'ENGINE'))][:8],
    }
    json.dump(meta, open(os.path.join(dst, 'meta.json'), 'w'), indent=1)
    print(name, 'confirmed' if confirmed else 'NOT-CONFIRMED', det, meta['detected_by'][:3])


if __name__ == '__main__':
    main()
