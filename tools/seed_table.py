#!/usr/bin/env python3
"""prints the markdown table of DESIGN §15 from seeded/*/meta.json"""
import glob
import json
import os
HERE = os.path.dirname(os.path.dirname(os.path.abspath(__file__)))
print("| seed | change (first line of the author's note) | checks run -> exit | obligations that fail | input replayed on the changed code |")
print("|---|---|---|---|---|")
for d in sorted(glob.glob(os.path.join(HERE, 'seeded', '*', ''))):
    m = json.load(open(d + 'meta.json'))
    what = (m['needs_to_manifest'][0] if m['needs_to_manifest'] else '').lstrip('# ').replace('|', '/')
    what = what.split(' - ', 1)[-1].split(' -- ', 1)[-1].split(' — ', 1)[-1]
    ex = ', '.join(f"{k}->{v}" for k, v in m['check_exit_codes'].items())
    obl = '<br>'.join('`' + o.split('/', 1)[1] + '`' for o in m['detected_by'][:4]) or '—'
    print(f"| {m['name']} | {what[:150]} | {ex} | {obl} | {'yes' if m.get('replayed_on_real_code') else 'no-failing-input-found'} |")
