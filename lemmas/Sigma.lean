-- Sigma-algebra lemmas instantiated by the SMT obligations (DESIGN §4.3).  Checked by `lean Sigma.lean`.
import Mathlib
open Finset
noncomputable def WS {σ : Type} (K : Finset σ) (w a : σ → ℝ) : ℝ := ∑ s ∈ K, w s * a s
theorem WS_lin {σ : Type} (K : Finset σ) (w a b c : σ → ℝ) (α β : ℝ)
    (h : ∀ s, c s = α * a s + β * b s) : WS K w c = α * WS K w a + β * WS K w b := by
  unfold WS
  rw [Finset.mul_sum, Finset.mul_sum, ← Finset.sum_add_distrib]
  apply Finset.sum_congr rfl
  intro s _
  rw [h s]; ring
-- extending the key set by keys whose amount is zero does not change the sum
theorem WS_ext {σ : Type} [DecidableEq σ] (K K' : Finset σ) (w a : σ → ℝ) (hsub : K ⊆ K')
    (hz : ∀ s ∈ K', s ∉ K → a s = 0) : WS K' w a = WS K w a := by
  unfold WS
  symm
  apply Finset.sum_subset hsub
  intro s hs hn
  rw [hz s hs hn]; ring
-- non-negative weights and amounts give a non-negative sum
theorem WS_pos {σ : Type} (K : Finset σ) (w a : σ → ℝ) (h : ∀ s ∈ K, 0 ≤ w s * a s) : 0 ≤ WS K w a := by
  unfold WS
  exact Finset.sum_nonneg h
-- pointwise smaller contributions give a smaller sum
theorem WS_mono {σ : Type} (K : Finset σ) (w a b : σ → ℝ) (h : ∀ s ∈ K, w s * a s ≤ w s * b s) :
    WS K w a ≤ WS K w b := by
  unfold WS
  exact Finset.sum_le_sum h
-- updating one key changes the sum by the weighted difference
theorem WS_point {σ : Type} [DecidableEq σ] (K : Finset σ) (w a : σ → ℝ) (k : σ) (v : ℝ) (hk : k ∈ K) :
    WS K w (Function.update a k v) = WS K w a + w k * (v - a k) := by
  unfold WS
  rw [← Finset.add_sum_erase K _ hk, ← Finset.add_sum_erase K (fun s => w s * a s) hk]
  have : ∑ s ∈ K.erase k, w s * Function.update a k v s = ∑ s ∈ K.erase k, w s * a s := by
    apply Finset.sum_congr rfl
    intro s hs
    rw [Function.update_of_ne (Finset.ne_of_mem_erase hs)]
  rw [this, Function.update_self]
  ring
